//! E8: coverage-guided workload for C01 / C07 / C13.  One input is decoded at every byte-level entry
//! point; on every accepted value the follow-up operations must not panic (C01), the value must be a
//! one-step decode/encode fixed point (C07; the known ciborium finding is attributed
//! counterfactually and skipped) and both API layers must agree (C13).  Any problem aborts the
//! process, which libFuzzer records as a crash artifact.
#![no_main]
use libfuzzer_sys::fuzz_target;

fuzz_target!(|data: &[u8]| {
    let problems = cosetmon::hostile::fuzz_one(data);
    if !problems.is_empty() {
        for p in &problems {
            eprintln!("PROBLEM {}", p);
        }
        std::process::abort();
    }
});
