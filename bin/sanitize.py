#!/usr/bin/env python3
"""Sanitizer engines of C01's thorough tier (DESIGN.md section 2.1, E5-E7i).

Each engine runs the same harness as the other checks under one tool and is judged by the tool's
own reports.  A tool that cannot be built or started is *recorded* (status: unavailable) and never
turns into a violation; a report by the tool on the unchanged harness+crate is a violation.

  E5  AddressSanitizer + LeakSanitizer  (nightly, -Zsanitizer=address): C01 children + C07/C11 workloads
  E6  Miri                              (cargo +nightly miri run): `cosetmon miniwork`, 16 seeds in parallel
  E7  valgrind memcheck                 (plain release build, real allocator): miniwork + oneshot bombs
  E7i valgrind cachegrind               (deterministic instruction counts): growth exponent over bomb ramps

Standalone: bin/sanitize.py [asan|miri|memcheck|cachegrind ...]
"""
import concurrent.futures as cf
import json
import math
import os
import re
import shutil
import subprocess
import sys
import tempfile
import time

VERIF = os.path.dirname(os.path.dirname(os.path.abspath(__file__)))
HARNESS = os.path.join(VERIF, "harness")
TARGET = os.path.join(VERIF, "target")
ENV = dict(os.environ, CARGO_NET_OFFLINE="true", CARGO_TERM_COLOR="never")


MEMCHECK_OPS = 6000


def _run(cmd, env=None, timeout=None, stdin=None):
    try:
        p = subprocess.run(cmd, env=env or ENV, stdout=subprocess.PIPE, stderr=subprocess.PIPE, text=True, timeout=timeout, input=stdin)
        return p.returncode, p.stdout, p.stderr
    except subprocess.TimeoutExpired as e:
        return None, (e.stdout or b"").decode("utf8", "replace") if isinstance(e.stdout, bytes) else (e.stdout or ""), "TIMEOUT"


def _violation(sig, detail, witness=None):
    return {"sig": sig, "detail": detail, "witness": witness, "phase": 0, "idx": 0}


def asan(build, seed, log):
    binp = build("asan")
    if binp is None:
        return {"status": "unavailable: ASan build failed"}, []
    env = dict(ENV, ASAN_OPTIONS="halt_on_error=1:detect_stack_use_after_return=1:detect_leaks=1:abort_on_error=0",
               VERIF_C01_STACK=str(16 << 20), VERIF_THREADS="16")
    info = {"status": "ran", "runs": []}
    vios = []
    rundir = os.path.join(TARGET, "run")
    os.makedirs(rundir, exist_ok=True)
    for pid, budget in (("C01", 0.15), ("C07", 0.3), ("C11", 0.3), ("C13", 0.05), ("C09", 0.2)):
        out = os.path.join(rundir, "asan-%s-%d.json" % (pid, os.getpid()))
        t0 = time.time()
        rc, so, se = _run([binp, "run", pid, "--tier", "quick", "--seed", str(seed), "--budget", str(budget), "--out", out], env=env, timeout=1800)
        reports = len(re.findall(r"ERROR: (Address|Leak)Sanitizer", se))
        entry = {"workload": pid, "budget": budget, "exit": rc, "sanitizer_reports_in_parent": reports, "wall_s": round(time.time() - t0, 1)}
        if rc != 0 or reports:
            m = re.search(r"SUMMARY: .*", se)
            vios.append(_violation("C01/asan-report/%s" % pid, "AddressSanitizer/LeakSanitizer reported while running the %s workload: %s" % (pid, m.group(0) if m else se[-400:]), {"stderr_tail": se[-1500:]}))
        elif os.path.exists(out):
            r = json.load(open(out))
            entry["evaluations"] = r["evaluations"]
            # children that died (ASan report inside a child) surface as C01 violations of the run itself
            for v in r["violations"]:
                v["detail"] = "[ASan build] " + v["detail"]
                v["sig"] = v["sig"] if pid == "C01" else "C01/asan-run/" + v["sig"]
                # only crashes / sanitizer reports count here; behavioural findings belong to the
                # property's own check
                if pid == "C01":
                    vios.append(v)
            os.remove(out)
        info["runs"].append(entry)
    return info, vios


def miri(seed, repo, log):
    # a generated manifest (like bin/check's alt manifests) so that the Miri build has its own target dir
    d = os.path.join(TARGET, "miri")
    os.makedirs(d, exist_ok=True)
    src = open(os.path.join(HARNESS, "Cargo.toml")).read()
    src = src.replace('path = "/repo"', 'path = "%s"' % repo)
    src = src.replace('path = "src/lib.rs"', 'path = "%s/src/lib.rs"' % HARNESS).replace('path = "src/main.rs"', 'path = "%s/src/main.rs"' % HARNESS)
    open(os.path.join(d, "Cargo.toml"), "w").write(src)
    if not os.path.exists(os.path.join(d, "Cargo.lock")):
        shutil.copy(os.path.join(HARNESS, "Cargo.lock"), os.path.join(d, "Cargo.lock"))
    env = dict(ENV, MIRIFLAGS="-Zmiri-disable-isolation", CARGO_TARGET_DIR=os.path.join(d, "target"))
    base = ["cargo", "+nightly", "miri", "run", "--offline", "--manifest-path", os.path.join(d, "Cargo.toml"), "--features", "no-alloc-monitor", "--"]
    t0 = time.time()
    rc, so, se = _run(base + ["miniwork", "1", "0"], env=env, timeout=1200)
    if rc != 0:
        if "error: Undefined Behavior" in se or "PROBLEM" in so:
            return {"status": "ran"}, [_violation("C01/miri-report", "Miri reported on the warm-up run: " + (se[-600:] or so[-600:]), None)]
        return {"status": "unavailable: cargo miri run failed to start: " + se[-300:]}, []
    ops = 16

    def one(k):
        return _run(base + ["miniwork", str(ops), str(seed * 1000 + k)], env=env, timeout=3000)

    vios = []
    failed = []
    done = 0
    with cf.ThreadPoolExecutor(16) as ex:
        for k, (rc, so, se) in enumerate(ex.map(one, range(16))):
            if rc == 0:
                done += 1
            elif rc is None:
                pass  # timeout: inconclusive, not a violation
            elif "Undefined Behavior" in se or "Data race" in se or "error: memory leaked" in se:
                what = "Undefined Behavior" if "Undefined Behavior" in se else ("data race" if "Data race" in se else "memory leak")
                m = re.search(r"error: (Undefined Behavior[^\n]*)\n(?:[^\n]*\n){0,3}?\s*--> ([^\n]*)", se)
                head = ("%s at %s" % (m.group(1), m.group(2))) if m else se[-800:]
                vios.append(_violation("C01/miri-report/%s" % what.replace(" ", "-"), "Miri (process %d): %s" % (k, head), None))
            elif rc == 1 and "PROBLEM" in so:
                # the workload's own oracles (panic in decode / follow-up, fixed point) fired under Miri
                probs = re.findall(r"PROBLEM (.*)", so)
                vios.append(_violation("C01/miri-run/problem", "the miniwork oracles reported under Miri (process %d): %s" % (k, probs[0][:600]), None))
            else:
                failed.append("process %d: exit %s: %s" % (k, rc, se[-300:]))  # tool trouble: inconclusive, never a verdict
    info = {"status": "ran", "processes": 16, "completed": done, "ops_per_process": ops, "decodes_per_op": 31, "wall_s": round(time.time() - t0, 1)}
    if failed:
        info["inconclusive_processes"] = failed
    return info, vios


def _memcheck_headline(se):
    """first report: its headline and the first frames that lie in the crate under test"""
    lines = se.splitlines()
    for i, l in enumerate(lines):
        if re.search(r"Invalid (read|write)|uninitialised|Invalid free|definitely lost|Mismatched|overlap", l):
            frames = [x.split("==")[-1].strip() for x in lines[i + 1:i + 25] if "coset::" in x or "/src/" in x][:3]
            return l.split("==")[-1].strip() + " | " + " | ".join(frames)
    return se[-600:]


def memcheck(build, seed, log):
    binp = build("plain")
    if binp is None or not shutil.which("valgrind"):
        return {"status": "unavailable"}, []
    vios = []
    t0 = time.time()
    jobs = [[binp, "miniwork", str(MEMCHECK_OPS), str(seed * 100 + k)] for k in range(16)]
    # plus bombs through the one-shot child protocol
    bombs = "\n".join(["A 8440a0f640", "A a10781834 0a040".replace(" ", ""), "A " + "81" * 300 + "01", "A " + "a107834 0".replace(" ", "") * 1, "A a10ac25f4101ff", "A f97e00", "A a104f93c00"]) + "\n"

    def one(cmd):
        return _run(["valgrind", "-q", "--error-exitcode=9", "--leak-check=full", "--errors-for-leak-kinds=definite,indirect"] + cmd, timeout=3000)

    runs = 0
    with cf.ThreadPoolExecutor(16) as ex:
        for (rc, so, se) in ex.map(one, jobs):
            runs += 1
            if rc == 9 or "ERROR SUMMARY" in se and not re.search(r"ERROR SUMMARY: 0 errors", se) and rc not in (0, None):
                vios.append(_violation("C01/memcheck-report", "valgrind memcheck: " + _memcheck_headline(se), None))
            elif rc == 1:
                vios.append(_violation("C01/memcheck-run/problem", "miniwork under memcheck reported: " + so[-600:], None))
    rc, so, se = _run(["valgrind", "-q", "--error-exitcode=9", "--leak-check=full", "--errors-for-leak-kinds=definite,indirect", binp, "oneshot", "--stack", str(8 << 20)], stdin=bombs, timeout=3000)
    if rc == 9:
        vios.append(_violation("C01/memcheck-report", "valgrind memcheck on the one-shot child: " + _memcheck_headline(se), None))
    return {"status": "ran", "miniwork_processes": runs, "ops_per_process": MEMCHECK_OPS, "oneshot_inputs": bombs.count("\n"), "wall_s": round(time.time() - t0, 1)}, vios


def _ir(binp, ti, hexs, tmpdir, k):
    f = os.path.join(tmpdir, "in-%d.hex" % k)
    open(f, "w").write(hexs)
    out = os.path.join(tmpdir, "cg-%d.out" % k)
    rc, so, se = _run(["valgrind", "--tool=cachegrind", "--cache-sim=no", "--cachegrind-out-file=" + out, binp, "decode1", str(ti), f], timeout=1200)
    m = re.search(r"I\s+refs:\s+([\d,]+)", se)
    return int(m.group(1).replace(",", "")) if m else None


def cachegrind(build, log):
    """Deterministic 'time proportional to the input': executed instructions over doubling ramps."""
    binp = build("plain")
    if binp is None or not shutil.which("valgrind"):
        return {"status": "unavailable"}, []
    # ramps produced by the harness itself
    rc, so, se = _run([binp, "ramps"], timeout=600)
    if rc != 0:
        return {"status": "unavailable: cosetmon ramps failed"}, []
    ramps = json.loads(so)
    tmp = tempfile.mkdtemp(prefix="cg", dir=os.path.join(TARGET, "run") if os.path.isdir(os.path.join(TARGET, "run")) else None)
    vios = []
    info = {"status": "ran", "ramps": []}
    try:
        base = _ir(binp, 0, "a0", tmp, 0)
        jobs = []
        for r in ramps:
            for (n, hx) in r["points"]:
                jobs.append((r["name"], r["ti"], n, hx))
        with cf.ThreadPoolExecutor(16) as ex:
            res = list(ex.map(lambda j: _ir(binp, j[1][1], j[1][3], tmp, j[0] + 1), enumerate(jobs)))
        by = {}
        for (name, ti, n, hx), ir in zip(jobs, res):
            if ir is not None and base is not None:
                by.setdefault(name, []).append((n, max(ir - base, 1)))
        for name, pts in by.items():
            pts = [(n, i) for n, i in sorted(pts) if n >= 1024]
            if len(pts) < 5:
                continue
            xs = [math.log(n) for n, _ in pts]
            ys = [math.log(i) for _, i in pts]
            k = len(pts)
            sx, sy = sum(xs), sum(ys)
            sxx, sxy = sum(x * x for x in xs), sum(x * y for x, y in zip(xs, ys))
            a = (k * sxy - sx * sy) / (k * sxx - sx * sx)
            info["ramps"].append({"name": name, "points": pts, "instruction_growth_exponent": round(a, 3)})
            if a > 1.3:
                vios.append(_violation("C01/superlinear-instructions/%s" % name, "executed instructions grow with exponent %.2f over %s" % (a, pts), None))
    finally:
        shutil.rmtree(tmp, ignore_errors=True)
    return info, vios


def libfuzzer(build, repo, log, seconds=240):
    """E8: coverage-guided fuzzing (libFuzzer + ASan) of `cosetmon::hostile::fuzz_one`: every entry point,
    follow-ups (C01), one-step fixed point (C07), API-layer agreement and suffix rejection (C13)."""
    if repo != "/repo":
        return {"status": "skipped: the fuzz crate is wired to /repo"}, []
    binp = build("release")
    if binp is None:
        return {"status": "unavailable"}, []
    corpus = os.path.join(TARGET, "fuzz-corpus")
    shutil.rmtree(corpus, ignore_errors=True)
    rc, so, se = _run([binp, "corpus", corpus], timeout=300)
    if rc != 0:
        return {"status": "unavailable: corpus generation failed"}, []
    arts = os.path.join(TARGET, "fuzz-artifacts")
    shutil.rmtree(arts, ignore_errors=True)
    os.makedirs(arts, exist_ok=True)
    fdir = os.path.join(VERIF, "fuzz")
    if not os.path.exists(os.path.join(fdir, "Cargo.lock")):
        shutil.copy(os.path.join(HARNESS, "Cargo.lock"), os.path.join(fdir, "Cargo.lock"))
    env = dict(ENV, CARGO_TARGET_DIR=os.path.join(TARGET, "fuzz"))
    t0 = time.time()
    rc, so, se = _run(["cargo", "+nightly", "fuzz", "build", "decode_all", "--fuzz-dir", fdir], env=env, timeout=1800)
    if rc != 0:
        return {"status": "unavailable: cargo fuzz build failed: " + se[-300:]}, []
    rc, so, se = _run(["cargo", "+nightly", "fuzz", "run", "decode_all", "--fuzz-dir", fdir, corpus, "--",
                       "-max_total_time=%d" % seconds, "-timeout=10", "-rss_limit_mb=4096", "-max_len=8192", "-fork=16",
                       "-ignore_crashes=0", "-artifact_prefix=" + arts + "/"], env=env, timeout=seconds + 900)
    stats = re.findall(r"#(\d+): cov: (\d+) ft: (\d+) corp: (\d+) exec/s: \d+ oom/timeout/crash: (\d+)/(\d+)/(\d+)", se)
    info = {"status": "ran", "seconds": seconds, "wall_s": round(time.time() - t0, 1)}
    if stats:
        last = stats[-1]
        info.update({"executions": int(last[0]), "decodes_per_execution": 31, "coverage_edges": int(last[1]), "features": int(last[2]), "corpus": int(last[3]), "oom": int(last[4]), "timeouts": int(last[5]), "crashes": int(last[6])})
    vios = []
    found = sorted(os.listdir(arts))
    for a in found[:5]:
        data = open(os.path.join(arts, a), "rb").read()
        kind = a.split("-")[0]
        if kind in ("crash", "timeout", "oom", "leak"):
            prob = re.findall(r"PROBLEM (.*)", se)
            vios.append(_violation("C01/libfuzzer-%s" % kind, "libFuzzer %s artifact %s (%d bytes): %s" % (kind, a, len(data), (prob[-1] if prob else se[-400:])[:600]), {"hex": data.hex()[:4000], "artifact": os.path.join(arts, a)}))
    return info, vios


def run(extra, seed, build, repo, log, only=None):
    engines = {}
    vios = []
    for name, fn in (("E5 AddressSanitizer+LeakSanitizer (asan)", lambda: asan(build, seed, log)),
                     ("E6 Miri", lambda: miri(seed, repo, log)),
                     ("E7 valgrind memcheck", lambda: memcheck(build, seed, log)),
                     ("E7i cachegrind instruction counts", lambda: cachegrind(build, log)),
                     ("E8 libFuzzer + ASan (fuzz)", lambda: libfuzzer(build, repo, log))):
        if only and not any(o in name.lower() for o in only):
            continue
        t0 = time.time()
        try:
            info, v = fn()
        except Exception as e:  # tool trouble is never a verdict
            info, v = {"status": "unavailable: %r" % (e,)}, []
        info["wall_s"] = round(time.time() - t0, 1)
        log("[%s: %s, %d report(s), %.0fs]" % (name, info.get("status"), len(v), time.time() - t0))
        engines[name] = info
        vios += v
    return {"engines": engines, "violations": vios}


if __name__ == "__main__":
    import importlib.machinery
    import importlib.util
    loader = importlib.machinery.SourceFileLoader("chk", os.path.join(VERIF, "bin", "check"))
    spec = importlib.util.spec_from_loader("chk", loader)
    chk = importlib.util.module_from_spec(spec)
    loader.exec_module(chk)
    r = run([], int(os.environ.get("VERIF_SEED", "20261001")), chk.build, chk.repo_path(), chk.log, only=[a.lower() for a in sys.argv[1:]] or None)
    print(json.dumps(r, indent=1)[:6000])
    sys.exit(1 if r["violations"] else 0)
