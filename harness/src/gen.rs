//! Generators: palettes, valid model values of every type, wire items, fault injection
//! (random and enumerated), hostile byte-level mutation.

use crate::model::*;
use crate::rcbor::{self, Item, Style};
use crate::registry::{self, Reg};
use crate::rng::Rng;

// ---------------------------------------------------------------------------------------------
// palettes

pub const INT_LATTICE: [i128; 29] = [
    0,
    1,
    -1,
    23,
    24,
    255,
    256,
    65535,
    65536,
    (1 << 32) - 1,
    1 << 32,
    (1 << 63) - 1,
    1 << 63,
    (1 << 64) - 1,
    -24,
    -25,
    -256,
    -257,
    -65536,
    -65537,
    -(1 << 32),
    -(1 << 32) - 1,
    -(1 << 63),
    -(1 << 63) - 1,
    -(1 << 64),
    7,
    -7,
    100,
    -100,
];

pub const CBOR_MIN: i128 = -(1 << 64);
pub const CBOR_MAX: i128 = (1 << 64) - 1;

/// an integer anywhere in CBOR's range, biased to the boundary lattice
pub fn pal_int(r: &mut Rng) -> i128 {
    let base = *r.pick(&INT_LATTICE);
    let v = match r.below(4) {
        0 => base,
        1 => base + r.range(-2, 2) as i128,
        2 => {
            // log-uniform magnitude
            let bits = r.below(65) as u32;
            let mag: u128 = if bits == 0 { 0 } else { (r.next() as u128) >> (64 - bits.min(64)) };
            if r.coin() {
                mag as i128
            } else {
                -1 - (mag as i128)
            }
        }
        _ => r.range(-30, 30) as i128,
    };
    v.clamp(CBOR_MIN, CBOR_MAX)
}

pub fn pal_i64(r: &mut Rng) -> i64 {
    let v = pal_int(r);
    v.clamp(i64::MIN as i128, i64::MAX as i128) as i64
}

pub const BYTES_LENS: [usize; 9] = [0, 1, 2, 23, 24, 255, 256, 65535, 65536];

/// Byte strings that *happen to be* something: a complete encoded CBOR item of a shape the crate
/// knows (claims set, key, key set, header map, COSE_Signature, COSE_Sign1, a tagged message, tag 24
/// around a byte string), an ASN.1 DER ECDSA signature, a SEC1 point, a long run of one byte that
/// is a CBOR array / map / tag / break head.  A byte string is opaque whatever it contains.
pub fn structured_bytes(r: &mut Rng) -> Vec<u8> {
    match r.below(12) {
        0 => rcbor::det(&enc_claims(&gen_claims(r))),
        1 => rcbor::det(&enc_key(&gen_key_plain(r, vec![], 2))),
        2 => rcbor::det(&Item::Array(vec![enc_key(&gen_key_plain(r, vec![], 1))])),
        3 => vec![0xa1, 0x01, 0x26],
        4 => vec![0x83, 0x40, 0xa0, 0x41, 0x01],
        5 => vec![0x84, 0x40, 0xa0, 0x41, 0x01, 0x41, 0x02],
        6 => vec![0xd2, 0x84, 0x40, 0xa0, 0x41, 0x01, 0x41, 0x02],
        7 => vec![0xd8, 0x18, 0x43, 0xa1, 0x01, 0x26],
        8 => {
            // DER SEQUENCE { INTEGER r, INTEGER s } with 32-byte integers
            let mut v = vec![0x30, 0x44, 0x02, 0x20];
            v.extend(r.bytes(32).iter().map(|b| b & 0x7f | 1));
            v.extend_from_slice(&[0x02, 0x20]);
            v.extend(r.bytes(32).iter().map(|b| b & 0x7f | 1));
            v
        }
        9 => {
            // SEC1 uncompressed / compressed point
            let n = *r.pick(&[32usize, 48, 66]);
            let mut v = vec![*r.pick(&[0x04u8, 0x02, 0x03])];
            let m = if v[0] == 4 { 2 * n } else { n };
            v.extend(r.bytes(m));
            v
        }
        _ => {
            let b = *r.pick(&[0x81u8, 0x9f, 0xa1, 0xbf, 0xc6, 0xd8, 0xff, 0x5f, 0x7f, 0x00, 0x40, 0x80]);
            let n = *r.pick(&[24usize, 255, 256, 257, 300, 1000, 5000]);
            vec![b; n]
        }
    }
}

pub fn pal_bytes(r: &mut Rng) -> Vec<u8> {
    if r.chance(1, 24) {
        return structured_bytes(r);
    }
    let n = match r.below(10) {
        0 => 0,
        1..=5 => 1 + r.below(8),
        6 => 23 + r.below(3),
        7 => 254 + r.below(4),
        8 => r.below(40),
        _ => {
            if r.chance(1, 40) {
                65534 + r.below(4)
            } else {
                r.below(300)
            }
        }
    };
    r.bytes(n)
}

pub fn pal_bytes_nonempty(r: &mut Rng) -> Vec<u8> {
    let mut b = pal_bytes(r);
    if b.is_empty() {
        b.push(r.next() as u8);
    }
    b
}

/// short byte strings only (keeps nested structures small)
pub fn small_bytes(r: &mut Rng) -> Vec<u8> {
    if r.chance(1, 48) {
        let b = structured_bytes(r);
        if b.len() <= 300 {
            return b;
        }
    }
    let n = r.below(6);
    r.bytes(n)
}

pub const TEXTS: [&str; 22] = [
    "",
    "a",
    "b",
    "aa",
    "ab",
    "z",
    "\u{e9}",
    "\u{e9}a",
    "\u{2603}",
    "\u{10151}",
    "alg",
    "1",
    "7",
    "text/plain",
    "application/cose; cose-type=\"cose-sign1\"",
    "a/b",
    " a/b",
    "a/b\u{2003}",
    "a/b/c",
    "nospace",
    "aaaaaaaaaaaaaaaaaaaaaaa",   // 23
    "aaaaaaaaaaaaaaaaaaaaaaaa",  // 24
];

/// Texts that *look like* something else: decimal spellings of registered / private-use / boundary
/// integers, the IANA names of registered values (claim names, algorithm, key type, operation and
/// parameter names).  A text label is always just a text, whatever it spells.
pub const LOOKALIKE_TEXTS: [&str; 64] = [
    "0", "1", "2", "3", "4", "5", "6", "7", "8", "-1", "-7", "-8", "-35", "42", "50", "60", "0060", "+50", "10000", "16", "18", "96", "98",
    "-65536", "-65537", "-70000", "-0070000", "-9223372036854775808", "9223372036854775807", "18446744073709551615", "-18446744073709551616", "65536",
    "iss", "sub", "aud", "exp", "nbf", "iat", "cti", "cnf", "scope", "ace_profile", "cnonce", "exi", "hcert", "EUPHNonce", "EATMAROEPrefix", "EAT-FDO",
    "alg", "crit", "content type", "kid", "IV", "Partial IV", "counter signature", "kty", "key_ops", "Base IV",
    "ES256", "EdDSA", "OKP", "EC2", "sign", "verify",
];

/// Texts that collide under popular non-cryptographic string hashes (FNV-1 / FNV-1a 32, the Java /
/// 31-multiplier hash, djb2, CRC-32): distinct labels stay distinct whatever they hash to.  Listed
/// in pairs; generators that want a collision inside one map take both members of a pair.
pub const COLLIDING_TEXTS: [(&str, &str); 12] = [
    ("costarring", "liquid"),
    ("declinate", "macallums"),
    ("altarage", "zinke"),
    ("altarages", "zinkes"),
    ("Aa", "BB"),
    ("AaAa", "BBBB"),
    ("AaBB", "BBAa"),
    ("hetairas", "mentioner"),
    ("heliotropes", "neurospora"),
    ("depravement", "serafins"),
    ("plumless", "buckeroo"),
    ("stylist", "subgenera"),
];

/// invisible or easily mishandled characters at the ends of a text: zero-width space / joiners,
/// byte-order mark, bidi controls, word joiner, a combining mark, a variation selector (none of them
/// is White_Space), and real Unicode white space of several classes
pub const EDGE_CHARS: [char; 16] = ['\u{200b}', '\u{200d}', '\u{feff}', '\u{202a}', '\u{2060}', '\u{2066}', '\u{0301}', '\u{fe0f}', '\u{a0}', '\u{2003}', '\u{3000}', '\u{85}', '\u{1680}', '\u{b}', '\u{2028}', '\u{1d11e}'];

pub fn pal_text(r: &mut Rng) -> String {
    if r.chance(1, 20) {
        let (a, b) = *r.pick(&COLLIDING_TEXTS);
        return if r.coin() { a.to_string() } else { b.to_string() };
    }
    if r.chance(1, 24) {
        // media types with parameters, multi-byte characters next to the separators
        return r.pick(&["text/x-caf\u{e9}; charset=utf-8", "a/b;c", "a/\u{2603};q=1", "\u{e9}/\u{e9};\u{e9}=\u{e9}", "a/b ; c = d", "text/plain;charset=utf-8", ";", "a;b/c", "a/b;c/d", "\u{10151};/"]).to_string();
    }
    if r.chance(1, 20) {
        let base = *r.pick(&["a/b", "text/plain", "x", "alg", "k"]);
        let c = *r.pick(&EDGE_CHARS);
        return match r.below(3) {
            0 => format!("{}{}", c, base),
            1 => format!("{}{}", base, c),
            _ => format!("{}{}{}", c, base, c),
        };
    }
    match r.below(14) {
        0 => "x".repeat(255),
        1 => "x".repeat(256),
        12 | 13 => {
            // rarely: texts whose length needs a 4-byte head (and the last one that does not)
            if r.chance(1, 40) {
                "y".repeat(*r.pick(&[65535usize, 65536, 65537, 70000]))
            } else {
                r.pick(&LOOKALIKE_TEXTS).to_string()
            }
        }
        2 => {
            let n = r.below(5);
            (0..n).map(|_| *r.pick(&['a', 'b', '/', ' ', '\u{e9}', '\u{2003}', 'z', '0', ';', '=', 'A'])).collect()
        }
        _ => r.pick(&TEXTS).to_string(),
    }
}

pub fn valid_content_type_text(r: &mut Rng) -> String {
    r.pick(&[
        "a/b",
        "text/plain",
        "application/cose; cose-type=\"cose-sign1\"",
        "x/y z",
        "\u{e9}/\u{2603}",
        "/",
        "a/",
        "/b",
    ])
    .to_string()
}

pub fn pal_label(r: &mut Rng) -> MLabel {
    if r.chance(1, 16) {
        // an alias of a small (typed / registered) label under truncation to 8, 16 or 32 bits, either sign
        let small = r.range(0, 9);
        let m = 1i64 << *r.pick(&[8u32, 16, 32, 40, 62]);
        let k = r.range(1, 3);
        let km = k.wrapping_mul(m);
        return MLabel::Int(match r.below(4) {
            0 => small.wrapping_add(km),
            1 => small.wrapping_sub(km),
            2 => (-small).wrapping_sub(km),
            _ => small.wrapping_add(km) ^ i64::MIN,
        });
    }
    if r.chance(1, 4) {
        MLabel::Text(pal_text(r))
    } else {
        MLabel::Int(match r.below(6) {
            0 => r.range(0, 12),
            1 => r.range(-12, -1),
            2 => *r.pick(&[23, 24, 255, 256, 65535, 65536, -24, -25, -256, -257, -65536, -65537, i64::MAX, i64::MIN, i64::MAX - 1, i64::MIN + 1, 1 << 32, -(1 << 32) - 1]),
            3 => *r.pick(&[32, 33, 34, 35, 38, 39, 40, 256, 257, -260, -259, -258, -70000, -65538, -20, -21, -22, -23, -24, -25, -26, -27]),
            _ => pal_i64(r),
        })
    }
}

/// a random CBOR value of any kind within the verdict alphabet (no undefined / unassigned simple
/// values, no tag 2/3)
pub fn random_item(r: &mut Rng, depth: u32) -> Item {
    let k = if depth == 0 { r.below(7) } else { r.below(10) };
    match k {
        0 => Item::Int(pal_int(r)),
        1 => Item::Bytes(small_bytes(r)),
        2 => Item::Text(pal_text(r)),
        3 => Item::Bool(r.coin()),
        4 => Item::Null,
        5 => Item::Float(pal_float(r)),
        6 => Item::Int(r.range(-30, 30) as i128),
        7 => {
            let n = r.below(4);
            Item::Array((0..n).map(|_| random_item(r, depth - 1)).collect())
        }
        8 => {
            let n = r.below(3);
            Item::Map((0..n).map(|_| (random_item(r, depth - 1), random_item(r, depth - 1))).collect())
        }
        _ => {
            let t = *r.pick(&[0u64, 1, 4, 5, 16, 18, 24, 32, 61, 98, 255, 256, 55799, 65536, u64::MAX]);
            Item::Tag(t, Box::new(random_item(r, depth - 1)))
        }
    }
}

pub fn pal_float(r: &mut Rng) -> f64 {
    match r.below(20) {
        16 => 1700000001.0,
        17 => *r.pick(&[16777217.0, -16777217.0, 4294967297.0, 9007199254740992.0, -1700000001.0, 1e15, 123456789012.0]),
        18 => r.range(-1_000_000_000_000, 1_000_000_000_000) as f64,
        19 => 0.1 + r.range(-1000, 1000) as f64,
        0 => 0.0,
        1 => -0.0,
        2 => 1.0,
        3 => 1.5,
        4 => -4.1,
        5 => f64::INFINITY,
        6 => f64::NEG_INFINITY,
        7 => f64::NAN,
        8 => 5.960464477539063e-8, // smallest f16 subnormal
        9 => 65504.0,
        10 => 3.4028234663852886e+38,
        11 => 1.0e300,
        12 => 1700000000.0,
        13 => 1700000000.25,
        14 => {
            // NaN payloads are not part of the data model (all NaNs are one value) and the CBOR layer
            // keeps them in wider encodings, so generated values use the canonical NaN only; payload
            // NaNs are exercised as raw bytes in C01 / C07
            let f = f64::from_bits(r.next());
            if f.is_nan() {
                f64::NAN
            } else {
                f
            }
        }
        _ => (r.range(-100000, 100000) as f64) / 8.0,
    }
}

/// a value of a kind *other* than the given kinds; used for wrong-kind faults
pub const KIND_PALETTE_LEN: usize = 24;
pub fn kind_palette(i: usize) -> Item {
    match i {
        0 => Item::Int(0),
        1 => Item::Int(1),
        2 => Item::Int(-1),
        3 => Item::Int(24),
        4 => Item::Int(CBOR_MAX),
        5 => Item::Int(CBOR_MIN),
        6 => Item::Bytes(vec![]),
        7 => Item::Bytes(vec![1]),
        8 => Item::Text(String::new()),
        9 => Item::text("a"),
        10 => Item::text("a/b"),
        11 => Item::Array(vec![]),
        12 => Item::Array(vec![Item::Int(1)]),
        13 => Item::Array(vec![Item::Bytes(vec![]), Item::Map(vec![]), Item::Bytes(vec![])]),
        14 => Item::Map(vec![]),
        15 => Item::Map(vec![(Item::Int(1), Item::Int(-7))]),
        16 => Item::Tag(0, Box::new(Item::Int(1))),
        17 => Item::Bool(false),
        18 => Item::Bool(true),
        19 => Item::Null,
        20 => Item::Float(1.5),
        21 => Item::Float(f64::NAN),
        22 => Item::Int(i64::MAX as i128 + 1),
        _ => Item::Int(i64::MIN as i128 - 1),
    }
}

// ---------------------------------------------------------------------------------------------
// valid model values

pub struct GenOpts {
    /// probability (in 1/256) that a protected header carries wire bytes in a non-canonical style
    pub styled_prot: u32,
    /// produce protected headers *without* retained bytes (as the builders do)
    pub built: bool,
    pub max_depth: u32,
    /// (struct-literal workloads only) a repeated signer / recipient may be carried without retained
    /// bytes next to one that has them, as when a caller adds a fresh signer to a decoded message
    pub mixed: bool,
}

impl GenOpts {
    pub fn wire() -> GenOpts {
        GenOpts {
            styled_prot: 160,
            built: false,
            max_depth: 2,
            mixed: false,
        }
    }
    pub fn built() -> GenOpts {
        GenOpts {
            styled_prot: 0,
            built: true,
            max_depth: 2,
            mixed: false,
        }
    }
}

pub fn gen_alg(r: &mut Rng) -> MLabel {
    match r.below(8) {
        0 => MLabel::Text(pal_text(r)),
        1 => MLabel::Int(*r.pick(&[-65537, -70000, i64::MIN, -65538, -(1 << 32)])),
        _ => MLabel::Int(*r.pick(&registry::values(Reg::Algorithm))),
    }
}

/// a text whose UTF-8 bytes are exactly the CBOR encoding of the integer label (where that is valid UTF-8)
pub fn text_twin(i: i64) -> Option<String> {
    String::from_utf8(rcbor::det(&Item::int(i))).ok()
}

/// an integer label and the 8-character text whose bytes are its big-endian (or little-endian)
/// representation: a detector keyed on raw bytes without the label's type confuses them
pub fn byte_twins(r: &mut Rng) -> (MLabel, MLabel) {
    let t: String = (0..8).map(|_| *r.pick(&['k', 'e', 'y', 'u', 's', 'a', 'g', 'x', '0', 'Z'])).collect();
    let mut b = [0u8; 8];
    b.copy_from_slice(t.as_bytes());
    let i = if r.coin() { i64::from_be_bytes(b) } else { i64::from_le_bytes(b) };
    (MLabel::Int(i), MLabel::Text(t))
}

fn extras(r: &mut Rng, n: usize, forbidden: &dyn Fn(&MLabel) -> bool, label: &mut dyn FnMut(&mut Rng) -> MLabel) -> Vec<(MLabel, Item)> {
    let mut out: Vec<(MLabel, Item)> = Vec::new();
    if n >= 2 && r.chance(1, 12) {
        // two labels that are distinct but easy to confuse: hash-colliding texts, or an integer and the
        // text that spells its encoding
        let pair: Option<(MLabel, MLabel)> = if r.coin() {
            let (a, b) = *r.pick(&COLLIDING_TEXTS);
            Some((MLabel::Text(a.into()), MLabel::Text(b.into())))
        } else {
            // the integer comes from the map's own label generator, so it is a label the map may carry
            let mut found = None;
            for _ in 0..12 {
                if let MLabel::Int(i) = label(r) {
                    if let Some(t) = text_twin(i) {
                        found = Some((MLabel::Int(i), MLabel::Text(t)));
                        break;
                    }
                }
            }
            found
        };
        if let Some((a, b)) = pair {
            if !forbidden(&a) && !forbidden(&b) && a != b {
                out.push((a, random_item(r, 1)));
                out.push((b, random_item(r, 1)));
                if r.coin() {
                    out.reverse();
                }
            }
        }
    }
    let mut tries = 0;
    while out.len() < n && tries < 50 {
        tries += 1;
        let l = label(r);
        if forbidden(&l) || out.iter().any(|(x, _)| *x == l) {
            continue;
        }
        let v = random_item(r, 2);
        out.push((l, v));
    }
    out
}

/// Collection sizes around the powers of two, where an implementation may switch strategy (linear
/// scan vs set, inline vs heap, a nesting or element counter reaching its limit).
pub const WIDE_SIZES: [usize; 16] = [7, 8, 9, 10, 15, 16, 17, 31, 32, 33, 63, 64, 65, 66, 129, 257];

pub fn wide_n(r: &mut Rng) -> usize {
    // the largest sizes only sometimes: they dominate the running time
    let k = if r.chance(1, 4) { WIDE_SIZES.len() } else { WIDE_SIZES.len() - 2 };
    WIDE_SIZES[r.below(k)]
}

/// `n` extras under pairwise distinct labels, in ascending, descending or scattered order.
/// `kind`: 0 header / plain labels, 1 key parameters, 2 claims (registered, private or text only)
pub fn wide_extras(r: &mut Rng, n: usize, kind: u8) -> Vec<(MLabel, Item)> {
    let mut labels: Vec<MLabel> = Vec::with_capacity(n);
    let base: i64 = match kind {
        2 => -65537 - r.below(3) as i64 * 1000,
        1 => *r.pick(&[6i64, 20, -1, -100, 70000]),
        _ => *r.pick(&[8i64, 20, 100, -1, -1000, 70000, -70000, 250, 65530]),
    };
    let step: i64 = if base < 0 { -(1 + r.below(2) as i64) } else { 1 + r.below(2) as i64 };
    let texts = r.chance(1, 3);
    for k in 0..n {
        if texts && r.chance(1, 6) {
            labels.push(MLabel::Text(format!("k{}", k)));
        } else {
            labels.push(MLabel::Int(base + step * k as i64));
        }
    }
    match r.below(4) {
        0 => {}
        1 => labels.reverse(),
        _ => r.shuffle(&mut labels),
    }
    labels
        .into_iter()
        .enumerate()
        .map(|(k, l)| (l, if r.chance(1, 8) { random_item(r, 1) } else { Item::Int(k as i128) }))
        .collect()
}

fn tiny_signature(r: &mut Rng, o: &GenOpts, k: usize) -> MSignature {
    let header = if r.chance(1, 3) { MHeader { kid: vec![k as u8, 1], ..Default::default() } } else { MHeader::default() };
    let prot = if o.built { MProt { bytes: None, header } } else { MProt { bytes: Some(prot_bytes(r, &header, o.styled_prot)), header } };
    MSignature { prot, unprot: MHeader::default(), sig: vec![k as u8] }
}

fn tiny_recipient(r: &mut Rng, o: &GenOpts, k: usize) -> MRecipient {
    let header = if r.chance(1, 3) { MHeader { kid: vec![k as u8, 2], ..Default::default() } } else { MHeader::default() };
    let prot = if o.built { MProt { bytes: None, header } } else { MProt { bytes: Some(prot_bytes(r, &header, o.styled_prot)), header } };
    MRecipient { prot, unprot: MHeader::default(), ct: if r.chance(1, 5) { None } else { Some(vec![k as u8]) }, recipients: vec![] }
}

/// sometimes make one element an exact copy of its predecessor (repeated signers, recipients, keys
/// and counter signatures are legal and must survive as they are)
fn repeat_neighbour<T: Clone>(r: &mut Rng, v: &mut Vec<T>) {
    if v.len() >= 2 && r.chance(1, 10) {
        let i = r.below(v.len() - 1);
        v[i + 1] = v[i].clone();
    } else if !v.is_empty() && r.chance(1, 40) {
        let i = r.below(v.len());
        let x = v[i].clone();
        v.insert(i, x);
    }
}

pub fn gen_header(r: &mut Rng, o: &GenOpts, depth: u32) -> MHeader {
    let mut h = gen_header_plain(r, o, depth);
    // size thresholds: many extras / counter signatures / critical labels
    if r.chance(1, 48) {
        let n = wide_n(r);
        h.rest = wide_extras(r, n, 0);
    }
    if depth < o.max_depth && r.chance(1, 64) {
        let n = WIDE_SIZES[r.below(10)];
        h.csigs = (0..n).map(|k| tiny_signature(r, o, k)).collect();
    }
    if r.chance(1, 64) {
        let n = wide_n(r).min(66);
        let regs = registry::values(Reg::HeaderParameter);
        h.crit = (0..n).map(|k| if r.chance(1, 8) { MLabel::Text(format!("c{}", k % 5)) } else { MLabel::Int(regs[k % regs.len()]) }).collect();
    }
    repeat_neighbour(r, &mut h.csigs);
    if r.chance(1, 24) {
        let (a, b) = byte_twins(r);
        if !h.rest.iter().any(|(l, _)| *l == a || *l == b) {
            let at = r.below(h.rest.len() + 1);
            h.rest.insert(at, (b, Item::int(1)));
            let at = r.below(h.rest.len() + 1);
            h.rest.insert(at, (a, Item::int(2)));
        }
    }
    // `crit` is meant to list labels that are present in the same map: sometimes it does, including text
    // labels and registered labels among the extras (only labels that a crit array may carry)
    if r.chance(1, 10) {
        let mut present: Vec<MLabel> = Vec::new();
        if h.alg.is_some() {
            present.push(MLabel::Int(1));
        }
        if h.ct.is_some() {
            present.push(MLabel::Int(3));
        }
        if !h.kid.is_empty() {
            present.push(MLabel::Int(4));
        }
        if !h.iv.is_empty() {
            present.push(MLabel::Int(5));
        }
        if !h.piv.is_empty() {
            present.push(MLabel::Int(6));
        }
        for (l, _) in &h.rest {
            match l {
                MLabel::Text(_) => present.push(l.clone()),
                MLabel::Int(i) if registry::is_registered(Reg::HeaderParameter, *i) => present.push(l.clone()),
                _ => {}
            }
        }
        if !present.is_empty() {
            r.shuffle(&mut present);
            h.crit = present;
        }
    }
    h
}

fn gen_header_plain(r: &mut Rng, o: &GenOpts, depth: u32) -> MHeader {
    let mut h = MHeader::default();
    // occasionally the empty header, or each field alone
    let mode = r.below(10);
    if mode == 0 {
        return h;
    }
    let only: Option<usize> = if mode == 1 { Some(r.below(8)) } else { None };
    let want = |r: &mut Rng, f: usize| -> bool {
        match only {
            Some(x) => x == f,
            None => r.chance(2, 5),
        }
    };
    if want(r, 0) {
        h.alg = Some(gen_alg(r));
    }
    if want(r, 1) {
        let n = 1 + r.below(3);
        for _ in 0..n {
            h.crit.push(if r.chance(1, 4) {
                MLabel::Text(pal_text(r))
            } else {
                MLabel::Int(*r.pick(&registry::values(Reg::HeaderParameter)))
            });
        }
    }
    if want(r, 2) {
        h.ct = Some(if r.coin() {
            MLabel::Int(*r.pick(&registry::values(Reg::CoapContentFormat)))
        } else {
            MLabel::Text(valid_content_type_text(r))
        });
    }
    if want(r, 3) {
        h.kid = pal_bytes_nonempty(r);
    }
    if want(r, 4) {
        h.iv = pal_bytes_nonempty(r);
    } else if want(r, 5) {
        h.piv = pal_bytes_nonempty(r);
    }
    if depth < o.max_depth && want(r, 6) {
        let n = if r.chance(3, 5) { 1 } else { 2 + r.below(2) };
        for _ in 0..n {
            h.csigs.push(gen_signature(r, o, depth + 1));
        }
    }
    if want(r, 7) {
        let n = 1 + r.below(3);
        h.rest = extras(
            r,
            n,
            &|l| matches!(l, MLabel::Int(i) if (1..=7).contains(i)),
            &mut |r| pal_label(r),
        );
    }
    h
}

/// protected header: header content + how it is carried
pub fn gen_prot(r: &mut Rng, o: &GenOpts, depth: u32) -> MProt {
    let header = if r.chance(1, 5) { MHeader::default() } else { gen_header(r, o, depth) };
    if o.built {
        return MProt { bytes: None, header };
    }
    let bytes = prot_bytes(r, &header, o.styled_prot);
    MProt {
        bytes: Some(bytes),
        header,
    }
}

/// wire bytes for a protected header with the given content
pub fn prot_bytes(r: &mut Rng, header: &MHeader, styled: u32) -> Vec<u8> {
    let it = enc_header(header);
    if header.is_empty() {
        // empty: h'' | a0 | bf ff | b8 00 ...
        return match r.below(6) {
            0 | 1 | 2 => vec![],
            3 => vec![0xa0],
            4 => vec![0xbf, 0xff],
            _ => vec![0xb8, 0x00],
        };
    }
    if (r.next() & 0xff) < styled as u64 {
        let it2 = shuffle_typed_entries(r, &it);
        rcbor::encode(&it2, &mut Style::random(r.next()))
    } else {
        rcbor::det(&it)
    }
}

/// Reorder the entries of a map without changing the relative order of the extras (entries whose
/// key is not one of the typed labels 1..=7): the header content is unchanged.
pub fn shuffle_typed_entries(r: &mut Rng, it: &Item) -> Item {
    let m = match it {
        Item::Map(m) => m,
        x => return x.clone(),
    };
    let is_typed = |k: &Item| matches!(k, Item::Int(i) if (1..=7).contains(i));
    let mut typed: Vec<(Item, Item)> = m.iter().filter(|(k, _)| is_typed(k)).cloned().collect();
    let extras: Vec<(Item, Item)> = m.iter().filter(|(k, _)| !is_typed(k)).cloned().collect();
    r.shuffle(&mut typed);
    // merge: random interleaving preserving the order of extras
    let mut out = Vec::new();
    let (mut i, mut j) = (0, 0);
    while i < typed.len() || j < extras.len() {
        let take_typed = if i >= typed.len() {
            false
        } else if j >= extras.len() {
            true
        } else {
            r.coin()
        };
        if take_typed {
            out.push(typed[i].clone());
            i += 1;
        } else {
            out.push(extras[j].clone());
            j += 1;
        }
    }
    Item::Map(out)
}

pub fn gen_signature(r: &mut Rng, o: &GenOpts, depth: u32) -> MSignature {
    MSignature {
        prot: gen_prot(r, o, depth),
        unprot: gen_header(r, o, depth),
        sig: small_bytes(r),
    }
}

pub fn gen_recipient(r: &mut Rng, o: &GenOpts, depth: u32) -> MRecipient {
    let n = if depth < o.max_depth && r.chance(1, 3) { 1 + r.below(2) } else { 0 };
    MRecipient {
        prot: gen_prot(r, o, depth.max(1)),
        unprot: gen_header(r, o, depth.max(1)),
        ct: if r.chance(1, 4) { None } else { Some(small_bytes(r)) },
        recipients: {
            let mut v: Vec<MRecipient> = if n > 0 && r.chance(1, 32) {
                let w = WIDE_SIZES[r.below(10)];
                (0..w).map(|k| tiny_recipient(r, o, k)).collect()
            } else {
                (0..n).map(|_| gen_recipient(r, o, depth + 1)).collect()
            };
            repeat_neighbour(r, &mut v);
            v
        },
    }
}

fn opt_payload(r: &mut Rng) -> Option<Vec<u8>> {
    if r.chance(1, 4) {
        None
    } else {
        Some(pal_bytes(r))
    }
}

pub fn gen_key(r: &mut Rng) -> MKey {
    let mut ops: Vec<MLabel> = Vec::new();
    if r.chance(2, 5) {
        let n = 1 + r.below(4);
        for _ in 0..n {
            let op = if r.chance(1, 4) {
                MLabel::Text(pal_text(r))
            } else {
                MLabel::Int(r.range(1, 10))
            };
            if !ops.contains(&op) {
                ops.push(op);
            }
        }
        ops.sort();
    }
    if r.chance(1, 48) {
        // many operations: every registered one plus texts
        let n = wide_n(r).min(40);
        ops = (1..=10).map(MLabel::Int).chain((0..n.saturating_sub(10)).map(|k| MLabel::Text(format!("op{}", k)))).collect();
        ops.sort();
    }
    let wide = if r.chance(1, 48) { Some(wide_n(r)) } else { None };
    let n = r.below(4);
    let mut key = gen_key_plain(r, ops, n);
    if let Some(n) = wide {
        key.params = wide_extras(r, n, 1);
    }
    if r.chance(1, 24) {
        let (a, b) = byte_twins(r);
        if !key.params.iter().any(|(l, _)| *l == a || *l == b) {
            let at = r.below(key.params.len() + 1);
            key.params.insert(at, (a, Item::int(1)));
            let at = r.below(key.params.len() + 1);
            key.params.insert(at, (b, Item::int(2)));
        }
    }
    key
}

fn gen_key_plain(r: &mut Rng, ops: Vec<MLabel>, n: usize) -> MKey {
    MKey {
        kty: if r.chance(1, 6) {
            MLabel::Text(pal_text(r))
        } else {
            MLabel::Int(r.range(1, 6))
        },
        kid: if r.chance(2, 5) { pal_bytes_nonempty(r) } else { vec![] },
        alg: if r.chance(2, 5) { Some(gen_alg(r)) } else { None },
        key_ops: ops,
        base_iv: if r.chance(2, 5) { pal_bytes_nonempty(r) } else { vec![] },
        params: extras(
            r,
            n,
            &|l| matches!(l, MLabel::Int(i) if (0..=5).contains(i)),
            &mut |r| {
                if r.chance(1, 2) {
                    MLabel::Int(r.range(-12, -1))
                } else {
                    pal_label(r)
                }
            },
        ),
    }
}

pub fn gen_time(r: &mut Rng) -> MTime {
    if r.coin() {
        MTime::Int(pal_i64(r))
    } else {
        MTime::Float(Item::Float(pal_float(r)))
    }
}

pub fn gen_claim_key(r: &mut Rng) -> MLabel {
    match r.below(5) {
        0 => MLabel::Text(pal_text(r)),
        1 => MLabel::Int(*r.pick(&[-65537, -70000, i64::MIN, -(1 << 40)])),
        _ => MLabel::Int(*r.pick(&registry::values(Reg::CwtClaimName))),
    }
}

pub fn gen_claims(r: &mut Rng) -> MClaims {
    let mut c = MClaims::default();
    if r.chance(2, 5) {
        c.iss = Some(pal_text(r));
    }
    if r.chance(2, 5) {
        c.sub = Some(pal_text(r));
    }
    if r.chance(2, 5) {
        c.aud = Some(pal_text(r));
    }
    if r.chance(2, 5) {
        c.exp = Some(gen_time(r));
    }
    if r.chance(2, 5) {
        c.nbf = Some(gen_time(r));
    }
    if r.chance(2, 5) {
        c.iat = Some(gen_time(r));
    }
    if r.chance(2, 5) {
        c.cti = Some(small_bytes(r));
    }
    let n = r.below(4);
    c.rest = extras(
        r,
        n,
        &|l| matches!(l, MLabel::Int(i) if (1..=7).contains(i)),
        &mut |r| gen_claim_key(r),
    );
    if r.chance(1, 48) {
        let n = wide_n(r);
        c.rest = wide_extras(r, n, 2);
    }
    if r.chance(1, 12) && !c.rest.iter().any(|(l, _)| *l == MLabel::Int(8)) {
        // a confirmation claim the way RFC 8747 shapes it (the claims set keeps it as it is, whatever
        // members it combines)
        let key = enc_key(&gen_key_plain(r, vec![], 1));
        let members: Vec<(Item, Item)> = [(1i64, key), (2, Item::Bytes(small_bytes(r))), (3, Item::Bytes(vec![7, 7]))].into_iter().filter(|_| r.coin()).map(|(k, v)| (Item::int(k), v)).collect();
        let at = r.below(c.rest.len() + 1);
        c.rest.insert(at, (MLabel::Int(8), Item::Map(members)));
    }
    c
}

pub fn gen_party(r: &mut Rng) -> MParty {
    MParty {
        identity: if r.coin() { Some(small_bytes(r)) } else { None },
        nonce: match r.below(3) {
            0 => None,
            1 => Some(MNonce::Bytes(small_bytes(r))),
            _ => Some(MNonce::Int(pal_i64(r))),
        },
        other: if r.coin() { Some(small_bytes(r)) } else { None },
    }
}

pub fn gen_supp(r: &mut Rng, o: &GenOpts) -> MSuppPub {
    MSuppPub {
        key_data_length: match r.below(4) {
            0 => r.below(1024) as u64,
            1 => *r.pick(&[0u64, 23, 24, 255, 256, 65535, 65536, u32::MAX as u64, 1 << 32, i64::MAX as u64, 1 << 63, u64::MAX]),
            _ => {
                let v = pal_int(r);
                if v < 0 {
                    128
                } else {
                    v as u64
                }
            }
        },
        prot: gen_prot(r, o, 1),
        other: if r.coin() { Some(small_bytes(r)) } else { None },
    }
}

pub fn gen_kdf(r: &mut Rng, o: &GenOpts) -> MKdf {
    let n = if r.chance(1, 48) { wide_n(r) } else if r.chance(1, 3) { r.below(4) } else { 0 };
    MKdf {
        alg: gen_alg(r),
        u: gen_party(r),
        v: gen_party(r),
        supp: gen_supp(r, o),
        priv_info: {
            let mut p: Vec<Vec<u8>> = (0..n).map(|_| small_bytes(r)).collect();
            repeat_neighbour(r, &mut p);
            p
        },
    }
}

/// After `repeat_neighbour`: a repeated element sometimes keeps its content but is carried differently
/// (other received bytes for the same protected header, or none at all, as a freshly built one would)
fn restyle_repeats_sig(r: &mut Rng, o: &GenOpts, v: &mut Vec<MSignature>) {
    for i in 1..v.len() {
        if v[i] == v[i - 1] && r.coin() {
            let h = v[i].prot.header.clone();
            v[i].prot.bytes = if o.built || (o.mixed && r.coin()) { None } else { Some(prot_bytes(r, &h, 255)) };
            if r.coin() {
                v[i].sig = small_bytes(r);
            }
        }
    }
}

fn restyle_repeats_rcp(r: &mut Rng, o: &GenOpts, v: &mut Vec<MRecipient>) {
    for i in 1..v.len() {
        if v[i] == v[i - 1] && r.coin() {
            let h = v[i].prot.header.clone();
            v[i].prot.bytes = if o.built || (o.mixed && r.coin()) { None } else { Some(prot_bytes(r, &h, 255)) };
        }
    }
}

/// two neighbouring elements that differ only in the sign of a floating-point zero inside an extra
/// parameter: equal under `==` of parsed values, different items
fn zero_twin_headers(r: &mut Rng, a: &mut MHeader, b: &mut MHeader) {
    let l = MLabel::Int(-70003);
    a.rest.retain(|(x, _)| *x != l);
    *b = a.clone();
    let at = r.below(a.rest.len() + 1);
    let (za, zb) = if r.coin() { (0.0, -0.0) } else { (-0.0, 0.0) };
    a.rest.insert(at, (l.clone(), Item::Float(za)));
    b.rest.insert(at, (l, Item::Float(zb)));
}

/// a signer / recipient sometimes repeats parameters of the enclosing layer (same algorithm, same IV,
/// same key id), in either bucket: layers are independent of each other
fn echo_outer(r: &mut Rng, o: &GenOpts, outer_prot: &MProt, outer_unprot: &MHeader, prot: &mut MProt, unprot: &mut MHeader) {
    if !r.chance(1, 10) {
        return;
    }
    let src = if r.coin() { &outer_prot.header } else { outer_unprot };
    let mut copy = MHeader::default();
    copy.alg = src.alg.clone();
    copy.kid = src.kid.clone();
    copy.iv = src.iv.clone();
    copy.piv = src.piv.clone();
    copy.ct = src.ct.clone();
    if copy.is_empty() {
        return;
    }
    if r.coin() {
        *unprot = copy;
    } else {
        prot.bytes = if o.built { None } else { Some(prot_bytes(r, &copy, o.styled_prot)) };
        prot.header = copy;
    }
}

fn gen_recipient_list(r: &mut Rng, o: &GenOpts, n: usize) -> Vec<MRecipient> {
    let mut v: Vec<MRecipient> = if r.chance(1, 48) {
        let n = wide_n(r).min(66);
        (0..n).map(|k| tiny_recipient(r, o, k)).collect()
    } else {
        (0..n).map(|_| gen_recipient(r, o, 1)).collect()
    };
    repeat_neighbour(r, &mut v);
    restyle_repeats_rcp(r, o, &mut v);
    if v.len() >= 2 && r.chance(1, 16) {
        let i = r.below(v.len() - 1);
        let mut first = v[i].clone();
        let mut second = first.clone();
        zero_twin_headers(r, &mut first.unprot, &mut second.unprot);
        v[i] = first;
        v[i + 1] = second;
    }
    v
}

/// a valid value of type `ty`
pub fn gen_mval(r: &mut Rng, ty: Ty, o: &GenOpts) -> MVal {
    match ty {
        Ty::Header => MVal::Header(gen_header(r, o, 0)),
        Ty::ProtMap => MVal::ProtMap(MProt {
            bytes: None,
            header: gen_header(r, o, 0),
        }),
        Ty::Signature => MVal::Signature(gen_signature(r, o, 0)),
        Ty::Sign => {
            let n = 1 + r.below(3);
            let mut sigs: Vec<MSignature> = if r.chance(1, 48) {
                let n = wide_n(r).min(66);
                (0..n).map(|k| tiny_signature(r, o, k)).collect()
            } else {
                (0..n).map(|_| gen_signature(r, o, 1)).collect()
            };
            repeat_neighbour(r, &mut sigs);
            restyle_repeats_sig(r, o, &mut sigs);
            if sigs.len() >= 2 && r.chance(1, 16) {
                let i = r.below(sigs.len() - 1);
                let mut first = sigs[i].clone();
                let mut second = first.clone();
                zero_twin_headers(r, &mut first.unprot, &mut second.unprot);
                sigs[i] = first;
                sigs[i + 1] = second;
            }
            let (prot, unprot) = (gen_prot(r, o, 0), gen_header(r, o, 0));
            if let Some(s0) = sigs.first_mut() {
                let (mut p, mut u) = (s0.prot.clone(), s0.unprot.clone());
                echo_outer(r, o, &prot, &unprot, &mut p, &mut u);
                s0.prot = p;
                s0.unprot = u;
            }
            MVal::Sign(MSign { prot, unprot, payload: opt_payload(r), sigs })
        }
        Ty::Sign1 => MVal::Sign1(MSign1 {
            prot: gen_prot(r, o, 0),
            unprot: gen_header(r, o, 0),
            payload: opt_payload(r),
            sig: small_bytes(r),
        }),
        Ty::Mac => {
            let n = 1 + r.below(2);
            let (prot, unprot) = (gen_prot(r, o, 0), gen_header(r, o, 0));
            let mut recipients = gen_recipient_list(r, o, n);
            if let Some(r0) = recipients.last_mut() {
                let (mut p, mut u) = (r0.prot.clone(), r0.unprot.clone());
                echo_outer(r, o, &prot, &unprot, &mut p, &mut u);
                r0.prot = p;
                r0.unprot = u;
            }
            MVal::Mac(MMac { prot, unprot, payload: opt_payload(r), tag: small_bytes(r), recipients })
        }
        Ty::Mac0 => MVal::Mac0(MMac0 {
            prot: gen_prot(r, o, 0),
            unprot: gen_header(r, o, 0),
            payload: opt_payload(r),
            tag: small_bytes(r),
        }),
        Ty::Encrypt => {
            let n = 1 + r.below(2);
            let (prot, unprot) = (gen_prot(r, o, 0), gen_header(r, o, 0));
            let mut recipients = gen_recipient_list(r, o, n);
            if let Some(r0) = recipients.first_mut() {
                let (mut p, mut u) = (r0.prot.clone(), r0.unprot.clone());
                echo_outer(r, o, &prot, &unprot, &mut p, &mut u);
                r0.prot = p;
                r0.unprot = u;
            }
            MVal::Encrypt(MEncrypt { prot, unprot, ct: opt_payload(r), recipients })
        }
        Ty::Encrypt0 => MVal::Encrypt0(MEncrypt0 {
            prot: gen_prot(r, o, 0),
            unprot: gen_header(r, o, 0),
            ct: opt_payload(r),
        }),
        Ty::Recipient => MVal::Recipient(gen_recipient(r, o, 0)),
        Ty::Key => MVal::Key(gen_key(r)),
        Ty::KeySet => {
            let n = if r.chance(1, 48) { wide_n(r).min(66) } else { r.below(4) };
            let mut keys: Vec<MKey> = (0..n).map(|_| gen_key(r)).collect();
            repeat_neighbour(r, &mut keys);
            if keys.len() >= 2 && r.chance(1, 12) {
                let i = r.below(keys.len() - 1);
                let mut first = keys[i].clone();
                first.params.retain(|(l, _)| *l != MLabel::Int(-70003));
                let mut second = first.clone();
                let (za, zb) = if r.coin() { (0.0, -0.0) } else { (-0.0, 0.0) };
                first.params.push((MLabel::Int(-70003), Item::Float(za)));
                second.params.push((MLabel::Int(-70003), Item::Float(zb)));
                keys[i] = first;
                keys[i + 1] = second;
            }
            MVal::KeySet(keys)
        }
        Ty::Party => MVal::Party(gen_party(r)),
        Ty::SuppPub => MVal::SuppPub(gen_supp(r, o)),
        Ty::Kdf => MVal::Kdf(gen_kdf(r, o)),
        Ty::Claims => MVal::Claims(gen_claims(r)),
        Ty::Label => MVal::Label(pal_label(r)),
        Ty::RegLabel(reg) => MVal::RegLabel(
            reg,
            if r.chance(1, 4) {
                MLabel::Text(pal_text(r))
            } else {
                MLabel::Int(*r.pick(&registry::values(reg)))
            },
        ),
        Ty::RegLabelPriv(reg) => MVal::RegLabelPriv(
            reg,
            match r.below(5) {
                0 => MLabel::Text(pal_text(r)),
                1 => MLabel::Int(*r.pick(&[-65537, -70000, i64::MIN])),
                _ => MLabel::Int(*r.pick(&registry::values(reg))),
            },
        ),
    }
}

// ---------------------------------------------------------------------------------------------
// item surgery

/// Number of nodes in preorder; with `into_bstr`, a byte string whose content is one CBOR item
/// exposes that item's nodes as children (so that faults can be planted inside protected headers).
pub fn count_nodes(it: &Item, into_bstr: bool) -> usize {
    1 + match it {
        Item::Array(a) => a.iter().map(|x| count_nodes(x, into_bstr)).sum::<usize>(),
        Item::Map(m) => m
            .iter()
            .map(|(k, v)| count_nodes(k, into_bstr) + count_nodes(v, into_bstr))
            .sum::<usize>(),
        Item::Tag(_, b) => count_nodes(b, into_bstr),
        Item::Bytes(b) if into_bstr && !b.is_empty() => match rcbor::decode(b) {
            Ok(inner) if matches!(inner, Item::Map(_)) => count_nodes(&inner, into_bstr),
            _ => 0,
        },
        _ => 0,
    }
}

/// Rebuild `it` with the node of preorder index `target` replaced by `f(node)`.
pub fn map_node(it: &Item, target: usize, counter: &mut usize, into_bstr: bool, f: &mut dyn FnMut(&Item) -> Item) -> Item {
    let me = *counter;
    *counter += 1;
    if me == target {
        // skip the subtree's indices
        *counter += count_nodes(it, into_bstr) - 1;
        return f(it);
    }
    match it {
        Item::Array(a) => Item::Array(a.iter().map(|x| map_node(x, target, counter, into_bstr, f)).collect()),
        Item::Map(m) => Item::Map(
            m.iter()
                .map(|(k, v)| {
                    let k2 = map_node(k, target, counter, into_bstr, f);
                    let v2 = map_node(v, target, counter, into_bstr, f);
                    (k2, v2)
                })
                .collect(),
        ),
        Item::Tag(t, b) => Item::Tag(*t, Box::new(map_node(b, target, counter, into_bstr, f))),
        Item::Bytes(b) if into_bstr && !b.is_empty() => match rcbor::decode(b) {
            Ok(inner) if matches!(inner, Item::Map(_)) => {
                let n = count_nodes(&inner, into_bstr);
                if target > me && target <= me + n {
                    let inner2 = map_node(&inner, target, counter, into_bstr, f);
                    Item::Bytes(rcbor::det(&inner2))
                } else {
                    *counter += n;
                    it.clone()
                }
            }
            _ => it.clone(),
        },
        x => x.clone(),
    }
}

pub fn replace_node(it: &Item, target: usize, into_bstr: bool, f: &mut dyn FnMut(&Item) -> Item) -> Item {
    let mut c = 0;
    map_node(it, target, &mut c, into_bstr, f)
}

/// One random structural fault (the result may or may not still be valid - the model decides).
pub fn mutate_item(r: &mut Rng, it: &Item) -> Item {
    let n = count_nodes(it, true);
    let target = r.below(n);
    let choice = r.below(100);
    let mut seed = r.next();
    replace_node(it, target, true, &mut |node| {
        let mut r = Rng::new(seed);
        seed = seed.wrapping_add(1);
        mutate_node(&mut r, node, choice)
    })
}

/// Tags an implementation might think "transparent": encoded-CBOR (24), the bignum tags (which over
/// a short byte string *are* an integer), date/time, expected-conversion hints, URI, self-described
/// CBOR, CWT, the COSE message tags, and arbitrary ones.
pub const WRAP_TAGS: [u64; 18] = [24, 0, 1, 2, 3, 4, 5, 21, 22, 23, 32, 61, 55799, 16, 18, 98, 256, u64::MAX];

/// Tag 2 / 3 around a byte string is a bignum: whether the CBOR layer folds it into an integer
/// depends on how the string is encoded (section 1 of DESIGN.md, P4), so styled encodings of it are
/// outside the verdict alphabet.
fn bignum_wrap(tag: u64, node: &Item) -> bool {
    (tag == 2 || tag == 3) && matches!(node, Item::Bytes(_))
}

fn mutate_node(r: &mut Rng, node: &Item, choice: usize) -> Item {
    if choice >= 97 && !matches!(node, Item::Bytes(_)) {
        // the node as it is, embedded: a byte string holding its encoding (bare or under tag 24)
        let b = Item::Bytes(rcbor::det(node));
        return if r.coin() { Item::Tag(24, Box::new(b)) } else { b };
    }
    if choice >= 94 {
        // the node as it is, wrapped in a tag
        let tag = *r.pick(&WRAP_TAGS);
        if !bignum_wrap(tag, node) {
            return Item::Tag(tag, Box::new(node.clone()));
        }
    }
    match node {
        Item::Map(m) if choice < 70 => {
            let mut m = m.clone();
            match r.below(7) {
                0 if !m.is_empty() => {
                    // duplicate an entry (same label), same or different value, any position
                    let e = m[r.below(m.len())].clone();
                    let v = if r.coin() { e.1.clone() } else { random_item(r, 1) };
                    let pos = r.below(m.len() + 1);
                    m.insert(pos, (e.0, v));
                }
                1 if !m.is_empty() => {
                    m.remove(r.below(m.len()));
                }
                2 if m.len() >= 2 => {
                    let i = r.below(m.len());
                    let j = r.below(m.len());
                    m.swap(i, j);
                }
                3 if !m.is_empty() => {
                    // relabel an entry
                    let i = r.below(m.len());
                    m[i].0 = if r.coin() {
                        Item::Int(r.range(0, 9) as i128)
                    } else {
                        pal_label(r).item()
                    };
                }
                4 if !m.is_empty() => {
                    // replace a value by a wrong kind
                    let i = r.below(m.len());
                    m[i].1 = kind_palette(r.below(KIND_PALETTE_LEN));
                }
                5 => {
                    // add an entry under a standard label with a random value
                    let pos = r.below(m.len() + 1);
                    m.insert(pos, (Item::Int(r.range(0, 8) as i128), if r.coin() { kind_palette(r.below(KIND_PALETTE_LEN)) } else { random_item(r, 2) }));
                }
                _ => {
                    let pos = r.below(m.len() + 1);
                    m.insert(pos, (random_item(r, 1), random_item(r, 1)));
                }
            }
            Item::Map(m)
        }
        Item::Array(a) if choice < 70 => {
            let mut a = a.clone();
            match r.below(6) {
                0 if !a.is_empty() => {
                    a.remove(r.below(a.len()));
                }
                1 => {
                    let pos = r.below(a.len() + 1);
                    a.insert(pos, kind_palette(r.below(KIND_PALETTE_LEN)));
                }
                2 if a.len() >= 2 => {
                    let i = r.below(a.len());
                    let j = r.below(a.len());
                    a.swap(i, j);
                }
                3 if !a.is_empty() => {
                    let i = r.below(a.len());
                    let e = a[i].clone();
                    a.insert(i, e);
                }
                4 if !a.is_empty() => {
                    let i = r.below(a.len());
                    a[i] = kind_palette(r.below(KIND_PALETTE_LEN));
                }
                _ => a.push(random_item(r, 1)),
            }
            Item::Array(a)
        }
        Item::Bytes(b) if choice < 60 => {
            let mut b = b.clone();
            match r.below(6) {
                0 => b.clear(),
                1 if !b.is_empty() => {
                    b.truncate(r.below(b.len()));
                }
                2 => b.push(r.next() as u8),
                3 => {
                    // a complete extra item after the content
                    b.extend_from_slice(&rcbor::det(&random_item(r, 1)));
                }
                4 => b = rcbor::det(&random_item(r, 2)),
                _ => b = rcbor::det(&Item::Map(vec![(Item::Int(r.range(0, 8) as i128), random_item(r, 1))])),
            }
            Item::Bytes(b)
        }
        Item::Text(t) if choice < 60 => {
            let mut t = t.clone();
            match r.below(6) {
                0 => t.clear(),
                1 => t.insert(0, *r.pick(&[' ', '\t', '\n', '\u{2003}', '\u{a0}', '\u{3000}', '\u{85}'])),
                2 => t.push(*r.pick(&[' ', '\t', '\n', '\u{2003}', '\u{a0}', '\u{3000}', '\u{85}'])),
                3 => t.push('/'),
                4 => t = t.replace('/', ""),
                _ => t = pal_text(r),
            }
            Item::Text(t)
        }
        Item::Int(v) if choice < 70 => Item::Int(match r.below(5) {
            0 => v + 1,
            1 => v - 1,
            2 => -v,
            3 => pal_int(r),
            _ => r.range(-10, 10) as i128,
        }
        .clamp(CBOR_MIN, CBOR_MAX)),
        Item::Float(_) if choice < 50 => Item::Float(pal_float(r)),
        Item::Null if choice < 50 => Item::Bytes(vec![]),
        _ => {
            if r.coin() {
                kind_palette(r.below(KIND_PALETTE_LEN))
            } else {
                random_item(r, 2)
            }
        }
    }
}

/// The complete single-fault neighbourhood of a wire item: every node (also inside protected byte
/// strings) replaced by every entry of the kind palette; every map entry removed / duplicated at
/// every position; every array element removed, one element appended.
pub fn enum_faults(it: &Item) -> Vec<(String, Item)> {
    let mut out = Vec::new();
    let n = count_nodes(it, true);
    for t in 0..n {
        for k in 0..KIND_PALETTE_LEN {
            let v = replace_node(it, t, true, &mut |_| kind_palette(k));
            out.push((format!("replace#{}:{}", t, kind_palette(k).kind()), v));
        }
        // the node unchanged, wrapped in a tag
        for tag in WRAP_TAGS {
            let mut skip = false;
            replace_node(it, t, true, &mut |node| {
                skip = bignum_wrap(tag, node);
                node.clone()
            });
            if skip {
                continue;
            }
            let v = replace_node(it, t, true, &mut |node| Item::Tag(tag, Box::new(node.clone())));
            out.push((format!("tagwrap#{}:{}", t, tag), v));
        }
        // the node unchanged, but "embedded": as a byte string holding its encoding, bare and under tag 24
        for (name, wrap) in [("embedded-bstr", false), ("embedded-tag24", true)] {
            let v = replace_node(it, t, true, &mut |node| {
                let b = Item::Bytes(rcbor::det(node));
                if wrap {
                    Item::Tag(24, Box::new(b))
                } else {
                    b
                }
            });
            out.push((format!("{}#{}", name, t), v));
        }
        // container-specific
        let mut variants: Vec<Item> = Vec::new();
        replace_node(it, t, true, &mut |node| {
            match node {
                Item::Map(m) => {
                    for i in 0..m.len() {
                        let mut m2 = m.clone();
                        m2.remove(i);
                        variants.push(Item::Map(m2));
                        for pos in 0..=m.len() {
                            let mut m3 = m.clone();
                            m3.insert(pos, m[i].clone());
                            variants.push(Item::Map(m3));
                        }
                    }
                }
                Item::Array(a) => {
                    for i in 0..a.len() {
                        let mut a2 = a.clone();
                        a2.remove(i);
                        variants.push(Item::Array(a2));
                    }
                    let mut a3 = a.clone();
                    a3.push(Item::Bytes(vec![]));
                    variants.push(Item::Array(a3));
                    let mut a4 = a.clone();
                    a4.insert(0, Item::Bytes(vec![]));
                    variants.push(Item::Array(a4));
                    // the array followed by a copy of itself, once and twice (a flat run of what should
                    // be separate elements)
                    if !a.is_empty() && a.len() <= 6 {
                        let mut a5 = a.clone();
                        a5.extend(a.iter().cloned());
                        variants.push(Item::Array(a5.clone()));
                        a5.extend(a.iter().cloned());
                        variants.push(Item::Array(a5));
                    }
                }
                Item::Bytes(b) if !b.is_empty() => {
                    variants.push(Item::Bytes(vec![]));
                    variants.push(Item::Bytes(b[..b.len() - 1].to_vec()));
                    let mut b2 = b.clone();
                    b2.push(0);
                    variants.push(Item::Bytes(b2));
                    let mut b3 = b.clone();
                    b3.push(0xa0);
                    variants.push(Item::Bytes(b3));
                }
                Item::Text(t) => {
                    variants.push(Item::Text(format!(" {}", t)));
                    variants.push(Item::Text(format!("{}\u{2003}", t)));
                    variants.push(Item::Text(format!("{}/", t)));
                    variants.push(Item::Text(t.replace('/', "")));
                }
                Item::Int(v) => {
                    for d in [-1i128, 1] {
                        variants.push(Item::Int((v + d).clamp(CBOR_MIN, CBOR_MAX)));
                    }
                }
                _ => {}
            }
            node.clone()
        });
        for (vi, var) in variants.into_iter().enumerate() {
            let v = replace_node(it, t, true, &mut |_| var.clone());
            out.push((format!("struct#{}:{}", t, vi), v));
        }
    }
    out
}

// ---------------------------------------------------------------------------------------------
// byte-level mutation (hostile inputs for C01 / C07 / C13)

pub fn mutate_bytes(r: &mut Rng, b: &[u8], other: &[u8]) -> Vec<u8> {
    let mut v = b.to_vec();
    let n = 1 + r.below(3);
    for _ in 0..n {
        match r.below(11) {
            0 if !v.is_empty() => {
                let i = r.below(v.len());
                v[i] ^= 1 << r.below(8);
            }
            1 if !v.is_empty() => {
                let i = r.below(v.len());
                v[i] = r.next() as u8;
            }
            2 if !v.is_empty() => {
                let i = r.below(v.len());
                v.remove(i);
            }
            3 => {
                let i = r.below(v.len() + 1);
                v.insert(i, r.next() as u8);
            }
            4 if !v.is_empty() => {
                let i = r.below(v.len());
                v.truncate(i);
            }
            5 if !v.is_empty() => {
                // duplicate a span
                let i = r.below(v.len());
                let l = 1 + r.below((v.len() - i).min(16));
                let span: Vec<u8> = v[i..i + l].to_vec();
                let at = r.below(v.len() + 1);
                for (k, x) in span.into_iter().enumerate() {
                    v.insert(at + k, x);
                }
            }
            6 if !v.is_empty() => {
                // delete a span
                let i = r.below(v.len());
                let l = 1 + r.below((v.len() - i).min(16));
                v.drain(i..i + l);
            }
            7 if !other.is_empty() => {
                // splice
                let i = r.below(v.len() + 1);
                let j = r.below(other.len());
                v.truncate(i);
                v.extend_from_slice(&other[j..]);
            }
            8 if !v.is_empty() => {
                // rewrite a byte into an interesting head
                let i = r.below(v.len());
                v[i] = *r.pick(&[0x5f, 0x7f, 0x9f, 0xbf, 0xff, 0xc2, 0xc3, 0xf6, 0xf7, 0x40, 0x80, 0xa0, 0x1b, 0x3b, 0x5b, 0x9b, 0xbb, 0xf9, 0xfa, 0xfb, 0x18, 0x38, 0xd8]);
            }
            9 if v.len() >= 2 => {
                let i = r.below(v.len() - 1);
                v.swap(i, i + 1);
            }
            _ => v.push(r.next() as u8),
        }
    }
    v
}

/// Rewrite the head at a random item boundary so that it claims a huge length/count/value.
pub fn length_lie(r: &mut Rng, b: &[u8]) -> Vec<u8> {
    // collect offsets of heads by walking the strict parser over the input
    let mut offs: Vec<usize> = Vec::new();
    fn walk(b: &[u8], p: &mut usize, offs: &mut Vec<usize>, depth: u32) -> Option<()> {
        if depth > 200 || *p >= b.len() {
            return None;
        }
        offs.push(*p);
        let ib = b[*p];
        let major = ib >> 5;
        let ai = ib & 0x1f;
        *p += 1;
        let arg: Option<u64> = match ai {
            0..=23 => Some(ai as u64),
            24 => {
                let v = *b.get(*p)? as u64;
                *p += 1;
                Some(v)
            }
            25 => {
                let s = b.get(*p..*p + 2)?;
                *p += 2;
                Some(u16::from_be_bytes([s[0], s[1]]) as u64)
            }
            26 => {
                let s = b.get(*p..*p + 4)?;
                *p += 4;
                Some(u32::from_be_bytes([s[0], s[1], s[2], s[3]]) as u64)
            }
            27 => {
                let s = b.get(*p..*p + 8)?;
                *p += 8;
                let mut a = [0u8; 8];
                a.copy_from_slice(s);
                Some(u64::from_be_bytes(a))
            }
            31 => None,
            _ => return None,
        };
        match major {
            0 | 1 | 7 => Some(()),
            2 | 3 => match arg {
                Some(n) => {
                    let end = p.checked_add(n as usize)?;
                    if end > b.len() {
                        return None;
                    }
                    // descend into byte strings that hold an item (protected headers)
                    if major == 2 && n > 0 {
                        let mut q = *p;
                        let _ = walk(&b[..end], &mut q, offs, depth + 1);
                    }
                    *p = end;
                    Some(())
                }
                None => {
                    while *b.get(*p)? != 0xff {
                        walk(b, p, offs, depth + 1)?;
                    }
                    *p += 1;
                    Some(())
                }
            },
            4 | 5 => {
                let mult = if major == 5 { 2 } else { 1 };
                match arg {
                    Some(n) => {
                        for _ in 0..n.checked_mul(mult)? {
                            walk(b, p, offs, depth + 1)?;
                        }
                        Some(())
                    }
                    None => {
                        while *b.get(*p)? != 0xff {
                            walk(b, p, offs, depth + 1)?;
                        }
                        *p += 1;
                        Some(())
                    }
                }
            }
            _ => walk(b, p, offs, depth + 1),
        }
    }
    let mut p = 0;
    let _ = walk(b, &mut p, &mut offs, 0);
    if offs.is_empty() {
        return b.to_vec();
    }
    let at = *r.pick(&offs);
    let major = b[at] & 0xe0;
    let ai = b[at] & 0x1f;
    let old_len = match ai {
        0..=23 => 1,
        24 => 2,
        25 => 3,
        26 => 5,
        27 => 9,
        _ => 1,
    };
    let mut out = b[..at].to_vec();
    let claim: u64 = *r.pick(&[1 << 16, 1 << 32, (1 << 63) - 1, u64::MAX, 1 << 20, 0xffff_ffff, 255, 1 << 40]);
    out.push(major | 27);
    out.extend_from_slice(&claim.to_be_bytes());
    if at + old_len <= b.len() && r.coin() {
        out.extend_from_slice(&b[at + old_len..]);
    }
    out
}
