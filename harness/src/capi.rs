//! The boundary to the crate under test: every call into coset goes through here, under the panic
//! monitor.  `view` maps coset values to model values through public fields only; `build` goes the
//! other way through struct literals.

use crate::model::*;
use crate::mon::{guard, PanicInfo};
use crate::rcbor::Item;
use crate::registry::{self, Reg};
use coset::cbor::value::Value;
use coset::iana::{self, EnumI64};
use coset::{AsCborValue, CborSerializable, CoseError, TaggedCborSerializable};

#[derive(Clone, Debug, PartialEq, Eq)]
pub enum EK {
    Decode,
    Dup,
    Encode,
    Extraneous,
    OutOfRange,
    Unexpected,
    Unreg,
    UnregNonPriv,
    Panic(String),
}

impl EK {
    pub fn name(&self) -> String {
        match self {
            EK::Panic(s) => format!("Panic({})", s),
            k => format!("{:?}", k),
        }
    }
}

pub fn ek(e: &CoseError) -> EK {
    match e {
        CoseError::DecodeFailed(_) => EK::Decode,
        CoseError::DuplicateMapKey => EK::Dup,
        CoseError::EncodeFailed => EK::Encode,
        CoseError::ExtraneousData => EK::Extraneous,
        CoseError::OutOfRangeIntegerValue => EK::OutOfRange,
        CoseError::UnexpectedItem(_, _) => EK::Unexpected,
        CoseError::UnregisteredIanaValue => EK::Unreg,
        CoseError::UnregisteredIanaNonPrivateValue => EK::UnregNonPriv,
    }
}

pub type CR<T> = Result<T, EK>;

fn flat<T>(r: Result<Result<T, CoseError>, PanicInfo>) -> CR<T> {
    match r {
        Ok(Ok(v)) => Ok(v),
        Ok(Err(e)) => Err(ek(&e)),
        Err(p) => Err(EK::Panic(p.site())),
    }
}

#[derive(Clone, Debug, PartialEq)]
pub enum CVal {
    Header(coset::Header),
    ProtMap(coset::ProtectedHeader),
    Signature(coset::CoseSignature),
    Sign(coset::CoseSign),
    Sign1(coset::CoseSign1),
    Mac(coset::CoseMac),
    Mac0(coset::CoseMac0),
    Encrypt(coset::CoseEncrypt),
    Encrypt0(coset::CoseEncrypt0),
    Recipient(coset::CoseRecipient),
    Key(coset::CoseKey),
    KeySet(coset::CoseKeySet),
    Party(coset::PartyInfo),
    SuppPub(coset::SuppPubInfo),
    Kdf(coset::CoseKdfContext),
    Claims(coset::cwt::ClaimsSet),
    Label(coset::Label),
    RlContent(coset::RegisteredLabel<iana::CoapContentFormat>),
    RlHeaderParam(coset::RegisteredLabel<iana::HeaderParameter>),
    RlKeyType(coset::RegisteredLabel<iana::KeyType>),
    RlKeyOp(coset::RegisteredLabel<iana::KeyOperation>),
    RlpAlg(coset::RegisteredLabelWithPrivate<iana::Algorithm>),
    RlpClaim(coset::RegisteredLabelWithPrivate<iana::CwtClaimName>),
    RlpHeaderParam(coset::RegisteredLabelWithPrivate<iana::HeaderParameter>),
    RlpCurve(coset::RegisteredLabelWithPrivate<iana::EllipticCurve>),
}

macro_rules! per_type {
    ($ty:expr, $f:ident) => {
        match $ty {
            Ty::Header => $f!(Header, coset::Header),
            Ty::ProtMap => $f!(ProtMap, coset::ProtectedHeader),
            Ty::Signature => $f!(Signature, coset::CoseSignature),
            Ty::Sign => $f!(Sign, coset::CoseSign),
            Ty::Sign1 => $f!(Sign1, coset::CoseSign1),
            Ty::Mac => $f!(Mac, coset::CoseMac),
            Ty::Mac0 => $f!(Mac0, coset::CoseMac0),
            Ty::Encrypt => $f!(Encrypt, coset::CoseEncrypt),
            Ty::Encrypt0 => $f!(Encrypt0, coset::CoseEncrypt0),
            Ty::Recipient => $f!(Recipient, coset::CoseRecipient),
            Ty::Key => $f!(Key, coset::CoseKey),
            Ty::KeySet => $f!(KeySet, coset::CoseKeySet),
            Ty::Party => $f!(Party, coset::PartyInfo),
            Ty::SuppPub => $f!(SuppPub, coset::SuppPubInfo),
            Ty::Kdf => $f!(Kdf, coset::CoseKdfContext),
            Ty::Claims => $f!(Claims, coset::cwt::ClaimsSet),
            Ty::Label => $f!(Label, coset::Label),
            Ty::RegLabel(Reg::CoapContentFormat) => {
                $f!(RlContent, coset::RegisteredLabel<iana::CoapContentFormat>)
            }
            Ty::RegLabel(Reg::HeaderParameter) => {
                $f!(RlHeaderParam, coset::RegisteredLabel<iana::HeaderParameter>)
            }
            Ty::RegLabel(Reg::KeyType) => $f!(RlKeyType, coset::RegisteredLabel<iana::KeyType>),
            Ty::RegLabel(Reg::KeyOperation) => {
                $f!(RlKeyOp, coset::RegisteredLabel<iana::KeyOperation>)
            }
            Ty::RegLabelPriv(Reg::Algorithm) => {
                $f!(RlpAlg, coset::RegisteredLabelWithPrivate<iana::Algorithm>)
            }
            Ty::RegLabelPriv(Reg::CwtClaimName) => {
                $f!(RlpClaim, coset::RegisteredLabelWithPrivate<iana::CwtClaimName>)
            }
            Ty::RegLabelPriv(Reg::HeaderParameter) => {
                $f!(RlpHeaderParam, coset::RegisteredLabelWithPrivate<iana::HeaderParameter>)
            }
            Ty::RegLabelPriv(Reg::EllipticCurve) => {
                $f!(RlpCurve, coset::RegisteredLabelWithPrivate<iana::EllipticCurve>)
            }
            other => panic!("cosetmon: type {:?} is not instantiated", other),
        }
    };
}

macro_rules! per_val {
    ($v:expr, $x:ident => $e:expr) => {
        match $v {
            CVal::Header($x) => $e,
            CVal::ProtMap($x) => $e,
            CVal::Signature($x) => $e,
            CVal::Sign($x) => $e,
            CVal::Sign1($x) => $e,
            CVal::Mac($x) => $e,
            CVal::Mac0($x) => $e,
            CVal::Encrypt($x) => $e,
            CVal::Encrypt0($x) => $e,
            CVal::Recipient($x) => $e,
            CVal::Key($x) => $e,
            CVal::KeySet($x) => $e,
            CVal::Party($x) => $e,
            CVal::SuppPub($x) => $e,
            CVal::Kdf($x) => $e,
            CVal::Claims($x) => $e,
            CVal::Label($x) => $e,
            CVal::RlContent($x) => $e,
            CVal::RlHeaderParam($x) => $e,
            CVal::RlKeyType($x) => $e,
            CVal::RlKeyOp($x) => $e,
            CVal::RlpAlg($x) => $e,
            CVal::RlpClaim($x) => $e,
            CVal::RlpHeaderParam($x) => $e,
            CVal::RlpCurve($x) => $e,
        }
    };
}

pub fn from_slice(ty: Ty, b: &[u8]) -> CR<CVal> {
    macro_rules! f {
        ($var:ident, $t:ty) => {
            flat(guard(|| <$t>::from_slice(b))).map(CVal::$var)
        };
    }
    per_type!(ty, f)
}

pub fn from_value(ty: Ty, v: Value) -> CR<CVal> {
    macro_rules! f {
        ($var:ident, $t:ty) => {
            flat(guard(|| <$t>::from_cbor_value(v))).map(CVal::$var)
        };
    }
    per_type!(ty, f)
}

/// only for the six taggable types
pub fn from_tagged_slice(ty: Ty, b: &[u8]) -> CR<CVal> {
    match ty {
        Ty::Sign => flat(guard(|| coset::CoseSign::from_tagged_slice(b))).map(CVal::Sign),
        Ty::Sign1 => flat(guard(|| coset::CoseSign1::from_tagged_slice(b))).map(CVal::Sign1),
        Ty::Mac => flat(guard(|| coset::CoseMac::from_tagged_slice(b))).map(CVal::Mac),
        Ty::Mac0 => flat(guard(|| coset::CoseMac0::from_tagged_slice(b))).map(CVal::Mac0),
        Ty::Encrypt => flat(guard(|| coset::CoseEncrypt::from_tagged_slice(b))).map(CVal::Encrypt),
        Ty::Encrypt0 => flat(guard(|| coset::CoseEncrypt0::from_tagged_slice(b))).map(CVal::Encrypt0),
        other => panic!("cosetmon: {:?} is not taggable", other),
    }
}

/// the crate's own constant for the type's tag (compared with the model's in C14)
pub fn crate_tag(ty: Ty) -> u64 {
    match ty {
        Ty::Sign => coset::CoseSign::TAG,
        Ty::Sign1 => coset::CoseSign1::TAG,
        Ty::Mac => coset::CoseMac::TAG,
        Ty::Mac0 => coset::CoseMac0::TAG,
        Ty::Encrypt => coset::CoseEncrypt::TAG,
        Ty::Encrypt0 => coset::CoseEncrypt0::TAG,
        other => panic!("cosetmon: {:?} is not taggable", other),
    }
}

pub fn to_vec(v: CVal) -> CR<Vec<u8>> {
    per_val!(v, x => flat(guard(|| x.to_vec())))
}

pub fn to_value(v: CVal) -> CR<Value> {
    per_val!(v, x => flat(guard(|| x.to_cbor_value())))
}

pub fn to_tagged_vec(v: CVal) -> CR<Vec<u8>> {
    match v {
        CVal::Sign(x) => flat(guard(|| x.to_tagged_vec())),
        CVal::Sign1(x) => flat(guard(|| x.to_tagged_vec())),
        CVal::Mac(x) => flat(guard(|| x.to_tagged_vec())),
        CVal::Mac0(x) => flat(guard(|| x.to_tagged_vec())),
        CVal::Encrypt(x) => flat(guard(|| x.to_tagged_vec())),
        CVal::Encrypt0(x) => flat(guard(|| x.to_tagged_vec())),
        other => panic!("cosetmon: {:?} is not taggable", other.ty()),
    }
}

/// ciborium parse of a byte string that must be exactly one item (the "parse" half of the
/// Value-level API, done by the harness rather than by coset)
pub fn ciborium_parse_exact(b: &[u8]) -> Result<Value, String> {
    let r = guard(|| {
        let mut s: &[u8] = b;
        let v: Result<Value, _> = coset::cbor::de::from_reader(&mut s);
        (v.map_err(|e| format!("{:?}", e)), s.len())
    });
    match r {
        Ok((Ok(v), 0)) => Ok(v),
        Ok((Ok(_), n)) => Err(format!("trailing {}", n)),
        Ok((Err(e), _)) => Err(e),
        Err(p) => Err(format!("panic {}", p.site())),
    }
}

pub fn ciborium_serialize(v: &Value) -> Result<Vec<u8>, String> {
    let r = guard(|| {
        let mut out = Vec::new();
        coset::cbor::ser::into_writer(v, &mut out)
            .map(|_| out)
            .map_err(|e| format!("{:?}", e))
    });
    match r {
        Ok(x) => x,
        Err(p) => Err(format!("panic {}", p.site())),
    }
}

impl CVal {
    pub fn ty(&self) -> Ty {
        match self {
            CVal::Header(_) => Ty::Header,
            CVal::ProtMap(_) => Ty::ProtMap,
            CVal::Signature(_) => Ty::Signature,
            CVal::Sign(_) => Ty::Sign,
            CVal::Sign1(_) => Ty::Sign1,
            CVal::Mac(_) => Ty::Mac,
            CVal::Mac0(_) => Ty::Mac0,
            CVal::Encrypt(_) => Ty::Encrypt,
            CVal::Encrypt0(_) => Ty::Encrypt0,
            CVal::Recipient(_) => Ty::Recipient,
            CVal::Key(_) => Ty::Key,
            CVal::KeySet(_) => Ty::KeySet,
            CVal::Party(_) => Ty::Party,
            CVal::SuppPub(_) => Ty::SuppPub,
            CVal::Kdf(_) => Ty::Kdf,
            CVal::Claims(_) => Ty::Claims,
            CVal::Label(_) => Ty::Label,
            CVal::RlContent(_) => Ty::RegLabel(Reg::CoapContentFormat),
            CVal::RlHeaderParam(_) => Ty::RegLabel(Reg::HeaderParameter),
            CVal::RlKeyType(_) => Ty::RegLabel(Reg::KeyType),
            CVal::RlKeyOp(_) => Ty::RegLabel(Reg::KeyOperation),
            CVal::RlpAlg(_) => Ty::RegLabelPriv(Reg::Algorithm),
            CVal::RlpClaim(_) => Ty::RegLabelPriv(Reg::CwtClaimName),
            CVal::RlpHeaderParam(_) => Ty::RegLabelPriv(Reg::HeaderParameter),
            CVal::RlpCurve(_) => Ty::RegLabelPriv(Reg::EllipticCurve),
        }
    }
}

// ---------------------------------------------------------------------------------------------
// ciborium Value <-> Item (field-by-field, no serialisation involved)

pub fn value_to_item(v: &Value) -> Item {
    match v {
        Value::Integer(i) => Item::Int(i128::from(*i)),
        Value::Bytes(b) => Item::Bytes(b.clone()),
        Value::Float(f) => Item::Float(*f),
        Value::Text(t) => Item::Text(t.clone()),
        Value::Bool(b) => Item::Bool(*b),
        Value::Null => Item::Null,
        Value::Tag(t, b) => Item::Tag(*t, Box::new(value_to_item(b))),
        Value::Array(a) => Item::Array(a.iter().map(value_to_item).collect()),
        Value::Map(m) => Item::Map(
            m.iter()
                .map(|(k, v)| (value_to_item(k), value_to_item(v)))
                .collect(),
        ),
        _ => Item::Undefined,
    }
}

pub fn item_to_value(it: &Item) -> Value {
    match it {
        Item::Int(i) => {
            if *i >= 0 {
                Value::Integer((*i as u64).into())
            } else if *i >= i64::MIN as i128 {
                Value::Integer((*i as i64).into())
            } else {
                // below i64::MIN: only reachable through i128
                Value::from(*i)
            }
        }
        Item::Bytes(b) => Value::Bytes(b.clone()),
        Item::Text(t) => Value::Text(t.clone()),
        Item::Array(a) => Value::Array(a.iter().map(item_to_value).collect()),
        Item::Map(m) => Value::Map(
            m.iter()
                .map(|(k, v)| (item_to_value(k), item_to_value(v)))
                .collect(),
        ),
        Item::Tag(t, b) => Value::Tag(*t, Box::new(item_to_value(b))),
        Item::Bool(b) => Value::Bool(*b),
        Item::Null | Item::Undefined | Item::Simple(_) => Value::Null,
        Item::Float(f) => Value::Float(*f),
    }
}

// ---------------------------------------------------------------------------------------------
// view: coset value -> model value, public fields only.  Inconsistencies between a label's variant
// and the registry (Assigned for an unregistered value is impossible by type; PrivateUse for a
// registered or non-private value is not) are pushed to `notes`.

pub struct Notes(pub Vec<String>);

fn l_plain(l: &coset::Label) -> MLabel {
    match l {
        coset::Label::Int(i) => MLabel::Int(*i),
        coset::Label::Text(t) => MLabel::Text(t.clone()),
    }
}

fn l_reg<T: EnumI64>(l: &coset::RegisteredLabel<T>, r: Reg, n: &mut Notes) -> MLabel {
    match l {
        coset::RegisteredLabel::Assigned(a) => {
            let i = a.to_i64();
            if !registry::is_registered(r, i) {
                n.0.push(format!("{:?}: Assigned variant with unregistered value {}", r, i));
            }
            MLabel::Int(i)
        }
        coset::RegisteredLabel::Text(t) => MLabel::Text(t.clone()),
    }
}

fn l_regp<T: EnumI64 + iana::WithPrivateRange>(
    l: &coset::RegisteredLabelWithPrivate<T>,
    r: Reg,
    n: &mut Notes,
) -> MLabel {
    match l {
        coset::RegisteredLabelWithPrivate::Assigned(a) => {
            let i = a.to_i64();
            if !registry::is_registered(r, i) {
                n.0.push(format!("{:?}: Assigned variant with unregistered value {}", r, i));
            }
            MLabel::Int(i)
        }
        coset::RegisteredLabelWithPrivate::PrivateUse(i) => {
            if registry::is_registered(r, *i) {
                n.0.push(format!("{:?}: PrivateUse({}) but the value is registered", r, i));
            }
            if !(*i < registry::PRIVATE_MAX) {
                n.0.push(format!("{:?}: PrivateUse({}) outside the private-use range", r, i));
            }
            MLabel::Int(*i)
        }
        coset::RegisteredLabelWithPrivate::Text(t) => MLabel::Text(t.clone()),
    }
}

pub fn v_header(h: &coset::Header, n: &mut Notes) -> MHeader {
    MHeader {
        alg: h.alg.as_ref().map(|a| l_regp(a, Reg::Algorithm, n)),
        crit: h.crit.iter().map(|c| l_reg(c, Reg::HeaderParameter, n)).collect(),
        ct: h.content_type.as_ref().map(|c| l_reg(c, Reg::CoapContentFormat, n)),
        kid: h.key_id.clone(),
        iv: h.iv.clone(),
        piv: h.partial_iv.clone(),
        csigs: h.counter_signatures.iter().map(|s| v_sig(s, n)).collect(),
        rest: h.rest.iter().map(|(l, v)| (l_plain(l), value_to_item(v))).collect(),
    }
}

pub fn v_prot(p: &coset::ProtectedHeader, n: &mut Notes) -> MProt {
    MProt {
        bytes: p.original_data.clone(),
        header: v_header(&p.header, n),
    }
}

pub fn v_sig(s: &coset::CoseSignature, n: &mut Notes) -> MSignature {
    MSignature {
        prot: v_prot(&s.protected, n),
        unprot: v_header(&s.unprotected, n),
        sig: s.signature.clone(),
    }
}

pub fn v_rcp(r: &coset::CoseRecipient, n: &mut Notes) -> MRecipient {
    MRecipient {
        prot: v_prot(&r.protected, n),
        unprot: v_header(&r.unprotected, n),
        ct: r.ciphertext.clone(),
        recipients: r.recipients.iter().map(|x| v_rcp(x, n)).collect(),
    }
}

pub fn v_key(k: &coset::CoseKey, n: &mut Notes) -> MKey {
    let mut ops: Vec<MLabel> = k.key_ops.iter().map(|o| l_reg(o, Reg::KeyOperation, n)).collect();
    let before = ops.len();
    ops.sort();
    ops.dedup();
    if ops.len() != before {
        n.0.push("key_ops set holds two equal operations".into());
    }
    MKey {
        kty: l_reg(&k.kty, Reg::KeyType, n),
        kid: k.key_id.clone(),
        alg: k.alg.as_ref().map(|a| l_regp(a, Reg::Algorithm, n)),
        key_ops: ops,
        base_iv: k.base_iv.clone(),
        params: k.params.iter().map(|(l, v)| (l_plain(l), value_to_item(v))).collect(),
    }
}

fn v_time(t: &coset::cwt::Timestamp) -> MTime {
    match t {
        coset::cwt::Timestamp::WholeSeconds(i) => MTime::Int(*i),
        coset::cwt::Timestamp::FractionalSeconds(f) => MTime::Float(Item::Float(*f)),
    }
}

pub fn v_claims(c: &coset::cwt::ClaimsSet, n: &mut Notes) -> MClaims {
    MClaims {
        iss: c.issuer.clone(),
        sub: c.subject.clone(),
        aud: c.audience.clone(),
        exp: c.expiration_time.as_ref().map(v_time),
        nbf: c.not_before.as_ref().map(v_time),
        iat: c.issued_at.as_ref().map(v_time),
        cti: c.cwt_id.clone(),
        rest: c
            .rest
            .iter()
            .map(|(l, v)| (l_regp(l, Reg::CwtClaimName, n), value_to_item(v)))
            .collect(),
    }
}

pub fn v_party(p: &coset::PartyInfo) -> MParty {
    MParty {
        identity: p.identity.clone(),
        nonce: p.nonce.as_ref().map(|x| match x {
            coset::Nonce::Bytes(b) => MNonce::Bytes(b.clone()),
            coset::Nonce::Integer(i) => MNonce::Int(*i),
        }),
        other: p.other.clone(),
    }
}

pub fn v_supp(s: &coset::SuppPubInfo, n: &mut Notes) -> MSuppPub {
    MSuppPub {
        key_data_length: s.key_data_length,
        prot: v_prot(&s.protected, n),
        other: s.other.clone(),
    }
}

/// `CoseKdfContext` has private fields: it is observed through its `Value` form, read by the model.
fn v_kdf(k: &coset::CoseKdfContext, n: &mut Notes) -> Option<MKdf> {
    let v = match guard(|| k.clone().to_cbor_value()) {
        Ok(Ok(v)) => v,
        _ => {
            n.0.push("CoseKdfContext::to_cbor_value failed or panicked".into());
            return None;
        }
    };
    let it = value_to_item(&v);
    // the protected slot of supp_pub_info carries retained bytes already (cbor_bstr)
    let mut cx = MCtx::new();
    match kdf(&it, &mut cx) {
        Ok(m) => Some(m),
        Err(e) => {
            n.0.push(format!("CoseKdfContext value form is not a KDF context: {}", e.rule));
            None
        }
    }
}

pub fn view(v: &CVal, n: &mut Notes) -> Option<MVal> {
    Some(match v {
        CVal::Header(h) => MVal::Header(v_header(h, n)),
        CVal::ProtMap(p) => MVal::ProtMap(v_prot(p, n)),
        CVal::Signature(s) => MVal::Signature(v_sig(s, n)),
        CVal::Sign(s) => MVal::Sign(MSign {
            prot: v_prot(&s.protected, n),
            unprot: v_header(&s.unprotected, n),
            payload: s.payload.clone(),
            sigs: s.signatures.iter().map(|x| v_sig(x, n)).collect(),
        }),
        CVal::Sign1(s) => MVal::Sign1(MSign1 {
            prot: v_prot(&s.protected, n),
            unprot: v_header(&s.unprotected, n),
            payload: s.payload.clone(),
            sig: s.signature.clone(),
        }),
        CVal::Mac(s) => MVal::Mac(MMac {
            prot: v_prot(&s.protected, n),
            unprot: v_header(&s.unprotected, n),
            payload: s.payload.clone(),
            tag: s.tag.clone(),
            recipients: s.recipients.iter().map(|x| v_rcp(x, n)).collect(),
        }),
        CVal::Mac0(s) => MVal::Mac0(MMac0 {
            prot: v_prot(&s.protected, n),
            unprot: v_header(&s.unprotected, n),
            payload: s.payload.clone(),
            tag: s.tag.clone(),
        }),
        CVal::Encrypt(s) => MVal::Encrypt(MEncrypt {
            prot: v_prot(&s.protected, n),
            unprot: v_header(&s.unprotected, n),
            ct: s.ciphertext.clone(),
            recipients: s.recipients.iter().map(|x| v_rcp(x, n)).collect(),
        }),
        CVal::Encrypt0(s) => MVal::Encrypt0(MEncrypt0 {
            prot: v_prot(&s.protected, n),
            unprot: v_header(&s.unprotected, n),
            ct: s.ciphertext.clone(),
        }),
        CVal::Recipient(r) => MVal::Recipient(v_rcp(r, n)),
        CVal::Key(k) => MVal::Key(v_key(k, n)),
        CVal::KeySet(ks) => MVal::KeySet(ks.0.iter().map(|k| v_key(k, n)).collect()),
        CVal::Party(p) => MVal::Party(v_party(p)),
        CVal::SuppPub(s) => MVal::SuppPub(v_supp(s, n)),
        CVal::Kdf(k) => MVal::Kdf(v_kdf(k, n)?),
        CVal::Claims(c) => MVal::Claims(v_claims(c, n)),
        CVal::Label(l) => MVal::Label(l_plain(l)),
        CVal::RlContent(l) => MVal::RegLabel(Reg::CoapContentFormat, l_reg(l, Reg::CoapContentFormat, n)),
        CVal::RlHeaderParam(l) => MVal::RegLabel(Reg::HeaderParameter, l_reg(l, Reg::HeaderParameter, n)),
        CVal::RlKeyType(l) => MVal::RegLabel(Reg::KeyType, l_reg(l, Reg::KeyType, n)),
        CVal::RlKeyOp(l) => MVal::RegLabel(Reg::KeyOperation, l_reg(l, Reg::KeyOperation, n)),
        CVal::RlpAlg(l) => MVal::RegLabelPriv(Reg::Algorithm, l_regp(l, Reg::Algorithm, n)),
        CVal::RlpClaim(l) => MVal::RegLabelPriv(Reg::CwtClaimName, l_regp(l, Reg::CwtClaimName, n)),
        CVal::RlpHeaderParam(l) => MVal::RegLabelPriv(Reg::HeaderParameter, l_regp(l, Reg::HeaderParameter, n)),
        CVal::RlpCurve(l) => MVal::RegLabelPriv(Reg::EllipticCurve, l_regp(l, Reg::EllipticCurve, n)),
    })
}

// ---------------------------------------------------------------------------------------------
// build: model value -> coset value through struct literals

pub fn b_label(l: &MLabel) -> coset::Label {
    match l {
        MLabel::Int(i) => coset::Label::Int(*i),
        MLabel::Text(t) => coset::Label::Text(t.clone()),
    }
}

/// None if the integer is not registered (then the value cannot be expressed with this type)
pub fn b_reg<T: EnumI64>(l: &MLabel) -> Option<coset::RegisteredLabel<T>> {
    match l {
        MLabel::Int(i) => T::from_i64(*i).map(coset::RegisteredLabel::Assigned),
        MLabel::Text(t) => Some(coset::RegisteredLabel::Text(t.clone())),
    }
}

pub fn b_regp<T: EnumI64 + iana::WithPrivateRange>(l: &MLabel) -> coset::RegisteredLabelWithPrivate<T> {
    match l {
        MLabel::Int(i) => match T::from_i64(*i) {
            Some(a) => coset::RegisteredLabelWithPrivate::Assigned(a),
            None => coset::RegisteredLabelWithPrivate::PrivateUse(*i),
        },
        MLabel::Text(t) => coset::RegisteredLabelWithPrivate::Text(t.clone()),
    }
}

pub fn b_header(h: &MHeader) -> Option<coset::Header> {
    Some(coset::Header {
        alg: h.alg.as_ref().map(b_regp),
        crit: h.crit.iter().map(b_reg).collect::<Option<Vec<_>>>()?,
        content_type: match &h.ct {
            Some(c) => Some(b_reg(c)?),
            None => None,
        },
        key_id: h.kid.clone(),
        iv: h.iv.clone(),
        partial_iv: h.piv.clone(),
        counter_signatures: h.csigs.iter().map(b_sig).collect::<Option<Vec<_>>>()?,
        rest: h.rest.iter().map(|(l, v)| (b_label(l), item_to_value(v))).collect(),
    })
}

pub fn b_prot(p: &MProt) -> Option<coset::ProtectedHeader> {
    Some(coset::ProtectedHeader {
        original_data: p.bytes.clone(),
        header: b_header(&p.header)?,
    })
}

pub fn b_sig(s: &MSignature) -> Option<coset::CoseSignature> {
    Some(coset::CoseSignature {
        protected: b_prot(&s.prot)?,
        unprotected: b_header(&s.unprot)?,
        signature: s.sig.clone(),
    })
}

pub fn b_rcp(r: &MRecipient) -> Option<coset::CoseRecipient> {
    Some(coset::CoseRecipient {
        protected: b_prot(&r.prot)?,
        unprotected: b_header(&r.unprot)?,
        ciphertext: r.ct.clone(),
        recipients: r.recipients.iter().map(b_rcp).collect::<Option<Vec<_>>>()?,
    })
}

pub fn b_key(k: &MKey) -> Option<coset::CoseKey> {
    Some(coset::CoseKey {
        kty: b_reg(&k.kty)?,
        key_id: k.kid.clone(),
        alg: k.alg.as_ref().map(b_regp),
        key_ops: k.key_ops.iter().map(b_reg).collect::<Option<_>>()?,
        base_iv: k.base_iv.clone(),
        params: k.params.iter().map(|(l, v)| (b_label(l), item_to_value(v))).collect(),
    })
}

fn b_time(t: &MTime) -> coset::cwt::Timestamp {
    match t {
        MTime::Int(i) => coset::cwt::Timestamp::WholeSeconds(*i),
        MTime::Float(Item::Float(f)) => coset::cwt::Timestamp::FractionalSeconds(*f),
        MTime::Float(_) => coset::cwt::Timestamp::FractionalSeconds(f64::NAN),
    }
}

pub fn b_claims(c: &MClaims) -> coset::cwt::ClaimsSet {
    coset::cwt::ClaimsSet {
        issuer: c.iss.clone(),
        subject: c.sub.clone(),
        audience: c.aud.clone(),
        expiration_time: c.exp.as_ref().map(b_time),
        not_before: c.nbf.as_ref().map(b_time),
        issued_at: c.iat.as_ref().map(b_time),
        cwt_id: c.cti.clone(),
        rest: c.rest.iter().map(|(l, v)| (b_regp(l), item_to_value(v))).collect(),
    }
}

pub fn b_party(p: &MParty) -> coset::PartyInfo {
    coset::PartyInfo {
        identity: p.identity.clone(),
        nonce: p.nonce.as_ref().map(|n| match n {
            MNonce::Bytes(b) => coset::Nonce::Bytes(b.clone()),
            MNonce::Int(i) => coset::Nonce::Integer(*i),
        }),
        other: p.other.clone(),
    }
}

pub fn b_supp(s: &MSuppPub) -> Option<coset::SuppPubInfo> {
    Some(coset::SuppPubInfo {
        key_data_length: s.key_data_length,
        protected: b_prot(&s.prot)?,
        other: s.other.clone(),
    })
}

/// The KDF context has private fields, so a literal is impossible: it is obtained through the
/// Value-level API from its model encoding (which is exactly what a caller without the builder
/// would do).  `build_kdf_via_builder` is the builder route, used where the algorithm is a
/// registered name.
pub fn b_kdf(k: &MKdf) -> Option<coset::CoseKdfContext> {
    let it = encode(&MVal::Kdf(k.clone()));
    match guard(|| coset::CoseKdfContext::from_cbor_value(item_to_value(&it))) {
        Ok(Ok(v)) => Some(v),
        _ => None,
    }
}

pub fn build(v: &MVal) -> Option<CVal> {
    Some(match v {
        MVal::Header(h) => CVal::Header(b_header(h)?),
        MVal::ProtMap(p) => CVal::ProtMap(b_prot(p)?),
        MVal::Signature(s) => CVal::Signature(b_sig(s)?),
        MVal::Sign(s) => CVal::Sign(coset::CoseSign {
            protected: b_prot(&s.prot)?,
            unprotected: b_header(&s.unprot)?,
            payload: s.payload.clone(),
            signatures: s.sigs.iter().map(b_sig).collect::<Option<Vec<_>>>()?,
        }),
        MVal::Sign1(s) => CVal::Sign1(coset::CoseSign1 {
            protected: b_prot(&s.prot)?,
            unprotected: b_header(&s.unprot)?,
            payload: s.payload.clone(),
            signature: s.sig.clone(),
        }),
        MVal::Mac(s) => CVal::Mac(coset::CoseMac {
            protected: b_prot(&s.prot)?,
            unprotected: b_header(&s.unprot)?,
            payload: s.payload.clone(),
            tag: s.tag.clone(),
            recipients: s.recipients.iter().map(b_rcp).collect::<Option<Vec<_>>>()?,
        }),
        MVal::Mac0(s) => CVal::Mac0(coset::CoseMac0 {
            protected: b_prot(&s.prot)?,
            unprotected: b_header(&s.unprot)?,
            payload: s.payload.clone(),
            tag: s.tag.clone(),
        }),
        MVal::Encrypt(s) => CVal::Encrypt(coset::CoseEncrypt {
            protected: b_prot(&s.prot)?,
            unprotected: b_header(&s.unprot)?,
            ciphertext: s.ct.clone(),
            recipients: s.recipients.iter().map(b_rcp).collect::<Option<Vec<_>>>()?,
        }),
        MVal::Encrypt0(s) => CVal::Encrypt0(coset::CoseEncrypt0 {
            protected: b_prot(&s.prot)?,
            unprotected: b_header(&s.unprot)?,
            ciphertext: s.ct.clone(),
        }),
        MVal::Recipient(r) => CVal::Recipient(b_rcp(r)?),
        MVal::Key(k) => CVal::Key(b_key(k)?),
        MVal::KeySet(ks) => CVal::KeySet(coset::CoseKeySet(
            ks.iter().map(b_key).collect::<Option<Vec<_>>>()?,
        )),
        MVal::Party(p) => CVal::Party(b_party(p)),
        MVal::SuppPub(s) => CVal::SuppPub(b_supp(s)?),
        MVal::Kdf(k) => CVal::Kdf(b_kdf(k)?),
        MVal::Claims(c) => CVal::Claims(b_claims(c)),
        MVal::Label(l) => CVal::Label(b_label(l)),
        MVal::RegLabel(Reg::CoapContentFormat, l) => CVal::RlContent(b_reg(l)?),
        MVal::RegLabel(Reg::HeaderParameter, l) => CVal::RlHeaderParam(b_reg(l)?),
        MVal::RegLabel(Reg::KeyType, l) => CVal::RlKeyType(b_reg(l)?),
        MVal::RegLabel(Reg::KeyOperation, l) => CVal::RlKeyOp(b_reg(l)?),
        MVal::RegLabelPriv(Reg::Algorithm, l) => CVal::RlpAlg(b_regp(l)),
        MVal::RegLabelPriv(Reg::CwtClaimName, l) => CVal::RlpClaim(b_regp(l)),
        MVal::RegLabelPriv(Reg::HeaderParameter, l) => CVal::RlpHeaderParam(b_regp(l)),
        MVal::RegLabelPriv(Reg::EllipticCurve, l) => CVal::RlpCurve(b_regp(l)),
        _ => return None,
    })
}

// ---------------------------------------------------------------------------------------------
// probe of the crate's typed-entry emission order (see model::Orders)

fn key_order(bytes: &[u8], typed: &[i64]) -> Option<Vec<i64>> {
    match crate::rcbor::decode(bytes).ok()? {
        Item::Map(m) => {
            let mut out = Vec::new();
            for (k, _) in m {
                if let Item::Int(i) = k {
                    if typed.contains(&(i as i64)) && !out.contains(&(i as i64)) {
                        out.push(i as i64);
                    }
                }
            }
            if out.len() == typed.len() {
                Some(out)
            } else {
                None
            }
        }
        _ => None,
    }
}

/// Encode one fully populated header / key / claims set and read off the order of the typed
/// labels.  IV and Partial IV cannot both be present in a well-formed header, so two probes are
/// merged.  Any failure leaves the natural order in place (the checks will then report whatever
/// is wrong through their own oracles).
pub fn probe_orders() {
    if ORDERS.get().is_some() {
        return;
    }
    let natural = Orders { header: vec![1, 2, 3, 4, 5, 6, 7], key: vec![1, 2, 3, 4, 5], claims: vec![1, 2, 3, 4, 5, 6, 7] };
    let mut h = MHeader::default();
    h.alg = Some(MLabel::Int(-7));
    h.crit = vec![MLabel::Int(4)];
    h.ct = Some(MLabel::Int(60));
    h.kid = vec![1];
    h.iv = vec![2];
    h.csigs = vec![MSignature::default()];
    let mut h2 = h.clone();
    h2.iv = vec![];
    h2.piv = vec![3];
    let enc = |h: &MHeader| b_header(h).and_then(|c| to_vec(CVal::Header(c)).ok());
    let header = (|| {
        let a = key_order(&enc(&h)?, &[1, 2, 3, 4, 5, 7])?;
        let b = key_order(&enc(&h2)?, &[1, 2, 3, 4, 6, 7])?;
        // merge: insert 6 into a at the position it has in b relative to its predecessor
        let pos6 = b.iter().position(|x| *x == 6)?;
        let mut out = a.clone();
        let at = if pos6 == 0 { 0 } else { out.iter().position(|x| *x == b[pos6 - 1]).map(|p| p + 1).unwrap_or(out.len()) };
        // keep 5 before 6 when they are neighbours in the natural order
        let at = if out.get(at) == Some(&5) { at + 1 } else { at };
        out.insert(at, 6);
        Some(out)
    })()
    .unwrap_or_else(|| natural.header.clone());
    let k = MKey { kty: MLabel::Int(2), kid: vec![1], alg: Some(MLabel::Int(-7)), key_ops: vec![MLabel::Int(1)], base_iv: vec![2], params: vec![] };
    let key = b_key(&k).and_then(|c| to_vec(CVal::Key(c)).ok()).and_then(|b| key_order(&b, &[1, 2, 3, 4, 5])).unwrap_or_else(|| natural.key.clone());
    let c = MClaims { iss: Some("i".into()), sub: Some("s".into()), aud: Some("a".into()), exp: Some(MTime::Int(1)), nbf: Some(MTime::Int(2)), iat: Some(MTime::Int(3)), cti: Some(vec![1]), rest: vec![] };
    let claims = to_vec(CVal::Claims(b_claims(&c))).ok().and_then(|b| key_order(&b, &[1, 2, 3, 4, 5, 6, 7])).unwrap_or_else(|| natural.claims.clone());
    let _ = ORDERS.set(Orders { header, key, claims });
}
