//! E3 resource monitor: a counting global allocator (per-thread counters) with a stack probe and a
//! hard cap.  Compiled out with feature `no-alloc-monitor` so that leak detectors see the real
//! allocator.

use std::alloc::{GlobalAlloc, Layout, System};
use std::cell::Cell;

pub struct CountingAlloc;

thread_local! {
    static ENABLED: Cell<bool> = const { Cell::new(false) };
    static LIVE: Cell<usize> = const { Cell::new(0) };
    static PEAK: Cell<usize> = const { Cell::new(0) };
    static TOTAL: Cell<usize> = const { Cell::new(0) };
    static CALLS: Cell<usize> = const { Cell::new(0) };
    static MAXREQ: Cell<usize> = const { Cell::new(0) };
    static STACK_LOW: Cell<usize> = const { Cell::new(usize::MAX) };
    static CAP: Cell<usize> = const { Cell::new(usize::MAX) };
}

#[derive(Clone, Copy, Debug, Default)]
pub struct AllocStats {
    pub peak: usize,
    pub total: usize,
    pub calls: usize,
    pub max_request: usize,
    /// lowest stack address observed inside an allocator call (0 if none)
    pub stack_low: usize,
    pub live_end: usize,
}

#[inline(never)]
fn note(size: usize) -> bool {
    let marker = 0u8;
    let addr = &marker as *const u8 as usize;
    ENABLED.with(|e| {
        if !e.get() {
            return true;
        }
        let live = LIVE.with(|c| {
            let v = c.get() + size;
            c.set(v);
            v
        });
        if live > CAP.with(|c| c.get()) {
            return false;
        }
        PEAK.with(|c| {
            if live > c.get() {
                c.set(live)
            }
        });
        TOTAL.with(|c| c.set(c.get() + size));
        CALLS.with(|c| c.set(c.get() + 1));
        MAXREQ.with(|c| {
            if size > c.get() {
                c.set(size)
            }
        });
        STACK_LOW.with(|c| {
            if addr < c.get() {
                c.set(addr)
            }
        });
        true
    })
}

fn unnote(size: usize) {
    ENABLED.with(|e| {
        if e.get() {
            LIVE.with(|c| c.set(c.get().saturating_sub(size)));
        }
    })
}

unsafe impl GlobalAlloc for CountingAlloc {
    unsafe fn alloc(&self, l: Layout) -> *mut u8 {
        if !note(l.size()) {
            // over the hard cap: fail the allocation, which aborts the process with
            // "memory allocation of N bytes failed" (attributed by the parent process)
            return std::ptr::null_mut();
        }
        System.alloc(l)
    }
    unsafe fn dealloc(&self, p: *mut u8, l: Layout) {
        unnote(l.size());
        System.dealloc(p, l)
    }
    unsafe fn alloc_zeroed(&self, l: Layout) -> *mut u8 {
        if !note(l.size()) {
            return std::ptr::null_mut();
        }
        System.alloc_zeroed(l)
    }
    unsafe fn realloc(&self, p: *mut u8, l: Layout, new: usize) -> *mut u8 {
        if new > l.size() {
            if !note(new - l.size()) {
                return std::ptr::null_mut();
            }
        } else {
            unnote(l.size() - new);
        }
        System.realloc(p, l, new)
    }
}

/// Start measuring on this thread; `cap` is the hard limit on live bytes (usize::MAX for none).
pub fn start(cap: usize) {
    LIVE.with(|c| c.set(0));
    PEAK.with(|c| c.set(0));
    TOTAL.with(|c| c.set(0));
    CALLS.with(|c| c.set(0));
    MAXREQ.with(|c| c.set(0));
    STACK_LOW.with(|c| c.set(usize::MAX));
    CAP.with(|c| c.set(cap));
    ENABLED.with(|c| c.set(true));
}

pub fn stop() -> AllocStats {
    ENABLED.with(|c| c.set(false));
    let sl = STACK_LOW.with(|c| c.get());
    AllocStats {
        peak: PEAK.with(|c| c.get()),
        total: TOTAL.with(|c| c.get()),
        calls: CALLS.with(|c| c.get()),
        max_request: MAXREQ.with(|c| c.get()),
        stack_low: if sl == usize::MAX { 0 } else { sl },
        live_end: LIVE.with(|c| c.get()),
    }
}

/// Address of a local of the caller's frame: the reference point for stack-depth estimates.
#[inline(never)]
pub fn stack_here() -> usize {
    let marker = 0u8;
    &marker as *const u8 as usize
}
