//! Minimal JSON value, writer and parser (no external crates are available offline for this).

#[derive(Clone, Debug, PartialEq)]
pub enum J {
    Null,
    Bool(bool),
    Int(i64),
    UInt(u64),
    Num(f64),
    Str(String),
    Arr(Vec<J>),
    Obj(Vec<(String, J)>),
}

impl J {
    pub fn s(x: &str) -> J {
        J::Str(x.to_string())
    }
    pub fn obj(v: Vec<(&str, J)>) -> J {
        J::Obj(v.into_iter().map(|(k, v)| (k.to_string(), v)).collect())
    }
    pub fn get(&self, k: &str) -> Option<&J> {
        match self {
            J::Obj(v) => v.iter().find(|(kk, _)| kk == k).map(|(_, v)| v),
            _ => None,
        }
    }
    pub fn as_str(&self) -> Option<&str> {
        match self {
            J::Str(s) => Some(s),
            _ => None,
        }
    }
    pub fn as_u64(&self) -> Option<u64> {
        match self {
            J::UInt(u) => Some(*u),
            J::Int(i) if *i >= 0 => Some(*i as u64),
            J::Num(f) if *f >= 0.0 => Some(*f as u64),
            _ => None,
        }
    }
    pub fn write(&self, out: &mut String) {
        match self {
            J::Null => out.push_str("null"),
            J::Bool(b) => out.push_str(if *b { "true" } else { "false" }),
            J::Int(i) => out.push_str(&i.to_string()),
            J::UInt(i) => out.push_str(&i.to_string()),
            J::Num(f) => {
                if f.is_finite() {
                    out.push_str(&format!("{}", f))
                } else {
                    out.push_str("null")
                }
            }
            J::Str(s) => write_str(s, out),
            J::Arr(a) => {
                out.push('[');
                for (i, x) in a.iter().enumerate() {
                    if i > 0 {
                        out.push(',');
                    }
                    x.write(out);
                }
                out.push(']');
            }
            J::Obj(o) => {
                out.push('{');
                for (i, (k, v)) in o.iter().enumerate() {
                    if i > 0 {
                        out.push(',');
                    }
                    write_str(k, out);
                    out.push(':');
                    v.write(out);
                }
                out.push('}');
            }
        }
    }
    pub fn to_string(&self) -> String {
        let mut s = String::new();
        self.write(&mut s);
        s
    }
}

fn write_str(s: &str, out: &mut String) {
    out.push('"');
    for c in s.chars() {
        match c {
            '"' => out.push_str("\\\""),
            '\\' => out.push_str("\\\\"),
            '\n' => out.push_str("\\n"),
            '\r' => out.push_str("\\r"),
            '\t' => out.push_str("\\t"),
            c if (c as u32) < 0x20 => out.push_str(&format!("\\u{:04x}", c as u32)),
            c => out.push(c),
        }
    }
    out.push('"');
}

pub fn parse(s: &str) -> Option<J> {
    let b = s.as_bytes();
    let mut p = 0usize;
    let v = parse_val(b, &mut p)?;
    skip_ws(b, &mut p);
    if p == b.len() {
        Some(v)
    } else {
        None
    }
}

fn skip_ws(b: &[u8], p: &mut usize) {
    while *p < b.len() && (b[*p] as char).is_ascii_whitespace() {
        *p += 1;
    }
}

fn parse_val(b: &[u8], p: &mut usize) -> Option<J> {
    skip_ws(b, p);
    if *p >= b.len() {
        return None;
    }
    match b[*p] {
        b'n' => lit(b, p, "null", J::Null),
        b't' => lit(b, p, "true", J::Bool(true)),
        b'f' => lit(b, p, "false", J::Bool(false)),
        b'"' => parse_str(b, p).map(J::Str),
        b'[' => {
            *p += 1;
            let mut v = Vec::new();
            skip_ws(b, p);
            if *p < b.len() && b[*p] == b']' {
                *p += 1;
                return Some(J::Arr(v));
            }
            loop {
                v.push(parse_val(b, p)?);
                skip_ws(b, p);
                if *p >= b.len() {
                    return None;
                }
                if b[*p] == b',' {
                    *p += 1;
                } else if b[*p] == b']' {
                    *p += 1;
                    return Some(J::Arr(v));
                } else {
                    return None;
                }
            }
        }
        b'{' => {
            *p += 1;
            let mut v = Vec::new();
            skip_ws(b, p);
            if *p < b.len() && b[*p] == b'}' {
                *p += 1;
                return Some(J::Obj(v));
            }
            loop {
                skip_ws(b, p);
                let k = parse_str(b, p)?;
                skip_ws(b, p);
                if *p >= b.len() || b[*p] != b':' {
                    return None;
                }
                *p += 1;
                let val = parse_val(b, p)?;
                v.push((k, val));
                skip_ws(b, p);
                if *p >= b.len() {
                    return None;
                }
                if b[*p] == b',' {
                    *p += 1;
                } else if b[*p] == b'}' {
                    *p += 1;
                    return Some(J::Obj(v));
                } else {
                    return None;
                }
            }
        }
        _ => {
            let st = *p;
            while *p < b.len() && matches!(b[*p], b'0'..=b'9' | b'-' | b'+' | b'.' | b'e' | b'E') {
                *p += 1;
            }
            let t = std::str::from_utf8(&b[st..*p]).ok()?;
            if let Ok(u) = t.parse::<u64>() {
                Some(J::UInt(u))
            } else if let Ok(i) = t.parse::<i64>() {
                Some(J::Int(i))
            } else {
                t.parse::<f64>().ok().map(J::Num)
            }
        }
    }
}

fn lit(b: &[u8], p: &mut usize, w: &str, v: J) -> Option<J> {
    if b[*p..].starts_with(w.as_bytes()) {
        *p += w.len();
        Some(v)
    } else {
        None
    }
}

fn parse_str(b: &[u8], p: &mut usize) -> Option<String> {
    if *p >= b.len() || b[*p] != b'"' {
        return None;
    }
    *p += 1;
    let mut out: Vec<u8> = Vec::new();
    while *p < b.len() {
        match b[*p] {
            b'"' => {
                *p += 1;
                return String::from_utf8(out).ok();
            }
            b'\\' => {
                *p += 1;
                if *p >= b.len() {
                    return None;
                }
                match b[*p] {
                    b'n' => out.push(b'\n'),
                    b'r' => out.push(b'\r'),
                    b't' => out.push(b'\t'),
                    b'b' => out.push(8),
                    b'f' => out.push(12),
                    b'u' => {
                        let h = std::str::from_utf8(b.get(*p + 1..*p + 5)?).ok()?;
                        let c = u32::from_str_radix(h, 16).ok()?;
                        let ch = char::from_u32(c).unwrap_or('\u{fffd}');
                        let mut buf = [0u8; 4];
                        out.extend_from_slice(ch.encode_utf8(&mut buf).as_bytes());
                        *p += 4;
                    }
                    c => out.push(c),
                }
                *p += 1;
            }
            c => {
                out.push(c);
                *p += 1;
            }
        }
    }
    None
}
