//! Executable reference semantics of the structures, written from RFC 8152 (sections 3.1, 4-7, 11,
//! 13), RFC 8392 section 3 and the property statements - not from coset's code, and using neither
//! coset nor ciborium types.  Input is an `rcbor::Item` already normalised by N1.

use crate::rcbor::{self, DecErr, Item};
use crate::registry::{self, Reg};

#[derive(Clone, Debug, PartialEq, Eq, Hash, PartialOrd, Ord)]
pub enum MLabel {
    Int(i64),
    Text(String),
}

impl MLabel {
    pub fn item(&self) -> Item {
        match self {
            MLabel::Int(i) => Item::int(*i),
            MLabel::Text(t) => Item::Text(t.clone()),
        }
    }
}

#[derive(Clone, Debug, PartialEq, Default)]
pub struct MHeader {
    pub alg: Option<MLabel>,
    pub crit: Vec<MLabel>,
    pub ct: Option<MLabel>,
    pub kid: Vec<u8>,
    pub iv: Vec<u8>,
    pub piv: Vec<u8>,
    pub csigs: Vec<MSignature>,
    pub rest: Vec<(MLabel, Item)>,
}

impl MHeader {
    pub fn is_empty(&self) -> bool {
        self.alg.is_none()
            && self.crit.is_empty()
            && self.ct.is_none()
            && self.kid.is_empty()
            && self.iv.is_empty()
            && self.piv.is_empty()
            && self.csigs.is_empty()
            && self.rest.is_empty()
    }
}

#[derive(Clone, Debug, PartialEq, Default)]
pub struct MProt {
    /// retained wire bytes (content of the bstr), if the value came from the wire
    pub bytes: Option<Vec<u8>>,
    pub header: MHeader,
}

#[derive(Clone, Debug, PartialEq, Default)]
pub struct MSignature {
    pub prot: MProt,
    pub unprot: MHeader,
    pub sig: Vec<u8>,
}

#[derive(Clone, Debug, PartialEq, Default)]
pub struct MRecipient {
    pub prot: MProt,
    pub unprot: MHeader,
    pub ct: Option<Vec<u8>>,
    pub recipients: Vec<MRecipient>,
}

#[derive(Clone, Debug, PartialEq, Default)]
pub struct MSign {
    pub prot: MProt,
    pub unprot: MHeader,
    pub payload: Option<Vec<u8>>,
    pub sigs: Vec<MSignature>,
}

#[derive(Clone, Debug, PartialEq, Default)]
pub struct MSign1 {
    pub prot: MProt,
    pub unprot: MHeader,
    pub payload: Option<Vec<u8>>,
    pub sig: Vec<u8>,
}

#[derive(Clone, Debug, PartialEq, Default)]
pub struct MMac {
    pub prot: MProt,
    pub unprot: MHeader,
    pub payload: Option<Vec<u8>>,
    pub tag: Vec<u8>,
    pub recipients: Vec<MRecipient>,
}

#[derive(Clone, Debug, PartialEq, Default)]
pub struct MMac0 {
    pub prot: MProt,
    pub unprot: MHeader,
    pub payload: Option<Vec<u8>>,
    pub tag: Vec<u8>,
}

#[derive(Clone, Debug, PartialEq, Default)]
pub struct MEncrypt {
    pub prot: MProt,
    pub unprot: MHeader,
    pub ct: Option<Vec<u8>>,
    pub recipients: Vec<MRecipient>,
}

#[derive(Clone, Debug, PartialEq, Default)]
pub struct MEncrypt0 {
    pub prot: MProt,
    pub unprot: MHeader,
    pub ct: Option<Vec<u8>>,
}

#[derive(Clone, Debug, PartialEq)]
pub struct MKey {
    pub kty: MLabel,
    pub kid: Vec<u8>,
    pub alg: Option<MLabel>,
    /// as a set: kept sorted and deduplicated
    pub key_ops: Vec<MLabel>,
    pub base_iv: Vec<u8>,
    pub params: Vec<(MLabel, Item)>,
}

#[derive(Clone, Debug, PartialEq)]
pub enum MTime {
    Int(i64),
    Float(Item), // Item::Float, compared by (NaN-canonical) bits
}

#[derive(Clone, Debug, PartialEq, Default)]
pub struct MClaims {
    pub iss: Option<String>,
    pub sub: Option<String>,
    pub aud: Option<String>,
    pub exp: Option<MTime>,
    pub nbf: Option<MTime>,
    pub iat: Option<MTime>,
    pub cti: Option<Vec<u8>>,
    pub rest: Vec<(MLabel, Item)>,
}

#[derive(Clone, Debug, PartialEq)]
pub enum MNonce {
    Bytes(Vec<u8>),
    Int(i64),
}

#[derive(Clone, Debug, PartialEq, Default)]
pub struct MParty {
    pub identity: Option<Vec<u8>>,
    pub nonce: Option<MNonce>,
    pub other: Option<Vec<u8>>,
}

#[derive(Clone, Debug, PartialEq, Default)]
pub struct MSuppPub {
    pub key_data_length: u64,
    pub prot: MProt,
    pub other: Option<Vec<u8>>,
}

#[derive(Clone, Debug, PartialEq)]
pub struct MKdf {
    pub alg: MLabel,
    pub u: MParty,
    pub v: MParty,
    pub supp: MSuppPub,
    pub priv_info: Vec<Vec<u8>>,
}

/// Every type the crate can decode / encode.
#[derive(Clone, Copy, Debug, PartialEq, Eq, Hash, PartialOrd, Ord)]
pub enum Ty {
    Header,
    /// ProtectedHeader decoded from a *map* (its `from_slice`)
    ProtMap,
    Signature,
    Sign,
    Sign1,
    Mac,
    Mac0,
    Encrypt,
    Encrypt0,
    Recipient,
    Key,
    KeySet,
    Party,
    SuppPub,
    Kdf,
    Claims,
    Label,
    /// RegisteredLabel<T> / RegisteredLabelWithPrivate<T>
    RegLabel(Reg),
    RegLabelPriv(Reg),
}

pub const STRUCT_TYPES: [Ty; 16] = [
    Ty::Header,
    Ty::ProtMap,
    Ty::Signature,
    Ty::Sign,
    Ty::Sign1,
    Ty::Mac,
    Ty::Mac0,
    Ty::Encrypt,
    Ty::Encrypt0,
    Ty::Recipient,
    Ty::Key,
    Ty::KeySet,
    Ty::Party,
    Ty::SuppPub,
    Ty::Kdf,
    Ty::Claims,
];

pub const MSG_TYPES: [Ty; 8] = [
    Ty::Sign1,
    Ty::Sign,
    Ty::Signature,
    Ty::Mac,
    Ty::Mac0,
    Ty::Encrypt,
    Ty::Encrypt0,
    Ty::Recipient,
];

pub const TAGGED_TYPES: [Ty; 6] = [Ty::Sign, Ty::Sign1, Ty::Encrypt, Ty::Encrypt0, Ty::Mac, Ty::Mac0];

/// The label types the crate instantiates.
pub const LABEL_TYPES: [Ty; 9] = [
    Ty::Label,
    Ty::RegLabel(Reg::CoapContentFormat),
    Ty::RegLabel(Reg::HeaderParameter),
    Ty::RegLabel(Reg::KeyType),
    Ty::RegLabel(Reg::KeyOperation),
    Ty::RegLabelPriv(Reg::Algorithm),
    Ty::RegLabelPriv(Reg::CwtClaimName),
    Ty::RegLabelPriv(Reg::HeaderParameter),
    Ty::RegLabelPriv(Reg::EllipticCurve),
];

impl Ty {
    pub fn name(&self) -> String {
        match self {
            Ty::RegLabel(r) => format!("RegisteredLabel<{:?}>", r),
            Ty::RegLabelPriv(r) => format!("RegisteredLabelWithPrivate<{:?}>", r),
            t => format!("{:?}", t),
        }
    }
    /// RFC 8152 Table 1 tag, for the six taggable types
    pub fn tag(&self) -> Option<u64> {
        match self {
            Ty::Sign => Some(registry::TAG_SIGN),
            Ty::Sign1 => Some(registry::TAG_SIGN1),
            Ty::Encrypt => Some(registry::TAG_ENCRYPT),
            Ty::Encrypt0 => Some(registry::TAG_ENCRYPT0),
            Ty::Mac => Some(registry::TAG_MAC),
            Ty::Mac0 => Some(registry::TAG_MAC0),
            _ => None,
        }
    }
}

#[derive(Clone, Debug, PartialEq)]
pub enum MVal {
    Header(MHeader),
    ProtMap(MProt),
    Signature(MSignature),
    Sign(MSign),
    Sign1(MSign1),
    Mac(MMac),
    Mac0(MMac0),
    Encrypt(MEncrypt),
    Encrypt0(MEncrypt0),
    Recipient(MRecipient),
    Key(MKey),
    KeySet(Vec<MKey>),
    Party(MParty),
    SuppPub(MSuppPub),
    Kdf(MKdf),
    Claims(MClaims),
    Label(MLabel),
    RegLabel(Reg, MLabel),
    RegLabelPriv(Reg, MLabel),
}

impl MVal {
    pub fn ty(&self) -> Ty {
        match self {
            MVal::Header(_) => Ty::Header,
            MVal::ProtMap(_) => Ty::ProtMap,
            MVal::Signature(_) => Ty::Signature,
            MVal::Sign(_) => Ty::Sign,
            MVal::Sign1(_) => Ty::Sign1,
            MVal::Mac(_) => Ty::Mac,
            MVal::Mac0(_) => Ty::Mac0,
            MVal::Encrypt(_) => Ty::Encrypt,
            MVal::Encrypt0(_) => Ty::Encrypt0,
            MVal::Recipient(_) => Ty::Recipient,
            MVal::Key(_) => Ty::Key,
            MVal::KeySet(_) => Ty::KeySet,
            MVal::Party(_) => Ty::Party,
            MVal::SuppPub(_) => Ty::SuppPub,
            MVal::Kdf(_) => Ty::Kdf,
            MVal::Claims(_) => Ty::Claims,
            MVal::Label(_) => Ty::Label,
            MVal::RegLabel(r, _) => Ty::RegLabel(*r),
            MVal::RegLabelPriv(r, _) => Ty::RegLabelPriv(*r),
        }
    }
}

// ---------------------------------------------------------------------------------------------
// Decoding model

#[derive(Clone, Copy, Debug, PartialEq, Eq)]
pub enum Class {
    Dup,
    OutOfRange,
    Other,
}

#[derive(Clone, Debug, PartialEq, Eq)]
pub struct Rej {
    pub rule: &'static str,
    pub class: Class,
}

#[derive(Clone, Debug, PartialEq)]
pub enum Verdict<T> {
    Accept(T),
    Reject(Rej),
    /// the statement leaves the outcome open (empty signer/recipient arrays, `undefined`,
    /// nesting beyond the modelled depth)
    Unspecified(&'static str),
}

pub struct MCtx {
    pub unspecified: Option<&'static str>,
    pub csig_depth: u32,
    pub max_csig_depth: u32,
}

impl MCtx {
    pub fn new() -> MCtx {
        MCtx {
            unspecified: None,
            csig_depth: 0,
            max_csig_depth: 4,
        }
    }
}

type R<T> = Result<T, Rej>;

fn rej<T>(rule: &'static str) -> R<T> {
    Err(Rej {
        rule,
        class: Class::Other,
    })
}
fn rej_c<T>(rule: &'static str, class: Class) -> R<T> {
    Err(Rej { rule, class })
}

pub fn int_in_i64(v: i128) -> bool {
    v >= i64::MIN as i128 && v <= i64::MAX as i128
}

/// plain label: int in i64 or text
pub fn label(it: &Item) -> R<MLabel> {
    match it {
        Item::Int(v) => {
            if int_in_i64(*v) {
                Ok(MLabel::Int(*v as i64))
            } else {
                rej_c("label.out-of-range", Class::OutOfRange)
            }
        }
        Item::Text(t) => Ok(MLabel::Text(t.clone())),
        _ => rej("label.kind"),
    }
}

/// registry-restricted label without private range
pub fn reg_label(it: &Item, r: Reg) -> R<MLabel> {
    let l = label(it)?;
    if let MLabel::Int(i) = &l {
        if !registry::is_registered(r, *i) {
            return rej("label.unregistered");
        }
    }
    Ok(l)
}

/// registry-restricted label with private range
pub fn reg_label_priv(it: &Item, r: Reg) -> R<MLabel> {
    let l = label(it)?;
    if let MLabel::Int(i) = &l {
        if !registry::is_registered(r, *i) && !(*i < registry::PRIVATE_MAX) {
            return rej("label.unregistered-nonprivate");
        }
    }
    Ok(l)
}

fn nonempty_bytes(it: &Item, rule_kind: &'static str, rule_empty: &'static str) -> R<Vec<u8>> {
    match it {
        Item::Bytes(b) => {
            if b.is_empty() {
                rej(rule_empty)
            } else {
                Ok(b.clone())
            }
        }
        _ => rej(rule_kind),
    }
}

pub fn content_type_text_ok(t: &str) -> Result<(), &'static str> {
    if t.is_empty() {
        return Err("hdr.ct.empty");
    }
    let first = t.chars().next().unwrap();
    let last = t.chars().next_back().unwrap();
    if first.is_whitespace() || last.is_whitespace() {
        return Err("hdr.ct.whitespace");
    }
    if t.chars().filter(|c| *c == '/').count() != 1 {
        return Err("hdr.ct.slash");
    }
    Ok(())
}

pub fn header(it: &Item, cx: &mut MCtx) -> R<MHeader> {
    let m = match it {
        Item::Map(m) => m,
        _ => return rej("hdr.not-map"),
    };
    let mut h = MHeader::default();
    let mut seen: std::collections::HashSet<MLabel> = std::collections::HashSet::new();
    for (k, v) in m {
        let l = label(k)?;
        if seen.contains(&l) {
            return rej_c("hdr.dup", Class::Dup);
        }
        seen.insert(l.clone());
        match l {
            MLabel::Int(1) => h.alg = Some(reg_label_priv(v, Reg::Algorithm).map_err(|e| Rej { rule: match e.rule { "label.kind" => "hdr.alg.kind", "label.out-of-range" => "hdr.alg.range", _ => "hdr.alg.unregistered" }, class: e.class })?),
            MLabel::Int(2) => match v {
                Item::Array(a) => {
                    if a.is_empty() {
                        return rej("hdr.crit.empty");
                    }
                    for x in a {
                        h.crit.push(reg_label(x, Reg::HeaderParameter).map_err(|e| Rej { rule: match e.rule { "label.kind" => "hdr.crit.elem-kind", "label.out-of-range" => "hdr.crit.elem-range", _ => "hdr.crit.elem-unregistered" }, class: e.class })?);
                    }
                }
                _ => return rej("hdr.crit.kind"),
            },
            MLabel::Int(3) => {
                let ct = reg_label(v, Reg::CoapContentFormat).map_err(|e| Rej { rule: match e.rule { "label.kind" => "hdr.ct.kind", "label.out-of-range" => "hdr.ct.range", _ => "hdr.ct.unregistered" }, class: e.class })?;
                if let MLabel::Text(t) = &ct {
                    if let Err(rule) = content_type_text_ok(t) {
                        return rej(rule);
                    }
                }
                h.ct = Some(ct);
            }
            MLabel::Int(4) => h.kid = nonempty_bytes(v, "hdr.kid.kind", "hdr.kid.empty")?,
            MLabel::Int(5) => h.iv = nonempty_bytes(v, "hdr.iv.kind", "hdr.iv.empty")?,
            MLabel::Int(6) => h.piv = nonempty_bytes(v, "hdr.piv.kind", "hdr.piv.empty")?,
            MLabel::Int(7) => {
                let a = match v {
                    Item::Array(a) => a,
                    _ => return rej("hdr.csig.kind"),
                };
                if a.is_empty() {
                    return rej("hdr.csig.empty");
                }
                cx.csig_depth += 1;
                if cx.csig_depth > cx.max_csig_depth {
                    cx.unspecified = Some("counter-signature nesting beyond the modelled depth");
                }
                let r = (|| -> R<Vec<MSignature>> {
                    match &a[0] {
                        Item::Bytes(_) => Ok(vec![signature(v, cx).map_err(|e| Rej { rule: "hdr.csig.single-bad", class: e.class })?]),
                        Item::Array(_) => {
                            let mut out = Vec::new();
                            for s in a {
                                out.push(signature(s, cx).map_err(|e| Rej { rule: "hdr.csig.elem-bad", class: e.class })?);
                            }
                            Ok(out)
                        }
                        _ => rej("hdr.csig.first-kind"),
                    }
                })();
                cx.csig_depth -= 1;
                h.csigs = r?;
            }
            other => h.rest.push((other, v.clone())),
        }
    }
    if !h.iv.is_empty() && !h.piv.is_empty() {
        return rej("hdr.iv-and-piv");
    }
    Ok(h)
}

/// protected header slot: a bstr that is empty or holds exactly one well-formed header map
pub fn prot(it: &Item, cx: &mut MCtx) -> R<MProt> {
    let b = match it {
        Item::Bytes(b) => b,
        _ => return rej("prot.kind"),
    };
    if b.is_empty() {
        return Ok(MProt {
            bytes: Some(vec![]),
            header: MHeader::default(),
        });
    }
    let inner = match rcbor::decode_exact(b) {
        Ok((it, _)) => it,
        Err(DecErr::Trailing(_)) => return rej("prot.trailing"),
        Err(DecErr::Truncated) => return rej("prot.truncated"),
        Err(_) => return rej("prot.malformed"),
    };
    if inner.has_undefined() {
        cx.unspecified = Some("undefined inside protected header");
    }
    if inner.has_quirky_bignum() {
        cx.unspecified = Some("out-of-range bignum inside protected header");
    }
    let h = header(&inner.normalize(), cx)?;
    Ok(MProt {
        bytes: Some(b.clone()),
        header: h,
    })
}

fn arr<'a>(it: &'a Item, rule: &'static str) -> R<&'a Vec<Item>> {
    match it {
        Item::Array(a) => Ok(a),
        _ => rej(rule),
    }
}

fn bstr(it: &Item, rule: &'static str) -> R<Vec<u8>> {
    match it {
        Item::Bytes(b) => Ok(b.clone()),
        _ => rej(rule),
    }
}

fn bstr_or_nil(it: &Item, rule: &'static str) -> R<Option<Vec<u8>>> {
    match it {
        Item::Bytes(b) => Ok(Some(b.clone())),
        Item::Null => Ok(None),
        _ => rej(rule),
    }
}

pub fn signature(it: &Item, cx: &mut MCtx) -> R<MSignature> {
    let a = arr(it, "sig.not-array")?;
    if a.len() != 3 {
        return rej("sig.arity");
    }
    Ok(MSignature {
        prot: prot(&a[0], cx)?,
        unprot: header(&a[1], cx)?,
        sig: bstr(&a[2], "sig.signature-kind")?,
    })
}

pub fn recipient(it: &Item, cx: &mut MCtx) -> R<MRecipient> {
    let a = arr(it, "rcp.not-array")?;
    if a.len() != 3 && a.len() != 4 {
        return rej("rcp.arity");
    }
    let recipients = if a.len() == 4 {
        let ra = arr(&a[3], "rcp.recipients-kind")?;
        if ra.is_empty() {
            cx.unspecified = Some("empty recipients array");
        }
        let mut out = Vec::new();
        for r in ra {
            out.push(recipient(r, cx).map_err(|e| Rej { rule: "rcp.nested-bad", class: e.class })?);
        }
        out
    } else {
        vec![]
    };
    Ok(MRecipient {
        prot: prot(&a[0], cx)?,
        unprot: header(&a[1], cx)?,
        ct: bstr_or_nil(&a[2], "rcp.ciphertext-kind")?,
        recipients,
    })
}

fn recipients(it: &Item, cx: &mut MCtx) -> R<Vec<MRecipient>> {
    let ra = arr(it, "msg.recipients-kind")?;
    if ra.is_empty() {
        cx.unspecified = Some("empty recipients array");
    }
    let mut out = Vec::new();
    for r in ra {
        out.push(recipient(r, cx).map_err(|e| Rej { rule: "msg.recipient-bad", class: e.class })?);
    }
    Ok(out)
}

pub fn sign(it: &Item, cx: &mut MCtx) -> R<MSign> {
    let a = arr(it, "sign.not-array")?;
    if a.len() != 4 {
        return rej("sign.arity");
    }
    let sa = arr(&a[3], "sign.signatures-kind")?;
    if sa.is_empty() {
        cx.unspecified = Some("empty signatures array");
    }
    let mut sigs = Vec::new();
    for s in sa {
        sigs.push(signature(s, cx).map_err(|e| Rej { rule: "sign.signature-bad", class: e.class })?);
    }
    Ok(MSign {
        prot: prot(&a[0], cx)?,
        unprot: header(&a[1], cx)?,
        payload: bstr_or_nil(&a[2], "sign.payload-kind")?,
        sigs,
    })
}

pub fn sign1(it: &Item, cx: &mut MCtx) -> R<MSign1> {
    let a = arr(it, "sign1.not-array")?;
    if a.len() != 4 {
        return rej("sign1.arity");
    }
    Ok(MSign1 {
        prot: prot(&a[0], cx)?,
        unprot: header(&a[1], cx)?,
        payload: bstr_or_nil(&a[2], "sign1.payload-kind")?,
        sig: bstr(&a[3], "sign1.signature-kind")?,
    })
}

pub fn mac(it: &Item, cx: &mut MCtx) -> R<MMac> {
    let a = arr(it, "mac.not-array")?;
    if a.len() != 5 {
        return rej("mac.arity");
    }
    Ok(MMac {
        prot: prot(&a[0], cx)?,
        unprot: header(&a[1], cx)?,
        payload: bstr_or_nil(&a[2], "mac.payload-kind")?,
        tag: bstr(&a[3], "mac.tag-kind")?,
        recipients: recipients(&a[4], cx)?,
    })
}

pub fn mac0(it: &Item, cx: &mut MCtx) -> R<MMac0> {
    let a = arr(it, "mac0.not-array")?;
    if a.len() != 4 {
        return rej("mac0.arity");
    }
    Ok(MMac0 {
        prot: prot(&a[0], cx)?,
        unprot: header(&a[1], cx)?,
        payload: bstr_or_nil(&a[2], "mac0.payload-kind")?,
        tag: bstr(&a[3], "mac0.tag-kind")?,
    })
}

pub fn encrypt(it: &Item, cx: &mut MCtx) -> R<MEncrypt> {
    let a = arr(it, "enc.not-array")?;
    if a.len() != 4 {
        return rej("enc.arity");
    }
    Ok(MEncrypt {
        prot: prot(&a[0], cx)?,
        unprot: header(&a[1], cx)?,
        ct: bstr_or_nil(&a[2], "enc.ciphertext-kind")?,
        recipients: recipients(&a[3], cx)?,
    })
}

pub fn encrypt0(it: &Item, cx: &mut MCtx) -> R<MEncrypt0> {
    let a = arr(it, "enc0.not-array")?;
    if a.len() != 3 {
        return rej("enc0.arity");
    }
    Ok(MEncrypt0 {
        prot: prot(&a[0], cx)?,
        unprot: header(&a[1], cx)?,
        ct: bstr_or_nil(&a[2], "enc0.ciphertext-kind")?,
    })
}

pub fn key(it: &Item, _cx: &mut MCtx) -> R<MKey> {
    let m = match it {
        Item::Map(m) => m,
        _ => return rej("key.not-map"),
    };
    let mut kty: Option<MLabel> = None;
    let mut k = MKey {
        kty: MLabel::Int(0),
        kid: vec![],
        alg: None,
        key_ops: vec![],
        base_iv: vec![],
        params: vec![],
    };
    let mut seen: std::collections::HashSet<MLabel> = std::collections::HashSet::new();
    for (l, v) in m {
        let l = label(l)?;
        if seen.contains(&l) {
            return rej_c("key.dup", Class::Dup);
        }
        seen.insert(l.clone());
        match l {
            MLabel::Int(1) => {
                let t = reg_label(v, Reg::KeyType).map_err(|e| Rej { rule: match e.rule { "label.kind" => "key.kty.kind", "label.out-of-range" => "key.kty.range", _ => "key.kty.unregistered" }, class: e.class })?;
                if t == MLabel::Int(0) {
                    return rej("key.kty.reserved");
                }
                kty = Some(t);
            }
            MLabel::Int(2) => k.kid = nonempty_bytes(v, "key.kid.kind", "key.kid.empty")?,
            MLabel::Int(3) => k.alg = Some(reg_label_priv(v, Reg::Algorithm).map_err(|e| Rej { rule: match e.rule { "label.kind" => "key.alg.kind", "label.out-of-range" => "key.alg.range", _ => "key.alg.unregistered" }, class: e.class })?),
            MLabel::Int(4) => {
                let a = arr(v, "key.ops.kind")?;
                if a.is_empty() {
                    return rej("key.ops.empty");
                }
                for x in a {
                    let op = reg_label(x, Reg::KeyOperation).map_err(|e| Rej { rule: match e.rule { "label.kind" => "key.ops.elem-kind", "label.out-of-range" => "key.ops.elem-range", _ => "key.ops.elem-unregistered" }, class: e.class })?;
                    if k.key_ops.contains(&op) {
                        return rej("key.ops.repeated");
                    }
                    k.key_ops.push(op);
                }
                k.key_ops.sort();
            }
            MLabel::Int(5) => k.base_iv = nonempty_bytes(v, "key.baseiv.kind", "key.baseiv.empty")?,
            other => k.params.push((other, v.clone())),
        }
    }
    match kty {
        Some(t) => k.kty = t,
        None => return rej("key.kty.missing"),
    }
    Ok(k)
}

pub fn keyset(it: &Item, cx: &mut MCtx) -> R<Vec<MKey>> {
    let a = arr(it, "keyset.not-array")?;
    let mut out = Vec::new();
    for x in a {
        out.push(key(x, cx)?);
    }
    Ok(out)
}

pub fn timestamp(it: &Item, rule_kind: &'static str) -> R<MTime> {
    match it {
        Item::Int(v) => {
            if int_in_i64(*v) {
                Ok(MTime::Int(*v as i64))
            } else {
                rej_c("time.out-of-range", Class::OutOfRange)
            }
        }
        Item::Float(_) => Ok(MTime::Float(it.clone())),
        _ => rej(rule_kind),
    }
}

pub fn claims(it: &Item, _cx: &mut MCtx) -> R<MClaims> {
    let m = match it {
        Item::Map(m) => m,
        _ => return rej("cwt.not-map"),
    };
    let mut c = MClaims::default();
    let mut seen: std::collections::HashSet<MLabel> = std::collections::HashSet::new();
    let text = |v: &Item, rule: &'static str| -> R<String> {
        match v {
            Item::Text(t) => Ok(t.clone()),
            _ => rej(rule),
        }
    };
    for (k, v) in m {
        let l = reg_label_priv(k, Reg::CwtClaimName).map_err(|e| Rej { rule: match e.rule { "label.kind" => "cwt.key.kind", "label.out-of-range" => "cwt.key.range", _ => "cwt.key.unregistered" }, class: e.class })?;
        if seen.contains(&l) {
            return rej_c("cwt.dup", Class::Dup);
        }
        seen.insert(l.clone());
        match l {
            MLabel::Int(1) => c.iss = Some(text(v, "cwt.iss.kind")?),
            MLabel::Int(2) => c.sub = Some(text(v, "cwt.sub.kind")?),
            MLabel::Int(3) => c.aud = Some(text(v, "cwt.aud.kind")?),
            MLabel::Int(4) => c.exp = Some(timestamp(v, "cwt.exp.kind")?),
            MLabel::Int(5) => c.nbf = Some(timestamp(v, "cwt.nbf.kind")?),
            MLabel::Int(6) => c.iat = Some(timestamp(v, "cwt.iat.kind")?),
            MLabel::Int(7) => c.cti = Some(bstr(v, "cwt.cti.kind")?),
            other => c.rest.push((other, v.clone())),
        }
    }
    Ok(c)
}

pub fn party(it: &Item, _cx: &mut MCtx) -> R<MParty> {
    let a = arr(it, "party.not-array")?;
    if a.len() != 3 {
        return rej("party.arity");
    }
    let nonce = match &a[1] {
        Item::Null => None,
        Item::Bytes(b) => Some(MNonce::Bytes(b.clone())),
        Item::Int(v) => {
            if int_in_i64(*v) {
                Some(MNonce::Int(*v as i64))
            } else {
                return rej_c("party.nonce.range", Class::OutOfRange);
            }
        }
        _ => return rej("party.nonce.kind"),
    };
    Ok(MParty {
        identity: bstr_or_nil(&a[0], "party.identity.kind")?,
        nonce,
        other: bstr_or_nil(&a[2], "party.other.kind")?,
    })
}

pub fn supp_pub(it: &Item, cx: &mut MCtx) -> R<MSuppPub> {
    let a = arr(it, "supp.not-array")?;
    if a.len() != 2 && a.len() != 3 {
        return rej("supp.arity");
    }
    let kdl = match &a[0] {
        Item::Int(v) => {
            if *v >= 0 && *v <= u64::MAX as i128 {
                *v as u64
            } else {
                return rej_c("supp.keylen.range", Class::OutOfRange);
            }
        }
        _ => return rej("supp.keylen.kind"),
    };
    Ok(MSuppPub {
        key_data_length: kdl,
        prot: prot(&a[1], cx)?,
        other: if a.len() == 3 {
            Some(bstr(&a[2], "supp.other.kind")?)
        } else {
            None
        },
    })
}

pub fn kdf(it: &Item, cx: &mut MCtx) -> R<MKdf> {
    let a = arr(it, "kdf.not-array")?;
    if a.len() < 4 {
        return rej("kdf.arity");
    }
    let mut priv_info = Vec::new();
    for x in &a[4..] {
        priv_info.push(bstr(x, "kdf.priv.kind")?);
    }
    Ok(MKdf {
        alg: reg_label_priv(&a[0], Reg::Algorithm).map_err(|e| Rej { rule: match e.rule { "label.kind" => "kdf.alg.kind", "label.out-of-range" => "kdf.alg.range", _ => "kdf.alg.unregistered" }, class: e.class })?,
        u: party(&a[1], cx).map_err(|e| Rej { rule: "kdf.party-u-bad", class: e.class })?,
        v: party(&a[2], cx).map_err(|e| Rej { rule: "kdf.party-v-bad", class: e.class })?,
        supp: supp_pub(&a[3], cx).map_err(|e| Rej { rule: "kdf.supp-bad", class: e.class })?,
        priv_info,
    })
}

/// Decide an (N1-normalised) item for type `ty`.
pub fn decode(ty: Ty, it: &Item) -> Verdict<MVal> {
    if it.has_undefined() {
        return Verdict::Unspecified("undefined / unassigned simple value in the item");
    }
    if it.has_quirky_bignum() {
        return Verdict::Unspecified("tag 2/3 over a short byte string whose value is outside [-2^64, 2^64-1]");
    }
    let mut cx = MCtx::new();
    let r: R<MVal> = match ty {
        Ty::Header => header(it, &mut cx).map(MVal::Header),
        Ty::ProtMap => header(it, &mut cx).map(|h| {
            MVal::ProtMap(MProt {
                bytes: None,
                header: h,
            })
        }),
        Ty::Signature => signature(it, &mut cx).map(MVal::Signature),
        Ty::Sign => sign(it, &mut cx).map(MVal::Sign),
        Ty::Sign1 => sign1(it, &mut cx).map(MVal::Sign1),
        Ty::Mac => mac(it, &mut cx).map(MVal::Mac),
        Ty::Mac0 => mac0(it, &mut cx).map(MVal::Mac0),
        Ty::Encrypt => encrypt(it, &mut cx).map(MVal::Encrypt),
        Ty::Encrypt0 => encrypt0(it, &mut cx).map(MVal::Encrypt0),
        Ty::Recipient => recipient(it, &mut cx).map(MVal::Recipient),
        Ty::Key => key(it, &mut cx).map(MVal::Key),
        Ty::KeySet => keyset(it, &mut cx).map(MVal::KeySet),
        Ty::Party => party(it, &mut cx).map(MVal::Party),
        Ty::SuppPub => supp_pub(it, &mut cx).map(MVal::SuppPub),
        Ty::Kdf => kdf(it, &mut cx).map(MVal::Kdf),
        Ty::Claims => claims(it, &mut cx).map(MVal::Claims),
        Ty::Label => label(it).map(MVal::Label),
        Ty::RegLabel(r) => reg_label(it, r).map(|l| MVal::RegLabel(r, l)),
        Ty::RegLabelPriv(r) => reg_label_priv(it, r).map(|l| MVal::RegLabelPriv(r, l)),
    };
    if let Some(u) = cx.unspecified {
        return Verdict::Unspecified(u);
    }
    match r {
        Ok(v) => Verdict::Accept(v),
        Err(e) => Verdict::Reject(e),
    }
}

/// Decide bytes for type `ty` (byte-level entry point): exactly one well-formed item, then `decode`.
pub fn decode_bytes(ty: Ty, b: &[u8]) -> Verdict<MVal> {
    match rcbor::decode_exact(b) {
        Ok((it, _)) => decode(ty, &it.normalize()),
        Err(DecErr::Trailing(_)) => Verdict::Reject(Rej {
            rule: "bytes.trailing",
            class: Class::Other,
        }),
        Err(DecErr::Truncated) => Verdict::Reject(Rej {
            rule: "bytes.truncated",
            class: Class::Other,
        }),
        Err(_) => Verdict::Reject(Rej {
            rule: "bytes.malformed",
            class: Class::Other,
        }),
    }
}

// ---------------------------------------------------------------------------------------------
// Encoding model: the CDDL shape of a value

fn opt_bytes(b: &Option<Vec<u8>>) -> Item {
    match b {
        Some(b) => Item::Bytes(b.clone()),
        None => Item::Null,
    }
}

/// Order in which the crate emits the typed entries of its three map types.  No property fixes
/// that order (C11 compares maps modulo entry order), so it is *probed* from the crate once per
/// process (`capi::probe_orders`) and the model then emits in the same order; the default is the
/// natural order.
#[derive(Clone, Debug)]
pub struct Orders {
    pub header: Vec<i64>,
    pub key: Vec<i64>,
    pub claims: Vec<i64>,
}

pub static ORDERS: std::sync::OnceLock<Orders> = std::sync::OnceLock::new();

fn reorder(typed: Vec<(Item, Item)>, order: Option<&Vec<i64>>) -> Vec<(Item, Item)> {
    match order {
        None => typed,
        Some(o) => {
            let mut out = Vec::new();
            let mut rest = typed;
            for l in o {
                if let Some(pos) = rest.iter().position(|(k, _)| *k == Item::int(*l)) {
                    out.push(rest.remove(pos));
                }
            }
            out.extend(rest);
            out
        }
    }
}

pub fn enc_header(h: &MHeader) -> Item {
    let mut m: Vec<(Item, Item)> = Vec::new();
    if let Some(a) = &h.alg {
        m.push((Item::int(1), a.item()));
    }
    if !h.crit.is_empty() {
        m.push((Item::int(2), Item::Array(h.crit.iter().map(|l| l.item()).collect())));
    }
    if let Some(c) = &h.ct {
        m.push((Item::int(3), c.item()));
    }
    if !h.kid.is_empty() {
        m.push((Item::int(4), Item::Bytes(h.kid.clone())));
    }
    if !h.iv.is_empty() {
        m.push((Item::int(5), Item::Bytes(h.iv.clone())));
    }
    if !h.piv.is_empty() {
        m.push((Item::int(6), Item::Bytes(h.piv.clone())));
    }
    if h.csigs.len() == 1 {
        m.push((Item::int(7), enc_signature(&h.csigs[0])));
    } else if h.csigs.len() > 1 {
        m.push((Item::int(7), Item::Array(h.csigs.iter().map(enc_signature).collect())));
    }
    let mut m = reorder(m, ORDERS.get().map(|o| &o.header));
    for (l, v) in &h.rest {
        m.push((l.item(), v.clone()));
    }
    Item::Map(m)
}

/// protected slot: retained bytes if any; else h'' for an empty header; else bstr(det(map))
pub fn enc_prot(p: &MProt) -> Item {
    match &p.bytes {
        Some(b) => Item::Bytes(b.clone()),
        None => {
            if p.header.is_empty() {
                Item::Bytes(vec![])
            } else {
                Item::Bytes(rcbor::det(&enc_header(&p.header)))
            }
        }
    }
}

pub fn enc_signature(s: &MSignature) -> Item {
    Item::Array(vec![enc_prot(&s.prot), enc_header(&s.unprot), Item::Bytes(s.sig.clone())])
}

pub fn enc_recipient(r: &MRecipient) -> Item {
    let mut v = vec![enc_prot(&r.prot), enc_header(&r.unprot), opt_bytes(&r.ct)];
    if !r.recipients.is_empty() {
        v.push(Item::Array(r.recipients.iter().map(enc_recipient).collect()));
    }
    Item::Array(v)
}

pub fn enc_key(k: &MKey) -> Item {
    let mut m: Vec<(Item, Item)> = vec![(Item::int(1), k.kty.item())];
    if !k.kid.is_empty() {
        m.push((Item::int(2), Item::Bytes(k.kid.clone())));
    }
    if let Some(a) = &k.alg {
        m.push((Item::int(3), a.item()));
    }
    if !k.key_ops.is_empty() {
        m.push((Item::int(4), Item::Array(k.key_ops.iter().map(|l| l.item()).collect())));
    }
    if !k.base_iv.is_empty() {
        m.push((Item::int(5), Item::Bytes(k.base_iv.clone())));
    }
    let mut m = reorder(m, ORDERS.get().map(|o| &o.key));
    for (l, v) in &k.params {
        m.push((l.item(), v.clone()));
    }
    Item::Map(m)
}

fn enc_time(t: &MTime) -> Item {
    match t {
        MTime::Int(i) => Item::int(*i),
        MTime::Float(f) => f.clone(),
    }
}

pub fn enc_claims(c: &MClaims) -> Item {
    let mut m: Vec<(Item, Item)> = Vec::new();
    if let Some(x) = &c.iss {
        m.push((Item::int(1), Item::Text(x.clone())));
    }
    if let Some(x) = &c.sub {
        m.push((Item::int(2), Item::Text(x.clone())));
    }
    if let Some(x) = &c.aud {
        m.push((Item::int(3), Item::Text(x.clone())));
    }
    if let Some(x) = &c.exp {
        m.push((Item::int(4), enc_time(x)));
    }
    if let Some(x) = &c.nbf {
        m.push((Item::int(5), enc_time(x)));
    }
    if let Some(x) = &c.iat {
        m.push((Item::int(6), enc_time(x)));
    }
    if let Some(x) = &c.cti {
        m.push((Item::int(7), Item::Bytes(x.clone())));
    }
    let mut m = reorder(m, ORDERS.get().map(|o| &o.claims));
    for (l, v) in &c.rest {
        m.push((l.item(), v.clone()));
    }
    Item::Map(m)
}

pub fn enc_party(p: &MParty) -> Item {
    Item::Array(vec![
        opt_bytes(&p.identity),
        match &p.nonce {
            None => Item::Null,
            Some(MNonce::Bytes(b)) => Item::Bytes(b.clone()),
            Some(MNonce::Int(i)) => Item::int(*i),
        },
        opt_bytes(&p.other),
    ])
}

pub fn enc_supp(s: &MSuppPub) -> Item {
    let mut v = vec![Item::uint(s.key_data_length), enc_prot(&s.prot)];
    if let Some(o) = &s.other {
        v.push(Item::Bytes(o.clone()));
    }
    Item::Array(v)
}

pub fn encode(v: &MVal) -> Item {
    match v {
        MVal::Header(h) => enc_header(h),
        MVal::ProtMap(p) => enc_header(&p.header),
        MVal::Signature(s) => enc_signature(s),
        MVal::Sign(s) => Item::Array(vec![
            enc_prot(&s.prot),
            enc_header(&s.unprot),
            opt_bytes(&s.payload),
            Item::Array(s.sigs.iter().map(enc_signature).collect()),
        ]),
        MVal::Sign1(s) => Item::Array(vec![
            enc_prot(&s.prot),
            enc_header(&s.unprot),
            opt_bytes(&s.payload),
            Item::Bytes(s.sig.clone()),
        ]),
        MVal::Mac(s) => Item::Array(vec![
            enc_prot(&s.prot),
            enc_header(&s.unprot),
            opt_bytes(&s.payload),
            Item::Bytes(s.tag.clone()),
            Item::Array(s.recipients.iter().map(enc_recipient).collect()),
        ]),
        MVal::Mac0(s) => Item::Array(vec![
            enc_prot(&s.prot),
            enc_header(&s.unprot),
            opt_bytes(&s.payload),
            Item::Bytes(s.tag.clone()),
        ]),
        MVal::Encrypt(s) => Item::Array(vec![
            enc_prot(&s.prot),
            enc_header(&s.unprot),
            opt_bytes(&s.ct),
            Item::Array(s.recipients.iter().map(enc_recipient).collect()),
        ]),
        MVal::Encrypt0(s) => Item::Array(vec![enc_prot(&s.prot), enc_header(&s.unprot), opt_bytes(&s.ct)]),
        MVal::Recipient(r) => enc_recipient(r),
        MVal::Key(k) => enc_key(k),
        MVal::KeySet(ks) => Item::Array(ks.iter().map(enc_key).collect()),
        MVal::Party(p) => enc_party(p),
        MVal::SuppPub(s) => enc_supp(s),
        MVal::Kdf(k) => {
            let mut v = vec![k.alg.item(), enc_party(&k.u), enc_party(&k.v), enc_supp(&k.supp)];
            for p in &k.priv_info {
                v.push(Item::Bytes(p.clone()));
            }
            Item::Array(v)
        }
        MVal::Claims(c) => enc_claims(c),
        MVal::Label(l) | MVal::RegLabel(_, l) | MVal::RegLabelPriv(_, l) => l.item(),
    }
}

/// Typed (standard) integer labels of the map a type encodes to, for "modulo order of the typed
/// entries" comparisons.
pub fn typed_labels(ty: Ty) -> &'static [i64] {
    match ty {
        Ty::Header | Ty::ProtMap => &[1, 2, 3, 4, 5, 6, 7],
        Ty::Key => &[1, 2, 3, 4, 5],
        Ty::Claims => &[1, 2, 3, 4, 5, 6, 7],
        _ => &[],
    }
}

/// After a value is encoded, its protected headers carry the bytes that encoding assigned them.
pub fn assign_prot_bytes(v: &mut MVal) {
    fn p(p: &mut MProt) {
        hdr(&mut p.header);
        if p.bytes.is_none() {
            p.bytes = Some(if p.header.is_empty() {
                vec![]
            } else {
                rcbor::det(&enc_header(&p.header))
            });
        }
    }
    fn hdr(h: &mut MHeader) {
        for s in h.csigs.iter_mut() {
            sig(s);
        }
    }
    fn sig(s: &mut MSignature) {
        p(&mut s.prot);
        hdr(&mut s.unprot);
    }
    fn rcp(r: &mut MRecipient) {
        p(&mut r.prot);
        hdr(&mut r.unprot);
        for x in r.recipients.iter_mut() {
            rcp(x);
        }
    }
    match v {
        MVal::Header(h) => hdr(h),
        MVal::ProtMap(x) => hdr(&mut x.header),
        MVal::Signature(s) => sig(s),
        MVal::Sign(s) => {
            p(&mut s.prot);
            hdr(&mut s.unprot);
            for x in s.sigs.iter_mut() {
                sig(x);
            }
        }
        MVal::Sign1(s) => {
            p(&mut s.prot);
            hdr(&mut s.unprot);
        }
        MVal::Mac(s) => {
            p(&mut s.prot);
            hdr(&mut s.unprot);
            for x in s.recipients.iter_mut() {
                rcp(x);
            }
        }
        MVal::Mac0(s) => {
            p(&mut s.prot);
            hdr(&mut s.unprot);
        }
        MVal::Encrypt(s) => {
            p(&mut s.prot);
            hdr(&mut s.unprot);
            for x in s.recipients.iter_mut() {
                rcp(x);
            }
        }
        MVal::Encrypt0(s) => {
            p(&mut s.prot);
            hdr(&mut s.unprot);
        }
        MVal::Recipient(r) => rcp(r),
        MVal::SuppPub(s) => p(&mut s.prot),
        MVal::Kdf(k) => p(&mut k.supp.prot),
        _ => {}
    }
}

/// Forget all retained protected bytes (what a caller gets by rebuilding the value in memory).
pub fn clear_prot_bytes(v: &mut MVal) {
    fn p(p: &mut MProt) {
        p.bytes = None;
        h(&mut p.header);
    }
    fn h(h: &mut MHeader) {
        for s in h.csigs.iter_mut() {
            p(&mut s.prot);
            h2(&mut s.unprot);
        }
    }
    fn h2(x: &mut MHeader) {
        h(x)
    }
    fn r(x: &mut MRecipient) {
        p(&mut x.prot);
        h(&mut x.unprot);
        for y in x.recipients.iter_mut() {
            r(y);
        }
    }
    match v {
        MVal::Header(x) => h(x),
        MVal::ProtMap(x) => {
            x.bytes = None;
            h(&mut x.header)
        }
        MVal::Signature(s) => {
            p(&mut s.prot);
            h(&mut s.unprot)
        }
        MVal::Sign(s) => {
            p(&mut s.prot);
            h(&mut s.unprot);
            for x in s.sigs.iter_mut() {
                p(&mut x.prot);
                h(&mut x.unprot);
            }
        }
        MVal::Sign1(s) => {
            p(&mut s.prot);
            h(&mut s.unprot)
        }
        MVal::Mac(s) => {
            p(&mut s.prot);
            h(&mut s.unprot);
            for x in s.recipients.iter_mut() {
                r(x);
            }
        }
        MVal::Mac0(s) => {
            p(&mut s.prot);
            h(&mut s.unprot)
        }
        MVal::Encrypt(s) => {
            p(&mut s.prot);
            h(&mut s.unprot);
            for x in s.recipients.iter_mut() {
                r(x);
            }
        }
        MVal::Encrypt0(s) => {
            p(&mut s.prot);
            h(&mut s.unprot)
        }
        MVal::Recipient(x) => r(x),
        MVal::SuppPub(s) => p(&mut s.prot),
        MVal::Kdf(k) => p(&mut k.supp.prot),
        _ => {}
    }
}

/// All protected-header positions of a value as (path, retained bytes).
pub fn prot_positions(v: &MVal) -> Vec<(String, Option<Vec<u8>>)> {
    let mut out = Vec::new();
    fn p(path: &str, p: &MProt, out: &mut Vec<(String, Option<Vec<u8>>)>) {
        out.push((path.to_string(), p.bytes.clone()));
        hdr(&format!("{}.header", path), &p.header, out);
    }
    fn hdr(path: &str, h: &MHeader, out: &mut Vec<(String, Option<Vec<u8>>)>) {
        for (i, s) in h.csigs.iter().enumerate() {
            sig(&format!("{}.csig[{}]", path, i), s, out);
        }
    }
    fn sig(path: &str, s: &MSignature, out: &mut Vec<(String, Option<Vec<u8>>)>) {
        p(&format!("{}.protected", path), &s.prot, out);
        hdr(&format!("{}.unprotected", path), &s.unprot, out);
    }
    fn rcp(path: &str, r: &MRecipient, out: &mut Vec<(String, Option<Vec<u8>>)>) {
        p(&format!("{}.protected", path), &r.prot, out);
        hdr(&format!("{}.unprotected", path), &r.unprot, out);
        for (i, x) in r.recipients.iter().enumerate() {
            rcp(&format!("{}.recipients[{}]", path, i), x, out);
        }
    }
    match v {
        MVal::Header(h) => hdr("header", h, &mut out),
        MVal::ProtMap(x) => hdr("header", &x.header, &mut out),
        MVal::Signature(s) => sig("signature", s, &mut out),
        MVal::Sign(s) => {
            p("body.protected", &s.prot, &mut out);
            hdr("body.unprotected", &s.unprot, &mut out);
            for (i, x) in s.sigs.iter().enumerate() {
                sig(&format!("signatures[{}]", i), x, &mut out);
            }
        }
        MVal::Sign1(s) => {
            p("body.protected", &s.prot, &mut out);
            hdr("body.unprotected", &s.unprot, &mut out);
        }
        MVal::Mac(s) => {
            p("body.protected", &s.prot, &mut out);
            hdr("body.unprotected", &s.unprot, &mut out);
            for (i, x) in s.recipients.iter().enumerate() {
                rcp(&format!("recipients[{}]", i), x, &mut out);
            }
        }
        MVal::Mac0(s) => {
            p("body.protected", &s.prot, &mut out);
            hdr("body.unprotected", &s.unprot, &mut out);
        }
        MVal::Encrypt(s) => {
            p("body.protected", &s.prot, &mut out);
            hdr("body.unprotected", &s.unprot, &mut out);
            for (i, x) in s.recipients.iter().enumerate() {
                rcp(&format!("recipients[{}]", i), x, &mut out);
            }
        }
        MVal::Encrypt0(s) => {
            p("body.protected", &s.prot, &mut out);
            hdr("body.unprotected", &s.unprot, &mut out);
        }
        MVal::Recipient(r) => rcp("recipient", r, &mut out),
        MVal::SuppPub(s) => p("supp.protected", &s.prot, &mut out),
        MVal::Kdf(k) => p("kdf.supp.protected", &k.supp.prot, &mut out),
        _ => {}
    }
    out
}

/// Visit every protected header of a value mutably, in the order of `prot_positions`.
pub fn for_each_prot(v: &mut MVal, f: &mut dyn FnMut(&mut MProt)) {
    fn p(p: &mut MProt, f: &mut dyn FnMut(&mut MProt)) {
        f(p);
        hdr(&mut p.header, f);
    }
    fn hdr(h: &mut MHeader, f: &mut dyn FnMut(&mut MProt)) {
        for s in h.csigs.iter_mut() {
            sig(s, f);
        }
    }
    fn sig(s: &mut MSignature, f: &mut dyn FnMut(&mut MProt)) {
        p(&mut s.prot, f);
        hdr(&mut s.unprot, f);
    }
    fn rcp(r: &mut MRecipient, f: &mut dyn FnMut(&mut MProt)) {
        p(&mut r.prot, f);
        hdr(&mut r.unprot, f);
        for x in r.recipients.iter_mut() {
            rcp(x, f);
        }
    }
    match v {
        MVal::Header(h) => hdr(h, f),
        MVal::ProtMap(x) => hdr(&mut x.header, f),
        MVal::Signature(s) => sig(s, f),
        MVal::Sign(s) => {
            p(&mut s.prot, f);
            hdr(&mut s.unprot, f);
            for x in s.sigs.iter_mut() {
                sig(x, f);
            }
        }
        MVal::Sign1(s) => {
            p(&mut s.prot, f);
            hdr(&mut s.unprot, f);
        }
        MVal::Mac(s) => {
            p(&mut s.prot, f);
            hdr(&mut s.unprot, f);
            for x in s.recipients.iter_mut() {
                rcp(x, f);
            }
        }
        MVal::Mac0(s) => {
            p(&mut s.prot, f);
            hdr(&mut s.unprot, f);
        }
        MVal::Encrypt(s) => {
            p(&mut s.prot, f);
            hdr(&mut s.unprot, f);
            for x in s.recipients.iter_mut() {
                rcp(x, f);
            }
        }
        MVal::Encrypt0(s) => {
            p(&mut s.prot, f);
            hdr(&mut s.unprot, f);
        }
        MVal::Recipient(r) => rcp(r, f),
        MVal::SuppPub(s) => p(&mut s.prot, f),
        MVal::Kdf(k) => p(&mut k.supp.prot, f),
        _ => {}
    }
}

// ---------------------------------------------------------------------------------------------
// Structures of RFC 8152 sections 4.4, 5.3, 6.3

/// Sig_structure / MAC_structure / Enc_structure: deterministic encoding of the array.
pub fn structure(context: &str, slots: &[&[u8]]) -> Vec<u8> {
    let mut v = vec![Item::text(context)];
    for s in slots {
        v.push(Item::Bytes(s.to_vec()));
    }
    rcbor::det(&Item::Array(v))
}

/// bytes a protected header contributes to a structure
pub fn prot_slot(p: &MProt) -> Vec<u8> {
    match enc_prot(p) {
        Item::Bytes(b) => b,
        _ => unreachable!(),
    }
}
