use cosetmon::json::{self, J};
use cosetmon::mon::{self, Tier};
use cosetmon::{checks, rcbor};

#[cfg(not(feature = "no-alloc-monitor"))]
#[global_allocator]
static GLOBAL: cosetmon::alloc::CountingAlloc = cosetmon::alloc::CountingAlloc;

fn arg_val(args: &[String], name: &str) -> Option<String> {
    args.iter().position(|a| a == name).and_then(|i| args.get(i + 1).cloned())
}

fn main() {
    let args: Vec<String> = std::env::args().collect();
    if args.len() < 2 {
        eprintln!("usage: cosetmon run <ID> --tier quick|thorough --seed N --out FILE | replay FILE | selftest");
        std::process::exit(2);
    }
    match args[1].as_str() {
        "selftest" => match rcbor::selftest() {
            Ok(n) => println!("codec selftest: {} cases ok", n),
            Err(e) => {
                eprintln!("codec selftest FAILED: {}", e);
                std::process::exit(2);
            }
        },
        "run" => {
            let id = args.get(2).cloned().unwrap_or_default();
            let tier = match arg_val(&args, "--tier").as_deref() {
                Some("thorough") => Tier::Thorough,
                _ => Tier::Quick,
            };
            let seed: u64 = arg_val(&args, "--seed").and_then(|s| s.parse().ok()).unwrap_or(20261001);
            let budget: f64 = arg_val(&args, "--budget").and_then(|s| s.parse().ok()).unwrap_or(1.0);
            let max_s: f64 = arg_val(&args, "--max-s").and_then(|s| s.parse().ok()).unwrap_or(if tier == Tier::Quick { 150.0 } else { 3000.0 });
            let out = arg_val(&args, "--out");
            let chk = match checks::get(&id) {
                Some(c) => c,
                None => {
                    eprintln!("unknown check {}", id);
                    std::process::exit(2);
                }
            };
            let r = mon::run_check(chk.as_ref(), tier, seed, budget, max_s);
            let j = mon::result_json(chk.as_ref(), &r);
            let s = j.to_string();
            match out {
                Some(p) => std::fs::write(&p, s).expect("write result"),
                None => println!("{}", s),
            }
        }
        "replay" => {
            let path = args.get(2).cloned().unwrap_or_default();
            let txt = std::fs::read_to_string(&path).expect("read replay file");
            let j = json::parse(&txt).expect("replay file is not JSON");
            let id = j.get("property").and_then(|x| x.as_str()).expect("property").to_string();
            let tier = if j.get("tier").and_then(|x| x.as_str()) == Some("thorough") { Tier::Thorough } else { Tier::Quick };
            let seed = j.get("seed").and_then(|x| x.as_u64()).expect("seed");
            let budget = match j.get("budget") {
                Some(J::Num(f)) => *f,
                Some(J::UInt(u)) => *u as f64,
                _ => 1.0,
            };
            let phase = j.get("phase").and_then(|x| x.as_u64()).expect("phase") as usize;
            let idx = j.get("idx").and_then(|x| x.as_u64()).expect("idx");
            let chk = checks::get(&id).expect("unknown check");
            mon::install_panic_hook();
            cosetmon::capi::probe_orders();
            let id_static: &'static str = Box::leak(id.clone().into_boxed_str());
            let mut ctx = mon::Ctx::new(id_static, tier, seed, budget);
            ctx.replaying = true;
            ctx.begin_case(phase, idx);
            let r = mon::guard(|| chk.run_case(&mut ctx, phase, idx));
            if let Err(p) = r {
                println!("case panicked: {} at {}:{}", p.msg, p.file, p.line);
            }
            if ctx.violations.is_empty() {
                println!("replay {}: no violation (phase {} idx {})", id, phase, idx);
            } else {
                for v in &ctx.violations {
                    println!("VIOLATION property={} sig={} :: {}", id, v.sig, v.detail);
                }
                std::process::exit(1);
            }
        }
        "oneshot" => {
            let stack: usize = arg_val(&args, "--stack").and_then(|s| s.parse().ok()).unwrap_or(2 << 20);
            std::process::exit(cosetmon::hostile::child_main(stack));
        }
        "explain" => {
            // cosetmon explain <Type> <hex>: independent parse, model verdict, crate result
            use cosetmon::model::{self, Ty};
            mon::install_panic_hook();
            let tyname = args.get(2).cloned().unwrap_or_default();
            let bytes = rcbor::unhex(&args.get(3).cloned().unwrap_or_default()).expect("hex");
            let mut all: Vec<Ty> = model::STRUCT_TYPES.to_vec();
            all.extend(model::LABEL_TYPES);
            let ty = all.into_iter().find(|t| t.name() == tyname).expect("unknown type name");
            println!("rcbor: {:?}", rcbor::decode_exact(&bytes));
            println!("model: {:?}", model::decode_bytes(ty, &bytes));
            let r = cosetmon::capi::from_slice(ty, &bytes);
            match &r {
                Ok(v) => {
                    let mut n = cosetmon::capi::Notes(vec![]);
                    println!("coset: Ok, view = {:?} notes={:?}", cosetmon::capi::view(v, &mut n), n.0);
                    println!("to_vec: {:?}", cosetmon::capi::to_vec(v.clone()).map(|b| rcbor::hex(&b)));
                }
                Err(e) => println!("coset: Err({})", e.name()),
            }
        }
        other => {
            eprintln!("unknown command {}", other);
            std::process::exit(2);
        }
    }
}
