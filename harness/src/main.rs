use cosetmon::json::{self, J};
use cosetmon::mon::{self, Tier};
use cosetmon::{checks, rcbor};

#[cfg(not(feature = "no-alloc-monitor"))]
#[global_allocator]
static GLOBAL: cosetmon::alloc::CountingAlloc = cosetmon::alloc::CountingAlloc;

fn arg_val(args: &[String], name: &str) -> Option<String> {
    args.iter().position(|a| a == name).and_then(|i| args.get(i + 1).cloned())
}

fn main() {
    let args: Vec<String> = std::env::args().collect();
    if args.len() < 2 {
        eprintln!("usage: cosetmon run <ID> --tier quick|thorough --seed N --out FILE | replay FILE | selftest");
        std::process::exit(2);
    }
    match args[1].as_str() {
        "selftest" => match rcbor::selftest() {
            Ok(n) => println!("codec selftest: {} cases ok", n),
            Err(e) => {
                eprintln!("codec selftest FAILED: {}", e);
                std::process::exit(2);
            }
        },
        "run" => {
            let id = args.get(2).cloned().unwrap_or_default();
            let tier = match arg_val(&args, "--tier").as_deref() {
                Some("thorough") => Tier::Thorough,
                _ => Tier::Quick,
            };
            let seed: u64 = arg_val(&args, "--seed").and_then(|s| s.parse().ok()).unwrap_or(20261001);
            let budget: f64 = arg_val(&args, "--budget").and_then(|s| s.parse().ok()).unwrap_or(1.0);
            let max_s: f64 = arg_val(&args, "--max-s").and_then(|s| s.parse().ok()).unwrap_or(if tier == Tier::Quick { 150.0 } else { 3000.0 });
            let out = arg_val(&args, "--out");
            let chk = match checks::get(&id) {
                Some(c) => c,
                None => {
                    eprintln!("unknown check {}", id);
                    std::process::exit(2);
                }
            };
            let r = mon::run_check(chk.as_ref(), tier, seed, budget, max_s);
            let j = mon::result_json(chk.as_ref(), &r);
            let s = j.to_string();
            match out {
                Some(p) => std::fs::write(&p, s).expect("write result"),
                None => println!("{}", s),
            }
        }
        "replay" => {
            let path = args.get(2).cloned().unwrap_or_default();
            let txt = std::fs::read_to_string(&path).expect("read replay file");
            let j = json::parse(&txt).expect("replay file is not JSON");
            let id = j.get("property").and_then(|x| x.as_str()).expect("property").to_string();
            let tier = if j.get("tier").and_then(|x| x.as_str()) == Some("thorough") { Tier::Thorough } else { Tier::Quick };
            let seed = j.get("seed").and_then(|x| x.as_u64()).expect("seed");
            let budget = match j.get("budget") {
                Some(J::Num(f)) => *f,
                Some(J::UInt(u)) => *u as f64,
                _ => 1.0,
            };
            let phase = j.get("phase").and_then(|x| x.as_u64()).expect("phase") as usize;
            let idx = j.get("idx").and_then(|x| x.as_u64()).expect("idx");
            let chk = checks::get(&id).expect("unknown check");
            mon::install_panic_hook();
            cosetmon::capi::probe_orders();
            let id_static: &'static str = Box::leak(id.clone().into_boxed_str());
            let mut ctx = mon::Ctx::new(id_static, tier, seed, budget);
            ctx.replaying = true;
            ctx.begin_case(phase, idx);
            let r = mon::guard_case(|| chk.run_case(&mut ctx, phase, idx));
            if let Err(p) = r {
                println!("case panicked: {} at {}:{}", p.msg, p.file, p.line);
            }
            if ctx.violations.is_empty() {
                println!("replay {}: no violation (phase {} idx {})", id, phase, idx);
            } else {
                for v in &ctx.violations {
                    println!("VIOLATION property={} sig={} :: {}", id, v.sig, v.detail);
                }
                std::process::exit(1);
            }
        }
        "oneshot" => {
            let stack: usize = arg_val(&args, "--stack").and_then(|s| s.parse().ok()).unwrap_or(2 << 20);
            std::process::exit(cosetmon::hostile::child_main(stack));
        }
        "decode1" => {
            // decode one input once on the main thread (used under cachegrind: deterministic
            // instruction counts).  args: <type index> <file with hex>
            let ti: usize = args.get(2).and_then(|s| s.parse().ok()).unwrap_or(0);
            let hx = std::fs::read_to_string(args.get(3).expect("hex file")).expect("read hex file");
            let bytes = rcbor::unhex(hx.trim()).expect("hex");
            let types = cosetmon::hostile::all_types_indexed();
            mon::install_panic_hook();
            let r = cosetmon::capi::from_slice(types[ti % types.len()], &bytes);
            println!("{}", if r.is_ok() { "accepted" } else { "rejected" });
        }
        "ramps" => {
            // JSON description of a few bomb ramps for the instruction-count engine (E7i)
            use cosetmon::hostile as h;
            let types = h::all_types_indexed();
            let ti = |t: cosetmon::model::Ty| types.iter().position(|x| *x == t).unwrap_or(0) as u64;
            let mut ramps: Vec<J> = Vec::new();
            for form in 0..3u8 {
                let pts: Vec<J> = [16usize, 64, 256, 512, 1024, 2048, 4096, 8192].iter().map(|d| {
                    let b = h::b1_header(*d, form);
                    J::Arr(vec![J::UInt(b.len() as u64), J::Str(rcbor::hex(&b))])
                }).collect();
                ramps.push(J::obj(vec![("name", J::Str(format!("B1 form {} in Header", form))), ("ti", J::UInt(ti(cosetmon::model::Ty::Header))), ("points", J::Arr(pts))]));
            }
            for fam in [1u8, 3, 4, 5, 6, 7, 8, 10, 11, 12, 13] {
                let mut name = "";
                let mut t = cosetmon::model::Ty::Header;
                let pts: Vec<J> = [128usize, 256, 512, 1024, 2048, 4096, 8192, 16384, 32768].iter().map(|n| {
                    let (ty, b, nm) = h::b7_flat(fam, *n);
                    name = nm;
                    t = ty;
                    J::Arr(vec![J::UInt(b.len() as u64), J::Str(rcbor::hex(&b))])
                }).collect();
                ramps.push(J::obj(vec![("name", J::Str(format!("B7 {}", name))), ("ti", J::UInt(ti(t))), ("points", J::Arr(pts))]));
            }
            println!("{}", J::Arr(ramps).to_string());
        }
        "corpus" => {
            // write a seed corpus for the libFuzzer engine: test-suite vectors + generated messages
            use cosetmon::gen::{self, GenOpts};
            let dir = args.get(2).expect("output directory").clone();
            std::fs::create_dir_all(&dir).expect("mkdir");
            let mut n = 0;
            for (i, l) in include_str!("../../corpus/repo-test-vectors.txt").lines().enumerate() {
                if let Some(b) = rcbor::unhex(l) {
                    std::fs::write(format!("{}/vec-{:04}", dir, i), b).expect("write");
                    n += 1;
                }
            }
            let mut r = cosetmon::rng::Rng::new(20261001);
            for i in 0..800u64 {
                let ty = cosetmon::model::STRUCT_TYPES[(i % 16) as usize];
                let v = gen::gen_mval(&mut r, ty, &GenOpts::wire());
                let b = rcbor::encode(&cosetmon::model::encode(&v), &mut rcbor::Style::random(i));
                if b.len() <= 4096 {
                    std::fs::write(format!("{}/gen-{:04}", dir, i), b).expect("write");
                    n += 1;
                }
            }
            for d in [1usize, 3, 8, 9, 12] {
                for f in 0..5u8 {
                    std::fs::write(format!("{}/chain-{}-{}", dir, d, f), cosetmon::hostile::b1_header(d, f)).expect("write");
                    n += 1;
                }
            }
            println!("{} seed files", n);
        }
        "miniwork" => {
            // small single-threaded workload for interpreters (Miri) and memcheck: generated and
            // mutated messages through every entry point, follow-ups and the fixed-point oracle.
            // args: <ops> <seed>
            let ops: u64 = args.get(2).and_then(|s| s.parse().ok()).unwrap_or(20);
            let seed: u64 = args.get(3).and_then(|s| s.parse().ok()).unwrap_or(1);
            let bad = cosetmon::hostile::miniwork(ops, seed);
            println!("miniwork: {} ops, {} problems", ops, bad.len());
            for b in &bad {
                println!("PROBLEM {}", b);
            }
            if !bad.is_empty() {
                std::process::exit(1);
            }
        }
        "explain" => {
            // cosetmon explain <Type> <hex>: independent parse, model verdict, crate result
            use cosetmon::model::{self, Ty};
            mon::install_panic_hook();
            let tyname = args.get(2).cloned().unwrap_or_default();
            let bytes = rcbor::unhex(&args.get(3).cloned().unwrap_or_default()).expect("hex");
            let mut all: Vec<Ty> = model::STRUCT_TYPES.to_vec();
            all.extend(model::LABEL_TYPES);
            let ty = all.into_iter().find(|t| t.name() == tyname).expect("unknown type name");
            println!("rcbor: {:?}", rcbor::decode_exact(&bytes));
            println!("model: {:?}", model::decode_bytes(ty, &bytes));
            let r = cosetmon::capi::from_slice(ty, &bytes);
            match &r {
                Ok(v) => {
                    let mut n = cosetmon::capi::Notes(vec![]);
                    println!("coset: Ok, view = {:?} notes={:?}", cosetmon::capi::view(v, &mut n), n.0);
                    println!("to_vec: {:?}", cosetmon::capi::to_vec(v.clone()).map(|b| rcbor::hex(&b)));
                }
                Err(e) => println!("coset: Err({})", e.name()),
            }
        }
        other => {
            eprintln!("unknown command {}", other);
            std::process::exit(2);
        }
    }
}
