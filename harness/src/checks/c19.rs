//! C19 - builders apply exactly the documented effect of each call, in any order.
//! A field-map model per builder is driven by the same call sequence as the real builder.

use crate::capi::{self, item_to_value, CVal, Notes};
use crate::gen::{self, GenOpts};
use crate::json::J;
use crate::model::*;
use crate::mon::{guard, scale, Check, Ctx, Phase, Tier};
use crate::rcbor::Item;
use crate::registry::{self, Reg};
use coset::iana::{self, EnumI64};

pub struct C19;

#[derive(Clone, Debug)]
pub enum Op {
    // header
    KeyId(Vec<u8>),
    Algorithm(i64),
    AddCritical(i64),
    AddCriticalLabel(MLabel),
    ContentFormat(i64),
    ContentType(String),
    Iv(Vec<u8>),
    PartialIv(Vec<u8>),
    AddCounterSignature(MSignature),
    Value(i64, Item),
    TextValue(String, Item),
    // messages
    Protected(MHeader),
    Unprotected(MHeader),
    Payload(Vec<u8>),
    Ciphertext(Vec<u8>),
    Signature(Vec<u8>),
    Tag(Vec<u8>),
    AddSignature(MSignature),
    AddRecipient(MRecipient),
    // closure-taking helpers (effect on the built value + the bytes handed to the closure)
    CreateSignature { aad: Vec<u8>, ret: Vec<u8>, fallible: bool, detached: Option<Vec<u8>> },
    AddCreatedSignature { sig: MSignature, aad: Vec<u8>, ret: Vec<u8>, fallible: bool, detached: Option<Vec<u8>> },
    CreateTag { aad: Vec<u8>, ret: Vec<u8>, fallible: bool },
    /// context: 0 Encrypt, 1 Encrypt0, 2 Enc_Recipient, 3 Mac_Recipient, 4 Rec_Recipient (only used by the recipient builder)
    CreateCiphertext { context: u8, pt: Vec<u8>, aad: Vec<u8>, ret: Vec<u8>, fallible: bool },
    // key
    Kty(MLabel),
    BaseIv(Vec<u8>),
    KeyType(i64),
    AddKeyOp(i64),
    Param(i64, Item),
    // claims
    Issuer(String),
    Subject(String),
    Audience(String),
    ExpirationTime(MTime),
    NotBefore(MTime),
    IssuedAt(MTime),
    CwtId(Vec<u8>),
    Claim(i64, Item),
    TextClaim(String, Item),
    PrivateClaim(i64, Item),
    // party / supp / kdf
    Identity(Vec<u8>),
    Nonce(MNonce),
    Other(Vec<u8>),
    KeyDataLength(u64),
    PartyU(MParty),
    PartyV(MParty),
    SuppPubInfo(MSuppPub),
    AddSuppPrivInfo(Vec<u8>),
}

#[derive(Clone, Copy, Debug, PartialEq, Eq)]
pub enum BK {
    Header,
    Signature,
    Sign,
    Sign1,
    Mac,
    Mac0,
    Encrypt,
    Encrypt0,
    Recipient,
    /// constructor: 0 new, 1 ec2_pub, 2 ec2_pub_y_sign, 3 ec2_priv, 4 symmetric, 5 okp
    Key(u8),
    Claims,
    Party,
    SuppPub,
    Kdf,
}

pub const BUILDERS: [BK; 19] = [
    BK::Header,
    BK::Signature,
    BK::Sign,
    BK::Sign1,
    BK::Mac,
    BK::Mac0,
    BK::Encrypt,
    BK::Encrypt0,
    BK::Recipient,
    BK::Key(0),
    BK::Key(1),
    BK::Key(2),
    BK::Key(3),
    BK::Key(4),
    BK::Key(5),
    BK::Claims,
    BK::Party,
    BK::SuppPub,
    BK::Kdf,
];

thread_local! {
    /// bytes the real builder handed to the caller's closure during the current call
    static SEEN: std::cell::RefCell<Option<Vec<u8>>> = const { std::cell::RefCell::new(None) };
    /// bytes the model says the closure must receive
    static WANT: std::cell::RefCell<Option<Vec<u8>>> = const { std::cell::RefCell::new(None) };
}
fn set_seen(d: &[u8]) {
    SEEN.with(|s| *s.borrow_mut() = Some(d.to_vec()));
}
fn set_want(d: Vec<u8>) {
    WANT.with(|s| *s.borrow_mut() = Some(d));
}
fn enc_ctx(i: u8) -> (coset::EncryptionContext, &'static str) {
    match i {
        0 => (coset::EncryptionContext::CoseEncrypt, "Encrypt"),
        1 => (coset::EncryptionContext::CoseEncrypt0, "Encrypt0"),
        2 => (coset::EncryptionContext::EncRecipient, "Enc_Recipient"),
        3 => (coset::EncryptionContext::MacRecipient, "Mac_Recipient"),
        _ => (coset::EncryptionContext::RecRecipient, "Rec_Recipient"),
    }
}

fn alg(i: i64) -> Option<iana::Algorithm> {
    iana::Algorithm::from_i64(i)
}

fn to_ts(t: &MTime) -> coset::cwt::Timestamp {
    match t {
        MTime::Int(i) => coset::cwt::Timestamp::WholeSeconds(*i),
        MTime::Float(Item::Float(f)) => coset::cwt::Timestamp::FractionalSeconds(*f),
        _ => coset::cwt::Timestamp::WholeSeconds(0),
    }
}

fn small_header(ctx: &mut Ctx) -> MHeader {
    let o = GenOpts::built();
    gen::gen_header(&mut ctx.rng, &o, 2)
}

/// the argument palette: every method of builder `bk` with boundary arguments
pub fn palette(bk: BK, ctx: &mut Ctx) -> Vec<Op> {
    let b = |x: &[u8]| x.to_vec();
    let sig = MSignature { prot: MProt { bytes: None, header: MHeader { kid: vec![7], ..Default::default() } }, unprot: MHeader::default(), sig: vec![1] };
    let sig2 = MSignature { prot: MProt::default(), unprot: MHeader { alg: Some(MLabel::Int(-7)), ..Default::default() }, sig: vec![] };
    let rcp = MRecipient { prot: MProt::default(), unprot: MHeader { kid: vec![1], ..Default::default() }, ct: Some(vec![2]), recipients: vec![] };
    // parts obtained by decoding keep their received protected bytes: the adders must store them as they are
    let sig3 = MSignature { prot: MProt { bytes: Some(vec![0xa1, 0x04, 0x58, 0x01, 0x07]), header: MHeader { kid: vec![7], ..Default::default() } }, unprot: MHeader::default(), sig: vec![3] };
    let sig4 = MSignature { prot: MProt { bytes: Some(vec![0xa0]), header: MHeader::default() }, unprot: MHeader { kid: vec![4], ..Default::default() }, sig: vec![4] };
    let rcp3 = MRecipient {
        prot: MProt { bytes: Some(vec![0xbf, 0x01, 0x18, 0x01, 0xff]), header: MHeader { alg: Some(MLabel::Int(1)), ..Default::default() } },
        unprot: MHeader::default(),
        ct: None,
        recipients: vec![MRecipient { prot: MProt { bytes: Some(vec![0xa0]), header: MHeader::default() }, unprot: MHeader::default(), ct: Some(vec![5]), recipients: vec![] }],
    };
    let h1 = MHeader { alg: Some(MLabel::Int(1)), kid: vec![1, 2], ..Default::default() };
    let h2 = MHeader { iv: vec![9], rest: vec![(MLabel::Int(99), Item::int(1))], ..Default::default() };
    let msg_common = vec![Op::Protected(MHeader::default()), Op::Protected(h1.clone()), Op::Protected(h2.clone()), Op::Unprotected(MHeader::default()), Op::Unprotected(h1.clone()), Op::Unprotected(small_header(ctx))];
    match bk {
        BK::Header => vec![
            Op::KeyId(vec![]),
            Op::KeyId(b(&[1, 2])),
            Op::Algorithm(-7),
            Op::Algorithm(1),
            Op::Algorithm(-65535),
            Op::AddCritical(1),
            Op::AddCritical(257),
            Op::AddCriticalLabel(MLabel::Text("x".into())),
            Op::AddCriticalLabel(MLabel::Int(4)),
            Op::ContentFormat(0),
            Op::ContentFormat(60),
            Op::ContentType("a/b".into()),
            Op::ContentType(String::new()),
            Op::ContentType("42".into()),
            Op::ContentType("0".into()),
            Op::ContentType("+60".into()),
            Op::Iv(b(&[1])),
            Op::Iv(vec![]),
            Op::PartialIv(b(&[2])),
            Op::PartialIv(vec![]),
            Op::AddCounterSignature(sig.clone()),
            Op::AddCounterSignature(sig2.clone()),
            Op::AddCounterSignature(sig3.clone()),
            Op::AddCounterSignature(sig4.clone()),
            Op::Value(0, Item::int(0)),
            Op::Value(1, Item::int(1)),
            Op::Value(2, Item::Null),
            Op::Value(6, Item::bytes(&[1])),
            Op::Value(7, Item::Null),
            Op::Value(8, Item::int(8)),
            Op::Value(-1, Item::text("m")),
            Op::Value(-65537, Item::Null),
            Op::Value(i64::MAX, Item::Bool(true)),
            Op::Value(i64::MIN, Item::Bool(false)),
            Op::TextValue("t".into(), Item::int(3)),
            Op::TextValue(String::new(), Item::Null),
            Op::TextValue("1".into(), Item::int(4)),
        ],
        BK::Signature => {
            let mut v = msg_common;
            v.extend([Op::Signature(vec![]), Op::Signature(b(&[5, 6]))]);
            v
        }
        BK::Sign => {
            let mut v = msg_common;
            v.extend([Op::Payload(vec![]), Op::Payload(b(&[1])), Op::AddSignature(sig.clone()), Op::AddSignature(sig2.clone()), Op::AddSignature(sig3.clone()), Op::AddSignature(sig4.clone())]);
            for (f, d) in [(false, None), (true, None), (false, Some(b(&[8, 8]))), (true, Some(b(&[8])))] {
                v.push(Op::AddCreatedSignature { sig: sig.clone(), aad: b(&[0xaa]), ret: b(&[0xd1, f as u8]), fallible: f, detached: d });
            }
            v
        }
        BK::Sign1 => {
            let mut v = msg_common;
            v.extend([Op::Payload(vec![]), Op::Payload(b(&[1])), Op::Signature(vec![]), Op::Signature(b(&[9]))]);
            for (f, d) in [(false, None), (true, None), (false, Some(b(&[8, 8]))), (true, Some(b(&[8])))] {
                v.push(Op::CreateSignature { aad: b(&[0xaa]), ret: b(&[0xd2, f as u8]), fallible: f, detached: d });
            }
            v
        }
        BK::Mac => {
            let mut v = msg_common;
            v.extend([Op::Payload(vec![]), Op::Payload(b(&[1])), Op::Tag(vec![]), Op::Tag(b(&[3])), Op::AddRecipient(rcp.clone()), Op::AddRecipient(MRecipient::default()), Op::AddRecipient(rcp3.clone())]);
            v.extend([Op::CreateTag { aad: b(&[0xaa]), ret: b(&[0xd3]), fallible: false }, Op::CreateTag { aad: vec![], ret: b(&[0xd4]), fallible: true }]);
            v
        }
        BK::Mac0 => {
            let mut v = msg_common;
            v.extend([Op::Payload(vec![]), Op::Payload(b(&[1])), Op::Tag(vec![]), Op::Tag(b(&[3]))]);
            v.extend([Op::CreateTag { aad: b(&[0xaa]), ret: b(&[0xd3]), fallible: false }, Op::CreateTag { aad: vec![], ret: b(&[0xd4]), fallible: true }]);
            v
        }
        BK::Encrypt | BK::Recipient => {
            let mut v = msg_common;
            v.extend([Op::Ciphertext(vec![]), Op::Ciphertext(b(&[1])), Op::AddRecipient(rcp.clone()), Op::AddRecipient(MRecipient::default()), Op::AddRecipient(rcp3.clone())]);
            for c in 0..5u8 {
                for f in [false, true] {
                    if bk == BK::Recipient || c == 0 {
                        v.push(Op::CreateCiphertext { context: c, pt: b(&[1, 2]), aad: b(&[0xaa, c]), ret: b(&[0xd5, c, f as u8]), fallible: f });
                    }
                }
            }
            v
        }
        BK::Encrypt0 => {
            let mut v = msg_common;
            v.extend([Op::Ciphertext(vec![]), Op::Ciphertext(b(&[1]))]);
            v.extend([Op::CreateCiphertext { context: 1, pt: b(&[1]), aad: b(&[0xaa]), ret: b(&[0xd6]), fallible: false }, Op::CreateCiphertext { context: 1, pt: vec![], aad: vec![], ret: b(&[0xd7]), fallible: true }]);
            v
        }
        BK::Key(_) => vec![
            Op::Kty(MLabel::Int(1)),
            Op::Kty(MLabel::Text("k".into())),
            Op::KeyId(vec![]),
            Op::KeyId(b(&[1])),
            Op::BaseIv(vec![]),
            Op::BaseIv(b(&[2])),
            Op::KeyType(4),
            Op::KeyType(2),
            Op::Algorithm(-7),
            Op::Algorithm(3),
            Op::AddKeyOp(1),
            Op::AddKeyOp(2),
            Op::AddKeyOp(10),
            Op::Param(0, Item::int(0)),
            Op::Param(1, Item::int(1)),
            Op::Param(2, Item::Null),
            Op::Param(3, Item::Null),
            Op::Param(4, Item::Null),
            Op::Param(5, Item::bytes(&[1])),
            Op::Param(6, Item::int(6)),
            Op::Param(-1, Item::int(1)),
            Op::Param(-4, Item::bytes(&[4])),
            Op::Param(-70000, Item::Null),
            Op::Param(i64::MAX, Item::Null),
            // what real keys carry: a curve identifier and 32 / 56 / 57 / 66-byte strings with every bit pattern
            Op::Param(-1, Item::int(4)),
            Op::Param(-1, Item::int(6)),
            Op::Param(-2, Item::Bytes(vec![0xff; 32])),
            Op::Param(-2, Item::Bytes((0..32).map(|i| 0x80 | i as u8).collect())),
            Op::Param(-4, Item::Bytes(vec![0xfe; 32])),
            Op::Param(-2, Item::Bytes(vec![0xff; 57])),
            Op::Param(-3, Item::Bytes(vec![0x80; 66])),
        ],
        BK::Claims => vec![
            Op::Issuer("i".into()),
            Op::Issuer(String::new()),
            Op::Subject("s".into()),
            Op::Audience("a".into()),
            Op::ExpirationTime(MTime::Int(1)),
            Op::ExpirationTime(MTime::Float(Item::Float(1.5))),
            Op::ExpirationTime(MTime::Float(Item::Float(1700000000.0))),
            Op::ExpirationTime(MTime::Float(Item::Float(0.0))),
            Op::NotBefore(MTime::Float(Item::Float(-0.0))),
            Op::NotBefore(MTime::Float(Item::Float(2.0))),
            Op::IssuedAt(MTime::Float(Item::Float(-1.0))),
            Op::IssuedAt(MTime::Float(Item::Float(9007199254740992.0))),
            Op::IssuedAt(MTime::Float(Item::Float(f64::INFINITY))),
            Op::NotBefore(MTime::Int(-1)),
            Op::IssuedAt(MTime::Int(i64::MAX)),
            Op::CwtId(vec![]),
            Op::CwtId(b(&[1])),
            Op::Claim(0, Item::Null),
            Op::Claim(1, Item::text("x")),
            Op::Claim(4, Item::int(1)),
            Op::Claim(7, Item::bytes(&[1])),
            Op::Claim(8, Item::Map(vec![])),
            // values that happen to be encoded CBOR of a familiar shape stay what they are
            Op::Claim(8, Item::Bytes(vec![0xa1, 0x01, 0x04])),
            Op::Claim(8, Item::Bytes(vec![0xa2, 0x01, 0x02, 0x20, 0x01])),
            Op::Claim(38, Item::Bytes(vec![0x84, 0x40, 0xa0, 0xf6, 0x40])),
            Op::TextClaim("cnf".into(), Item::Bytes(vec![0xa1, 0x01, 0x04])),
            Op::Claim(9, Item::text("scope")),
            Op::Claim(38, Item::int(1)),
            Op::Claim(-260, Item::bytes(&[2])),
            Op::TextClaim("c".into(), Item::int(1)),
            Op::TextClaim(String::new(), Item::Null),
            Op::PrivateClaim(-65537, Item::int(1)),
            Op::PrivateClaim(-65536, Item::int(2)),
            Op::PrivateClaim(-70000, Item::Null),
            Op::PrivateClaim(0, Item::Null),
            Op::PrivateClaim(1, Item::Null),
            Op::PrivateClaim(i64::MIN, Item::Null),
            Op::PrivateClaim(i64::MAX, Item::Null),
            Op::PrivateClaim(-260, Item::Null),
        ],
        BK::Party => vec![
            Op::Identity(vec![]),
            Op::Identity(b(&[1])),
            Op::Nonce(MNonce::Bytes(vec![])),
            Op::Nonce(MNonce::Bytes(b(&[2]))),
            Op::Nonce(MNonce::Int(0)),
            Op::Nonce(MNonce::Int(i64::MIN)),
            Op::Other(vec![]),
            Op::Other(b(&[3])),
        ],
        BK::SuppPub => vec![Op::KeyDataLength(0), Op::KeyDataLength(128), Op::KeyDataLength(u64::MAX), Op::Protected(MHeader::default()), Op::Protected(h1), Op::Protected(h2), Op::Other(vec![]), Op::Other(b(&[1]))],
        BK::Kdf => {
            let p1 = MParty { identity: Some(vec![1]), nonce: Some(MNonce::Int(5)), other: None };
            let p2 = MParty { identity: None, nonce: Some(MNonce::Bytes(vec![2])), other: Some(vec![]) };
            let s1 = MSuppPub { key_data_length: 256, prot: MProt { bytes: None, header: h1.clone() }, other: None };
            let s2 = MSuppPub { key_data_length: 1, prot: MProt::default(), other: Some(vec![1]) };
            let s3 = MSuppPub { key_data_length: 128, prot: MProt { bytes: Some(vec![0xa1, 0x01, 0x18, 0x01]), header: MHeader { alg: Some(MLabel::Int(1)), ..Default::default() } }, other: None };
            let s4 = MSuppPub { key_data_length: 64, prot: MProt { bytes: Some(vec![0xa0]), header: MHeader::default() }, other: Some(vec![]) };
            vec![Op::Algorithm(-25), Op::Algorithm(1), Op::PartyU(p1.clone()), Op::PartyU(p2.clone()), Op::PartyV(p1), Op::PartyV(p2), Op::SuppPubInfo(s1), Op::SuppPubInfo(s2), Op::SuppPubInfo(s3), Op::SuppPubInfo(s4), Op::AddSuppPrivInfo(vec![]), Op::AddSuppPrivInfo(b(&[7]))]
        }
    }
}

fn random_op(bk: BK, ctx: &mut Ctx) -> Op {
    let p = palette(bk, ctx);
    let mut op = p[ctx.rng.below(p.len())].clone();
    // randomise the argument some of the time
    if ctx.rng.coin() {
        op = match op {
            Op::KeyId(_) => Op::KeyId(gen::small_bytes(&mut ctx.rng)),
            Op::Iv(_) => Op::Iv(gen::small_bytes(&mut ctx.rng)),
            Op::PartialIv(_) => Op::PartialIv(gen::small_bytes(&mut ctx.rng)),
            Op::Algorithm(_) => Op::Algorithm(*ctx.rng.pick(&registry::values(Reg::Algorithm))),
            Op::AddCritical(_) => Op::AddCritical(*ctx.rng.pick(&registry::values(Reg::HeaderParameter))),
            Op::ContentFormat(_) => Op::ContentFormat(*ctx.rng.pick(&registry::values(Reg::CoapContentFormat))),
            Op::ContentType(_) => Op::ContentType(if ctx.rng.coin() { gen::pal_text(&mut ctx.rng) } else { format!("{}{}", ["", "+", "0", "00"][ctx.rng.below(4)], ctx.rng.pick(&registry::values(Reg::CoapContentFormat))) }),
            Op::ExpirationTime(_) => Op::ExpirationTime(gen::gen_time(&mut ctx.rng)),
            Op::NotBefore(_) => Op::NotBefore(gen::gen_time(&mut ctx.rng)),
            Op::IssuedAt(_) => Op::IssuedAt(gen::gen_time(&mut ctx.rng)),
            Op::Issuer(_) => Op::Issuer(gen::pal_text(&mut ctx.rng)),
            Op::Subject(_) => Op::Subject(gen::pal_text(&mut ctx.rng)),
            Op::Audience(_) => Op::Audience(gen::pal_text(&mut ctx.rng)),
            Op::TextValue(_, v) => Op::TextValue(gen::pal_text(&mut ctx.rng), v),
            Op::TextClaim(_, v) => Op::TextClaim(gen::pal_text(&mut ctx.rng), v),
            Op::Param(l, Item::Bytes(_)) if ctx.rng.coin() => Op::Param(l, Item::Bytes(if ctx.rng.coin() { gen::structured_bytes(&mut ctx.rng) } else { let n = *ctx.rng.pick(&[16usize, 32, 48, 56, 57, 66]); ctx.rng.bytes(n) })),
            Op::Claim(l, Item::Bytes(_)) if ctx.rng.coin() => Op::Claim(l, Item::Bytes(gen::structured_bytes(&mut ctx.rng))),
            Op::Value(_, v) => Op::Value(if ctx.rng.coin() { ctx.rng.range(-3, 12) } else { gen::pal_i64(&mut ctx.rng) }, v),
            Op::Param(_, v) => Op::Param(if ctx.rng.coin() { ctx.rng.range(-6, 9) } else { gen::pal_i64(&mut ctx.rng) }, v),
            Op::Claim(_, v) => Op::Claim(*ctx.rng.pick(&registry::values(Reg::CwtClaimName)), v),
            Op::PrivateClaim(_, v) => Op::PrivateClaim(*ctx.rng.pick(&[-65536i64, -65537, -65538, -65535, -1, 0, 1, 7, 8, i64::MIN, i64::MAX, -70000, -260]), v),
            Op::Protected(_) => Op::Protected(small_header(ctx)),
            Op::Unprotected(_) => Op::Unprotected(small_header(ctx)),
            Op::Payload(_) => Op::Payload(gen::small_bytes(&mut ctx.rng)),
            Op::AddKeyOp(_) => Op::AddKeyOp(ctx.rng.range(1, 10)),
            Op::KeyType(_) => Op::KeyType(ctx.rng.range(0, 6)),
            Op::KeyDataLength(_) => Op::KeyDataLength(ctx.rng.next()),
            other => other,
        };
    }
    op
}

/// Apply one op to the model; returns Some(true) if the call must panic, Some(false) if it must
/// not, None if the op does not belong to the builder.
fn model_header(h: &mut MHeader, op: &Op) -> Option<bool> {
    match op {
        Op::KeyId(v) => h.kid = v.clone(),
        Op::Algorithm(i) => h.alg = Some(MLabel::Int(*i)),
        Op::AddCritical(i) => h.crit.push(MLabel::Int(*i)),
        Op::AddCriticalLabel(l) => h.crit.push(l.clone()),
        Op::ContentFormat(i) => h.ct = Some(MLabel::Int(*i)),
        Op::ContentType(s) => h.ct = Some(MLabel::Text(s.clone())),
        Op::Iv(v) => {
            h.iv = v.clone();
            h.piv.clear();
        }
        Op::PartialIv(v) => {
            h.piv = v.clone();
            h.iv.clear();
        }
        Op::AddCounterSignature(s) => h.csigs.push(s.clone()),
        Op::Value(l, v) => {
            if (1..=7).contains(l) {
                return Some(true);
            }
            h.rest.push((MLabel::Int(*l), v.clone()));
        }
        Op::TextValue(l, v) => h.rest.push((MLabel::Text(l.clone()), v.clone())),
        _ => return None,
    }
    Some(false)
}

fn real_header(b: coset::HeaderBuilder, op: &Op) -> Option<coset::HeaderBuilder> {
    Some(match op {
        Op::KeyId(v) => b.key_id(v.clone()),
        Op::Algorithm(i) => b.algorithm(alg(*i)?),
        Op::AddCritical(i) => b.add_critical(iana::HeaderParameter::from_i64(*i)?),
        Op::AddCriticalLabel(l) => b.add_critical_label(capi::b_reg(l)?),
        Op::ContentFormat(i) => b.content_format(iana::CoapContentFormat::from_i64(*i)?),
        Op::ContentType(s) => b.content_type(s.clone()),
        Op::Iv(v) => b.iv(v.clone()),
        Op::PartialIv(v) => b.partial_iv(v.clone()),
        Op::AddCounterSignature(s) => b.add_counter_signature(capi::b_sig(s)?),
        Op::Value(l, v) => b.value(*l, item_to_value(v)),
        Op::TextValue(l, v) => b.text_value(l.clone(), item_to_value(v)),
        _ => return None,
    })
}

enum Step<B> {
    Next(B),
    Panicked(String),
    NotApplicable,
}

fn step<B>(f: impl FnOnce() -> Option<B>) -> Step<B> {
    match guard(f) {
        Ok(Some(b)) => Step::Next(b),
        Ok(None) => Step::NotApplicable,
        Err(p) => Step::Panicked(p.site()),
    }
}

fn report_seq(ops: &[Op]) -> J {
    J::Arr(ops.iter().map(|o| J::Str(format!("{:?}", o).chars().take(200).collect())).collect())
}

/// drive builder `bk` with `ops`; compare the built value with the model
pub fn run_seq(ctx: &mut Ctx, bk: BK, ops: &[Op]) {
    macro_rules! drive {
        ($builder:expr, $model:expr, $mstep:expr, $rstep:expr, $finish:expr, $wrap:expr) => {{
            let mut b = $builder;
            let mut m = $model;
            let mut applied: Vec<Op> = Vec::new();
            for op in ops {
                let expect_panic = match $mstep(&mut m, op) {
                    Some(x) => x,
                    None => continue,
                };
                applied.push(op.clone());
                ctx.eval();
                let bb = b;
                SEEN.with(|s| *s.borrow_mut() = None);
                let st = step(|| $rstep(bb, op));
                let want = WANT.with(|s| s.borrow_mut().take());
                let seen = SEEN.with(|s| s.borrow_mut().take());
                if expect_panic && seen.is_some() {
                    ctx.violation(&format!("C19/closure-called-before-refusal/{:?}/{}", bk, op_name(op)), format!("{} handed data to the caller's closure although the call must be refused", op_name(op)), J::obj(vec![("builder", J::Str(format!("{:?}", bk))), ("calls", report_seq(&applied))]));
                    return;
                }
                if let (Some(w), false) = (&want, expect_panic) {
                    ctx.count(&format!("closure-data-checked:{:?}:{}", bk, op_name(op)));
                    if seen.as_ref() != Some(w) {
                        ctx.violation(&format!("C19/closure-data/{:?}/{}", bk, op_name(op)), format!("{} handed {} to the caller's closure; the builder's state at the call prescribes {}", op_name(op), seen.as_ref().map(|x| super::structs::short(x)).unwrap_or_else(|| "<nothing>".into()), super::structs::short(w)), J::obj(vec![("builder", J::Str(format!("{:?}", bk))), ("calls", report_seq(&applied))]));
                        return;
                    }
                }
                match st {
                    Step::Next(nb) => {
                        if expect_panic {
                            ctx.violation(&format!("C19/reserved-label-accepted/{:?}/{}", bk, op_name(op)), format!("{} with a label reserved for a typed field must be refused (documented panic) but was applied", op_name(op)), J::obj(vec![("builder", J::Str(format!("{:?}", bk))), ("calls", report_seq(&applied))]));
                            return;
                        }
                        b = nb;
                    }
                    Step::Panicked(site) => {
                        if !expect_panic {
                            ctx.violation(&format!("C19/unexpected-panic/{:?}/{}", bk, op_name(op)), format!("{} panicked at {} although the label is not reserved", op_name(op), site), J::obj(vec![("builder", J::Str(format!("{:?}", bk))), ("calls", report_seq(&applied))]));
                        } else {
                            ctx.count("documented-panics");
                        }
                        // the builder is consumed by the panicking call: the history ends here
                        return;
                    }
                    Step::NotApplicable => {
                        ctx.count("op-not-expressible");
                        return;
                    }
                }
            }
            ctx.eval();
            let built = $finish(b);
            let mut notes = Notes(vec![]);
            let got = capi::view(&built, &mut notes);
            let want: MVal = $wrap(m);
            ctx.nontrivial(crate::rng::hash_bytes(format!("{:?}{:?}", bk, applied).as_bytes()));
            ctx.count(&format!("built:{:?}", bk));
            if got.as_ref() != Some(&want) {
                ctx.violation(
                    &format!("C19/built-value-differs/{:?}", bk),
                    format!("the built value differs from the documented effect of the calls: {}", got.as_ref().map(|g| super::common::diff_summary(g, &want)).unwrap_or_default()),
                    J::obj(vec![("builder", J::Str(format!("{:?}", bk))), ("calls", report_seq(&applied))]),
                );
            }
            if let Some(MVal::Header(h)) = &got {
                if !h.iv.is_empty() && !h.piv.is_empty() {
                    ctx.violation("C19/both-iv-and-partial-iv", "a built header carries both an IV and a Partial IV".into(), J::obj(vec![("calls", report_seq(&applied))]));
                }
            }
        }};
    }
    fn prot_of(h: &MHeader) -> MProt {
        MProt { bytes: None, header: h.clone() }
    }
    match bk {
        BK::Header => drive!(coset::HeaderBuilder::new(), MHeader::default(), model_header, real_header, |b: coset::HeaderBuilder| CVal::Header(b.build()), MVal::Header),
        BK::Signature => drive!(
            coset::CoseSignatureBuilder::new(),
            MSignature::default(),
            |m: &mut MSignature, op: &Op| -> Option<bool> {
                match op {
                    Op::Protected(h) => m.prot = prot_of(h),
                    Op::Unprotected(h) => m.unprot = h.clone(),
                    Op::Signature(s) => m.sig = s.clone(),
                    _ => return None,
                }
                Some(false)
            },
            |b: coset::CoseSignatureBuilder, op: &Op| -> Option<coset::CoseSignatureBuilder> {
                Some(match op {
                    Op::Protected(h) => b.protected(capi::b_header(h)?),
                    Op::Unprotected(h) => b.unprotected(capi::b_header(h)?),
                    Op::Signature(s) => b.signature(s.clone()),
                    _ => return None,
                })
            },
            |b: coset::CoseSignatureBuilder| CVal::Signature(b.build()),
            MVal::Signature
        ),
        BK::Sign => drive!(
            coset::CoseSignBuilder::new(),
            MSign::default(),
            |m: &mut MSign, op: &Op| -> Option<bool> {
                match op {
                    Op::Protected(h) => m.prot = prot_of(h),
                    Op::Unprotected(h) => m.unprot = h.clone(),
                    Op::Payload(p) => m.payload = Some(p.clone()),
                    Op::AddSignature(s) => m.sigs.push(s.clone()),
                    Op::AddCreatedSignature { sig, aad, ret, detached, .. } => {
                        if detached.is_some() && m.payload.is_some() {
                            return Some(true);
                        }
                        let pl: Vec<u8> = detached.clone().or(m.payload.clone()).unwrap_or_default();
                        set_want(structure("Signature", &[&prot_slot(&m.prot), &prot_slot(&sig.prot), aad, &pl]));
                        let mut s2 = sig.clone();
                        s2.sig = ret.clone();
                        m.sigs.push(s2);
                    }
                    _ => return None,
                }
                Some(false)
            },
            |b: coset::CoseSignBuilder, op: &Op| -> Option<coset::CoseSignBuilder> {
                Some(match op {
                    Op::Protected(h) => b.protected(capi::b_header(h)?),
                    Op::Unprotected(h) => b.unprotected(capi::b_header(h)?),
                    Op::Payload(p) => b.payload(p.clone()),
                    Op::AddSignature(s) => b.add_signature(capi::b_sig(s)?),
                    Op::AddCreatedSignature { sig, aad, ret, fallible, detached } => {
                        let r = ret.clone();
                        let cs = capi::b_sig(sig)?;
                        match (fallible, detached) {
                            (false, None) => b.add_created_signature(cs, aad, |d| {
                                set_seen(d);
                                r
                            }),
                            (true, None) => b.try_add_created_signature(cs, aad, |d| -> Result<Vec<u8>, ()> {
                                set_seen(d);
                                Ok(r)
                            }).ok()?,
                            (false, Some(p)) => b.add_detached_signature(cs, p, aad, |d| {
                                set_seen(d);
                                r
                            }),
                            (true, Some(p)) => b.try_add_detached_signature(cs, p, aad, |d| -> Result<Vec<u8>, ()> {
                                set_seen(d);
                                Ok(r)
                            }).ok()?,
                        }
                    }
                    _ => return None,
                })
            },
            |b: coset::CoseSignBuilder| CVal::Sign(b.build()),
            MVal::Sign
        ),
        BK::Sign1 => drive!(
            coset::CoseSign1Builder::new(),
            MSign1::default(),
            |m: &mut MSign1, op: &Op| -> Option<bool> {
                match op {
                    Op::Protected(h) => m.prot = prot_of(h),
                    Op::Unprotected(h) => m.unprot = h.clone(),
                    Op::Payload(p) => m.payload = Some(p.clone()),
                    Op::Signature(s) => m.sig = s.clone(),
                    Op::CreateSignature { aad, ret, detached, .. } => {
                        if detached.is_some() && m.payload.is_some() {
                            return Some(true);
                        }
                        let pl: Vec<u8> = detached.clone().or(m.payload.clone()).unwrap_or_default();
                        set_want(structure("Signature1", &[&prot_slot(&m.prot), aad, &pl]));
                        m.sig = ret.clone();
                    }
                    _ => return None,
                }
                Some(false)
            },
            |b: coset::CoseSign1Builder, op: &Op| -> Option<coset::CoseSign1Builder> {
                Some(match op {
                    Op::Protected(h) => b.protected(capi::b_header(h)?),
                    Op::Unprotected(h) => b.unprotected(capi::b_header(h)?),
                    Op::Payload(p) => b.payload(p.clone()),
                    Op::Signature(s) => b.signature(s.clone()),
                    Op::CreateSignature { aad, ret, fallible, detached } => {
                        let r = ret.clone();
                        match (fallible, detached) {
                            (false, None) => b.create_signature(aad, |d| {
                                set_seen(d);
                                r
                            }),
                            (true, None) => b.try_create_signature(aad, |d| -> Result<Vec<u8>, ()> {
                                set_seen(d);
                                Ok(r)
                            }).ok()?,
                            (false, Some(p)) => b.create_detached_signature(p, aad, |d| {
                                set_seen(d);
                                r
                            }),
                            (true, Some(p)) => b.try_create_detached_signature(p, aad, |d| -> Result<Vec<u8>, ()> {
                                set_seen(d);
                                Ok(r)
                            }).ok()?,
                        }
                    }
                    _ => return None,
                })
            },
            |b: coset::CoseSign1Builder| CVal::Sign1(b.build()),
            MVal::Sign1
        ),
        BK::Mac => drive!(
            coset::CoseMacBuilder::new(),
            MMac::default(),
            |m: &mut MMac, op: &Op| -> Option<bool> {
                match op {
                    Op::Protected(h) => m.prot = prot_of(h),
                    Op::Unprotected(h) => m.unprot = h.clone(),
                    Op::Payload(p) => m.payload = Some(p.clone()),
                    Op::Tag(t) => m.tag = t.clone(),
                    Op::AddRecipient(r) => m.recipients.push(r.clone()),
                    Op::CreateTag { aad, ret, .. } => {
                        let pl = match &m.payload {
                            Some(p) => p.clone(),
                            None => return Some(true),
                        };
                        set_want(structure("MAC", &[&prot_slot(&m.prot), aad, &pl]));
                        m.tag = ret.clone();
                    }
                    _ => return None,
                }
                Some(false)
            },
            |b: coset::CoseMacBuilder, op: &Op| -> Option<coset::CoseMacBuilder> {
                Some(match op {
                    Op::CreateTag { aad, ret, fallible } => {
                        let r = ret.clone();
                        if *fallible {
                            b.try_create_tag(aad, |d| -> Result<Vec<u8>, ()> {
                                set_seen(d);
                                Ok(r)
                            }).ok()?
                        } else {
                            b.create_tag(aad, |d| {
                                set_seen(d);
                                r
                            })
                        }
                    }
                    Op::Protected(h) => b.protected(capi::b_header(h)?),
                    Op::Unprotected(h) => b.unprotected(capi::b_header(h)?),
                    Op::Payload(p) => b.payload(p.clone()),
                    Op::Tag(t) => b.tag(t.clone()),
                    Op::AddRecipient(r) => b.add_recipient(capi::b_rcp(r)?),
                    _ => return None,
                })
            },
            |b: coset::CoseMacBuilder| CVal::Mac(b.build()),
            MVal::Mac
        ),
        BK::Mac0 => drive!(
            coset::CoseMac0Builder::new(),
            MMac0::default(),
            |m: &mut MMac0, op: &Op| -> Option<bool> {
                match op {
                    Op::Protected(h) => m.prot = prot_of(h),
                    Op::Unprotected(h) => m.unprot = h.clone(),
                    Op::Payload(p) => m.payload = Some(p.clone()),
                    Op::Tag(t) => m.tag = t.clone(),
                    Op::CreateTag { aad, ret, .. } => {
                        let pl = match &m.payload {
                            Some(p) => p.clone(),
                            None => return Some(true),
                        };
                        set_want(structure("MAC0", &[&prot_slot(&m.prot), aad, &pl]));
                        m.tag = ret.clone();
                    }
                    _ => return None,
                }
                Some(false)
            },
            |b: coset::CoseMac0Builder, op: &Op| -> Option<coset::CoseMac0Builder> {
                Some(match op {
                    Op::CreateTag { aad, ret, fallible } => {
                        let r = ret.clone();
                        if *fallible {
                            b.try_create_tag(aad, |d| -> Result<Vec<u8>, ()> {
                                set_seen(d);
                                Ok(r)
                            }).ok()?
                        } else {
                            b.create_tag(aad, |d| {
                                set_seen(d);
                                r
                            })
                        }
                    }
                    Op::Protected(h) => b.protected(capi::b_header(h)?),
                    Op::Unprotected(h) => b.unprotected(capi::b_header(h)?),
                    Op::Payload(p) => b.payload(p.clone()),
                    Op::Tag(t) => b.tag(t.clone()),
                    _ => return None,
                })
            },
            |b: coset::CoseMac0Builder| CVal::Mac0(b.build()),
            MVal::Mac0
        ),
        BK::Encrypt => drive!(
            coset::CoseEncryptBuilder::new(),
            MEncrypt::default(),
            |m: &mut MEncrypt, op: &Op| -> Option<bool> {
                match op {
                    Op::Protected(h) => m.prot = prot_of(h),
                    Op::Unprotected(h) => m.unprot = h.clone(),
                    Op::Ciphertext(c) => m.ct = Some(c.clone()),
                    Op::AddRecipient(r) => m.recipients.push(r.clone()),
                    Op::CreateCiphertext { aad, ret, .. } => {
                        set_want(structure("Encrypt", &[&prot_slot(&m.prot), aad]));
                        m.ct = Some(ret.clone());
                    }
                    _ => return None,
                }
                Some(false)
            },
            |b: coset::CoseEncryptBuilder, op: &Op| -> Option<coset::CoseEncryptBuilder> {
                Some(match op {
                    Op::CreateCiphertext { pt, aad, ret, fallible, .. } => {
                        let r = ret.clone();
                        if *fallible {
                            b.try_create_ciphertext(pt, aad, |_p, d| -> Result<Vec<u8>, ()> {
                                set_seen(d);
                                Ok(r)
                            }).ok()?
                        } else {
                            b.create_ciphertext(pt, aad, |_p, d| {
                                set_seen(d);
                                r
                            })
                        }
                    }
                    Op::Protected(h) => b.protected(capi::b_header(h)?),
                    Op::Unprotected(h) => b.unprotected(capi::b_header(h)?),
                    Op::Ciphertext(c) => b.ciphertext(c.clone()),
                    Op::AddRecipient(r) => b.add_recipient(capi::b_rcp(r)?),
                    _ => return None,
                })
            },
            |b: coset::CoseEncryptBuilder| CVal::Encrypt(b.build()),
            MVal::Encrypt
        ),
        BK::Encrypt0 => drive!(
            coset::CoseEncrypt0Builder::new(),
            MEncrypt0::default(),
            |m: &mut MEncrypt0, op: &Op| -> Option<bool> {
                match op {
                    Op::Protected(h) => m.prot = prot_of(h),
                    Op::Unprotected(h) => m.unprot = h.clone(),
                    Op::Ciphertext(c) => m.ct = Some(c.clone()),
                    Op::CreateCiphertext { aad, ret, .. } => {
                        set_want(structure("Encrypt0", &[&prot_slot(&m.prot), aad]));
                        m.ct = Some(ret.clone());
                    }
                    _ => return None,
                }
                Some(false)
            },
            |b: coset::CoseEncrypt0Builder, op: &Op| -> Option<coset::CoseEncrypt0Builder> {
                Some(match op {
                    Op::CreateCiphertext { pt, aad, ret, fallible, .. } => {
                        let r = ret.clone();
                        if *fallible {
                            b.try_create_ciphertext(pt, aad, |_p, d| -> Result<Vec<u8>, ()> {
                                set_seen(d);
                                Ok(r)
                            }).ok()?
                        } else {
                            b.create_ciphertext(pt, aad, |_p, d| {
                                set_seen(d);
                                r
                            })
                        }
                    }
                    Op::Protected(h) => b.protected(capi::b_header(h)?),
                    Op::Unprotected(h) => b.unprotected(capi::b_header(h)?),
                    Op::Ciphertext(c) => b.ciphertext(c.clone()),
                    _ => return None,
                })
            },
            |b: coset::CoseEncrypt0Builder| CVal::Encrypt0(b.build()),
            MVal::Encrypt0
        ),
        BK::Recipient => drive!(
            coset::CoseRecipientBuilder::new(),
            MRecipient::default(),
            |m: &mut MRecipient, op: &Op| -> Option<bool> {
                match op {
                    Op::Protected(h) => m.prot = prot_of(h),
                    Op::Unprotected(h) => m.unprot = h.clone(),
                    Op::Ciphertext(c) => m.ct = Some(c.clone()),
                    Op::AddRecipient(r) => m.recipients.push(r.clone()),
                    Op::CreateCiphertext { context, aad, ret, .. } => {
                        if *context < 2 {
                            return Some(true);
                        }
                        set_want(structure(enc_ctx(*context).1, &[&prot_slot(&m.prot), aad]));
                        m.ct = Some(ret.clone());
                    }
                    _ => return None,
                }
                Some(false)
            },
            |b: coset::CoseRecipientBuilder, op: &Op| -> Option<coset::CoseRecipientBuilder> {
                Some(match op {
                    Op::CreateCiphertext { context, pt, aad, ret, fallible } => {
                        let r = ret.clone();
                        let c = enc_ctx(*context).0;
                        if *fallible {
                            b.try_create_ciphertext(c, pt, aad, |_p, d| -> Result<Vec<u8>, ()> {
                                set_seen(d);
                                Ok(r)
                            }).ok()?
                        } else {
                            b.create_ciphertext(c, pt, aad, |_p, d| {
                                set_seen(d);
                                r
                            })
                        }
                    }
                    Op::Protected(h) => b.protected(capi::b_header(h)?),
                    Op::Unprotected(h) => b.unprotected(capi::b_header(h)?),
                    Op::Ciphertext(c) => b.ciphertext(c.clone()),
                    Op::AddRecipient(r) => b.add_recipient(capi::b_rcp(r)?),
                    _ => return None,
                })
            },
            |b: coset::CoseRecipientBuilder| CVal::Recipient(b.build()),
            MVal::Recipient
        ),
        BK::Key(ctor) => {
            let curve_i = [1i64, 2, 3, 8, 4, 5, 6, 7][(ctx.idx % 4) as usize + if ctx.rng.chance(1, 4) { 4 } else { 0 }];
            // coordinates / key material of lengths around the curve's field size, with leading zero
            // octets, all-zero and high-bit-set variants: the constructors store what they are given
            let field = match curve_i {
                1 | 8 => 32usize,
                2 => 48,
                3 => 66,
                4 | 6 => 32,
                _ => 57,
            };
            let coord = |ctx: &mut Ctx, short: Vec<u8>| -> Vec<u8> {
                if ctx.rng.chance(1, 3) {
                    return short;
                }
                if ctx.rng.chance(1, 6) {
                    // nothing at all, or a whole SEC1 point where one coordinate is expected
                    return match ctx.rng.below(4) {
                        0 => vec![],
                        1 => {
                            let mut v = vec![0x04];
                            v.extend(ctx.rng.bytes(2 * field));
                            v
                        }
                        2 => {
                            let mut v = vec![0x02 + ctx.rng.below(2) as u8];
                            v.extend(ctx.rng.bytes(field));
                            v
                        }
                        _ => {
                            let mut v = vec![0x04];
                            v.extend(ctx.rng.bytes(64));
                            v
                        }
                    };
                }
                let n = if ctx.rng.coin() { (field as i64 + ctx.rng.range(-2, 3)) as usize } else { *ctx.rng.pick(&[0usize, 1, 2, 3, 16, 31, 32, 33, 34, 47, 48, 49, 64, 65, 66, 67, 68, 132]) };
                let mut v = ctx.rng.bytes(n);
                match ctx.rng.below(5) {
                    0 | 1 => {
                        let z = (1 + ctx.rng.below(3)).min(v.len());
                        for b in v.iter_mut().take(z) {
                            *b = 0;
                        }
                    }
                    2 => v.iter_mut().for_each(|b| *b = 0),
                    3 => {
                        if let Some(b) = v.first_mut() {
                            *b |= 0x80;
                        }
                    }
                    _ => {}
                }
                v
            };
            let x = coord(ctx, vec![0x10u8, 0x11]);
            let y = coord(ctx, vec![0x20u8]);
            let d = coord(ctx, vec![0x30u8, 0x31, 0x32]);
            let k = coord(ctx, vec![0x40u8]);
            let curve = match iana::EllipticCurve::from_i64(curve_i) {
                Some(c) => c,
                None => return,
            };
            let ysign = ctx.idx % 2 == 0;
            let empty = MKey { kty: MLabel::Int(0), kid: vec![], alg: None, key_ops: vec![], base_iv: vec![], params: vec![] };
            let (builder, model) = match ctor {
                0 => (coset::CoseKeyBuilder::new(), empty),
                1 => (coset::CoseKeyBuilder::new_ec2_pub_key(curve, x.clone(), y.clone()), MKey { kty: MLabel::Int(2), params: vec![(MLabel::Int(-1), Item::int(curve_i)), (MLabel::Int(-2), Item::Bytes(x.clone())), (MLabel::Int(-3), Item::Bytes(y.clone()))], ..empty }),
                2 => (coset::CoseKeyBuilder::new_ec2_pub_key_y_sign(curve, x.clone(), ysign), MKey { kty: MLabel::Int(2), params: vec![(MLabel::Int(-1), Item::int(curve_i)), (MLabel::Int(-2), Item::Bytes(x.clone())), (MLabel::Int(-3), Item::Bool(ysign))], ..empty }),
                3 => (coset::CoseKeyBuilder::new_ec2_priv_key(curve, x.clone(), y.clone(), d.clone()), MKey { kty: MLabel::Int(2), params: vec![(MLabel::Int(-1), Item::int(curve_i)), (MLabel::Int(-2), Item::Bytes(x.clone())), (MLabel::Int(-3), Item::Bytes(y.clone())), (MLabel::Int(-4), Item::Bytes(d.clone()))], ..empty }),
                4 => (coset::CoseKeyBuilder::new_symmetric_key(k.clone()), MKey { kty: MLabel::Int(4), params: vec![(MLabel::Int(-1), Item::Bytes(k.clone()))], ..empty }),
                _ => (coset::CoseKeyBuilder::new_okp_key(), MKey { kty: MLabel::Int(1), ..empty }),
            };
            drive!(
                builder,
                model,
                |m: &mut MKey, op: &Op| -> Option<bool> {
                    match op {
                        Op::Kty(l) => m.kty = l.clone(),
                        Op::KeyId(v) => m.kid = v.clone(),
                        Op::BaseIv(v) => m.base_iv = v.clone(),
                        Op::KeyType(i) => m.kty = MLabel::Int(*i),
                        Op::Algorithm(i) => m.alg = Some(MLabel::Int(*i)),
                        Op::AddKeyOp(i) => {
                            if !m.key_ops.contains(&MLabel::Int(*i)) {
                                m.key_ops.push(MLabel::Int(*i));
                                m.key_ops.sort();
                            }
                        }
                        Op::Param(l, v) => {
                            if (0..=5).contains(l) {
                                return Some(true);
                            }
                            m.params.push((MLabel::Int(*l), v.clone()));
                        }
                        _ => return None,
                    }
                    Some(false)
                },
                |b: coset::CoseKeyBuilder, op: &Op| -> Option<coset::CoseKeyBuilder> {
                    Some(match op {
                        Op::Kty(l) => b.kty(capi::b_reg(l)?),
                        Op::KeyId(v) => b.key_id(v.clone()),
                        Op::BaseIv(v) => b.base_iv(v.clone()),
                        Op::KeyType(i) => b.key_type(iana::KeyType::from_i64(*i)?),
                        Op::Algorithm(i) => b.algorithm(alg(*i)?),
                        Op::AddKeyOp(i) => b.add_key_op(iana::KeyOperation::from_i64(*i)?),
                        Op::Param(l, v) => b.param(*l, item_to_value(v)),
                        _ => return None,
                    })
                },
                |b: coset::CoseKeyBuilder| CVal::Key(b.build()),
                MVal::Key
            )
        }
        BK::Claims => drive!(
            coset::cwt::ClaimsSetBuilder::new(),
            MClaims::default(),
            |m: &mut MClaims, op: &Op| -> Option<bool> {
                match op {
                    Op::Issuer(s) => m.iss = Some(s.clone()),
                    Op::Subject(s) => m.sub = Some(s.clone()),
                    Op::Audience(s) => m.aud = Some(s.clone()),
                    Op::ExpirationTime(t) => m.exp = Some(t.clone()),
                    Op::NotBefore(t) => m.nbf = Some(t.clone()),
                    Op::IssuedAt(t) => m.iat = Some(t.clone()),
                    Op::CwtId(v) => m.cti = Some(v.clone()),
                    Op::Claim(l, v) => {
                        if (1..=7).contains(l) {
                            return Some(true);
                        }
                        m.rest.push((MLabel::Int(*l), v.clone()));
                    }
                    Op::TextClaim(l, v) => m.rest.push((MLabel::Text(l.clone()), v.clone())),
                    Op::PrivateClaim(l, v) => {
                        if !(*l < -65536) {
                            return Some(true);
                        }
                        m.rest.push((MLabel::Int(*l), v.clone()));
                    }
                    _ => return None,
                }
                Some(false)
            },
            |b: coset::cwt::ClaimsSetBuilder, op: &Op| -> Option<coset::cwt::ClaimsSetBuilder> {
                Some(match op {
                    Op::Issuer(s) => b.issuer(s.clone()),
                    Op::Subject(s) => b.subject(s.clone()),
                    Op::Audience(s) => b.audience(s.clone()),
                    Op::ExpirationTime(t) => b.expiration_time(to_ts(t)),
                    Op::NotBefore(t) => b.not_before(to_ts(t)),
                    Op::IssuedAt(t) => b.issued_at(to_ts(t)),
                    Op::CwtId(v) => b.cwt_id(v.clone()),
                    Op::Claim(l, v) => b.claim(iana::CwtClaimName::from_i64(*l)?, item_to_value(v)),
                    Op::TextClaim(l, v) => b.text_claim(l.clone(), item_to_value(v)),
                    Op::PrivateClaim(l, v) => b.private_claim(*l, item_to_value(v)),
                    _ => return None,
                })
            },
            |b: coset::cwt::ClaimsSetBuilder| CVal::Claims(b.build()),
            MVal::Claims
        ),
        BK::Party => drive!(
            coset::PartyInfoBuilder::new(),
            MParty::default(),
            |m: &mut MParty, op: &Op| -> Option<bool> {
                match op {
                    Op::Identity(v) => m.identity = Some(v.clone()),
                    Op::Nonce(n) => m.nonce = Some(n.clone()),
                    Op::Other(v) => m.other = Some(v.clone()),
                    _ => return None,
                }
                Some(false)
            },
            |b: coset::PartyInfoBuilder, op: &Op| -> Option<coset::PartyInfoBuilder> {
                Some(match op {
                    Op::Identity(v) => b.identity(v.clone()),
                    Op::Nonce(n) => b.nonce(match n {
                        MNonce::Bytes(x) => coset::Nonce::Bytes(x.clone()),
                        MNonce::Int(i) => coset::Nonce::Integer(*i),
                    }),
                    Op::Other(v) => b.other(v.clone()),
                    _ => return None,
                })
            },
            |b: coset::PartyInfoBuilder| CVal::Party(b.build()),
            MVal::Party
        ),
        BK::SuppPub => drive!(
            coset::SuppPubInfoBuilder::new(),
            MSuppPub::default(),
            |m: &mut MSuppPub, op: &Op| -> Option<bool> {
                match op {
                    Op::KeyDataLength(n) => m.key_data_length = *n,
                    Op::Protected(h) => m.prot = prot_of(h),
                    Op::Other(v) => m.other = Some(v.clone()),
                    _ => return None,
                }
                Some(false)
            },
            |b: coset::SuppPubInfoBuilder, op: &Op| -> Option<coset::SuppPubInfoBuilder> {
                Some(match op {
                    Op::KeyDataLength(n) => b.key_data_length(*n),
                    Op::Protected(h) => b.protected(capi::b_header(h)?),
                    Op::Other(v) => b.other(v.clone()),
                    _ => return None,
                })
            },
            |b: coset::SuppPubInfoBuilder| CVal::SuppPub(b.build()),
            MVal::SuppPub
        ),
        BK::Kdf => drive!(
            coset::CoseKdfContextBuilder::new(),
            // Default algorithm is Assigned(Reserved) = 0
            MKdf { alg: MLabel::Int(0), u: MParty::default(), v: MParty::default(), supp: MSuppPub::default(), priv_info: vec![] },
            |m: &mut MKdf, op: &Op| -> Option<bool> {
                match op {
                    Op::Algorithm(i) => m.alg = MLabel::Int(*i),
                    Op::PartyU(p) => m.u = p.clone(),
                    Op::PartyV(p) => m.v = p.clone(),
                    Op::SuppPubInfo(s) => m.supp = s.clone(),
                    Op::AddSuppPrivInfo(v) => m.priv_info.push(v.clone()),
                    _ => return None,
                }
                Some(false)
            },
            |b: coset::CoseKdfContextBuilder, op: &Op| -> Option<coset::CoseKdfContextBuilder> {
                Some(match op {
                    Op::Algorithm(i) => b.algorithm(alg(*i)?),
                    Op::PartyU(p) => b.party_u_info(capi::b_party(p)),
                    Op::PartyV(p) => b.party_v_info(capi::b_party(p)),
                    Op::SuppPubInfo(s) => b.supp_pub_info(capi::b_supp(s)?),
                    Op::AddSuppPrivInfo(v) => b.add_supp_priv_info(v.clone()),
                    _ => return None,
                })
            },
            |b: coset::CoseKdfContextBuilder| CVal::Kdf(b.build()),
            |mut m: MKdf| {
                // the context is observed through its encoding, where a built protected header
                // carries the bytes encoding assigns to it
                let mut v = MVal::Kdf(m.clone());
                assign_prot_bytes(&mut v);
                if let MVal::Kdf(k) = v {
                    m = k;
                }
                MVal::Kdf(m)
            }
        ),
    }
}

fn op_name(op: &Op) -> &'static str {
    match op {
        Op::KeyId(_) => "key_id",
        Op::Algorithm(_) => "algorithm",
        Op::AddCritical(_) => "add_critical",
        Op::AddCriticalLabel(_) => "add_critical_label",
        Op::ContentFormat(_) => "content_format",
        Op::ContentType(_) => "content_type",
        Op::Iv(_) => "iv",
        Op::PartialIv(_) => "partial_iv",
        Op::AddCounterSignature(_) => "add_counter_signature",
        Op::Value(..) => "value",
        Op::TextValue(..) => "text_value",
        Op::Protected(_) => "protected",
        Op::Unprotected(_) => "unprotected",
        Op::Payload(_) => "payload",
        Op::Ciphertext(_) => "ciphertext",
        Op::Signature(_) => "signature",
        Op::Tag(_) => "tag",
        Op::AddSignature(_) => "add_signature",
        Op::AddRecipient(_) => "add_recipient",
        Op::Kty(_) => "kty",
        Op::BaseIv(_) => "base_iv",
        Op::KeyType(_) => "key_type",
        Op::AddKeyOp(_) => "add_key_op",
        Op::Param(..) => "param",
        Op::Issuer(_) => "issuer",
        Op::Subject(_) => "subject",
        Op::Audience(_) => "audience",
        Op::ExpirationTime(_) => "expiration_time",
        Op::NotBefore(_) => "not_before",
        Op::IssuedAt(_) => "issued_at",
        Op::CwtId(_) => "cwt_id",
        Op::Claim(..) => "claim",
        Op::TextClaim(..) => "text_claim",
        Op::PrivateClaim(..) => "private_claim",
        Op::Identity(_) => "identity",
        Op::Nonce(_) => "nonce",
        Op::Other(_) => "other",
        Op::KeyDataLength(_) => "key_data_length",
        Op::PartyU(_) => "party_u_info",
        Op::PartyV(_) => "party_v_info",
        Op::SuppPubInfo(_) => "supp_pub_info",
        Op::AddSuppPrivInfo(_) => "add_supp_priv_info",
        Op::CreateSignature { fallible: false, detached: None, .. } => "create_signature",
        Op::CreateSignature { fallible: true, detached: None, .. } => "try_create_signature",
        Op::CreateSignature { fallible: false, .. } => "create_detached_signature",
        Op::CreateSignature { fallible: true, .. } => "try_create_detached_signature",
        Op::AddCreatedSignature { fallible: false, detached: None, .. } => "add_created_signature",
        Op::AddCreatedSignature { fallible: true, detached: None, .. } => "try_add_created_signature",
        Op::AddCreatedSignature { fallible: false, .. } => "add_detached_signature",
        Op::AddCreatedSignature { fallible: true, .. } => "try_add_detached_signature",
        Op::CreateTag { fallible: false, .. } => "create_tag",
        Op::CreateTag { fallible: true, .. } => "try_create_tag",
        Op::CreateCiphertext { fallible: false, .. } => "create_ciphertext",
        Op::CreateCiphertext { fallible: true, .. } => "try_create_ciphertext",
    }
}

impl Check for C19 {
    fn id(&self) -> &'static str {
        "C19"
    }
    fn phases(&self, tier: Tier, b: f64) -> Vec<Phase> {
        let q = tier == Tier::Quick;
        vec![
            Phase { name: "every call sequence of length <= 2 over the argument palette, for each of the 14 builders (19 incl. the key constructors)", cases: 19 * 64, exhaustive: true },
            Phase { name: "every call sequence of length 3 for header / key / claims builders (thorough)", cases: if q { 0 } else { 3 * 64 * 64 }, exhaustive: true },
            Phase { name: "random call sequences of length <= 12", cases: scale(if q { 600000 } else { 3000000 }, b), exhaustive: false },
        ]
    }
    fn run_case(&self, ctx: &mut Ctx, phase: usize, idx: u64) {
        match phase {
            0 => {
                let bk = BUILDERS[(idx / 64) as usize];
                let pal = palette(bk, ctx);
                if pal.len() > 64 {
                    ctx.harness_errors.push(format!("palette of {:?} has {} entries (> 64)", bk, pal.len()));
                }
                let i = (idx % 64) as usize;
                if i == 0 {
                    run_seq(ctx, bk, &[]);
                }
                if i >= pal.len() {
                    return;
                }
                run_seq(ctx, bk, &[pal[i].clone()]);
                for second in &pal {
                    run_seq(ctx, bk, &[pal[i].clone(), second.clone()]);
                }
            }
            1 => {
                let bk = [BK::Header, BK::Key(0), BK::Claims][(idx / 4096) as usize];
                let pal = palette(bk, ctx);
                let (i, j) = (((idx % 4096) / 64) as usize, (idx % 64) as usize);
                if i >= pal.len() || j >= pal.len() {
                    return;
                }
                for third in &pal {
                    run_seq(ctx, bk, &[pal[i].clone(), pal[j].clone(), third.clone()]);
                }
            }
            _ => {
                let bk = BUILDERS[(idx % 19) as usize];
                let n = ctx.rng.below(13);
                let ops: Vec<Op> = (0..n).map(|_| random_op(bk, ctx)).collect();
                run_seq(ctx, bk, &ops);
                if idx < 19 {
                    ctx.sample(|| J::obj(vec![("builder", J::Str(format!("{:?}", bk))), ("calls", report_seq(&ops)), ("outcome", J::s("built value equals the field-map model; documented panics observed exactly for reserved labels"))]));
                }
            }
        }
    }
    fn rule(&self) -> String {
        "call sequences over every public setter/adder of the 14 builders (header, signature, sign, sign1, mac, mac0, encrypt, encrypt0, recipient, key with its five constructors and new(), claims set, party info, supplementary info, KDF context), including the closure-taking create/add helpers (their effect on the built value, the bytes handed to the closure given the builder's state at the call, and their documented refusals) with an argument palette of empty, boundary and reserved values (labels 0,1,2,6,7,8 / 0..6 / claims 0,1,4,7,8,9 / private ids -65536, -65537, 0, 1, extremes): all sequences of length <= 2 (and length 3 for header/key/claims in thorough), plus random sequences of length <= 12. Oracle: a field-map model (setter replaces its field only, adder appends / inserts into the operation set, iv clears partial_iv and vice versa, protected(h) stores h without retained bytes, constructors populate exactly kty and the named parameters, reserved labels must panic and nothing else may); build() compared with the model through public fields. Non-trivial = distinct call sequences.".into()
    }
    fn assumptions(&self) -> Vec<String> {
        vec!["CoseKdfContext is observed through its encoding (private fields)".into(), "HeaderBuilder::value is modelled as refusing labels 1-7 (the property statement and the code; the doc comment says 1-6)".into()]
    }
    fn finish(&self, m: &mut Ctx) -> Result<(), String> {
        for bk in BUILDERS {
            if m.counters.get(&format!("built:{:?}", bk)).copied().unwrap_or(0) < 50 {
                return Err(format!("builder {:?} built fewer than 50 values", bk));
            }
        }
        if m.counters.get("documented-panics").copied().unwrap_or(0) < 100 {
            return Err("fewer than 100 documented panics observed".into());
        }
        Ok(())
    }
}
