//! C06 - what is signed, MACed or encrypted is what is later verified or decrypted.
//! Histories of builder calls -> build -> encode -> decode -> verify/decrypt, observed through
//! recording closures; every produced signature/tag/ciphertext carries a unique id.

use crate::capi;
use crate::gen::{self, GenOpts};
use crate::json::J;
use crate::mon::{guard, scale, Check, Ctx, Phase, Tier};
use crate::rcbor::hex;
use coset::iana;
use coset::{CborSerializable, EncryptionContext, TaggedCborSerializable};

pub struct C06;

#[derive(Clone, Debug)]
struct Rec {
    /// what the creating closure was handed
    data: Vec<u8>,
    /// what it returned (unique)
    ret: Vec<u8>,
    aad: Vec<u8>,
    detached: Option<Vec<u8>>,
    helper: &'static str,
}

/// what a creating function returns: a value unique to the call, or (one time in twelve) nothing at
/// all - a zero-length signature / tag / ciphertext is a value like any other
fn created(ctx: &mut Ctx, k: &mut u32) -> Vec<u8> {
    if ctx.rng.chance(1, 12) {
        *k += 1;
        ctx.count("creator-returned-empty");
        return vec![];
    }
    if ctx.rng.chance(1, 10) {
        // a value in a well-known container format (ASN.1 DER ECDSA signature): the message stores
        // and the verifier receives what the creating function returned, byte for byte
        let id = uid(ctx, k);
        let mut r = vec![0x01];
        r.extend_from_slice(&id);
        r.resize(32, 0x5a);
        let s2: Vec<u8> = (0..32).map(|i| 0x11 + i as u8).collect();
        let mut v = vec![0x30, 0x44, 0x02, 0x20];
        v.extend_from_slice(&r);
        v.extend_from_slice(&[0x02, 0x20]);
        v.extend_from_slice(&s2);
        ctx.count("creator-returned-der");
        return v;
    }
    uid(ctx, k)
}

fn uid(ctx: &mut Ctx, k: &mut u32) -> Vec<u8> {
    *k += 1;
    let mut v = vec![0xC0, *k as u8];
    v.extend_from_slice(&(ctx.phase as u16).to_be_bytes());
    v.extend_from_slice(&ctx.idx.to_be_bytes());
    v
}

fn header(ctx: &mut Ctx) -> coset::Header {
    let o = GenOpts::built();
    loop {
        let mut h = gen::gen_header(&mut ctx.rng, &o, 1);
        match ctx.rng.below(8) {
            0 => {
                // only extension parameters
                let rest = if h.rest.is_empty() { vec![(crate::model::MLabel::Int(-70001), crate::rcbor::Item::int(1))] } else { h.rest.clone() };
                h = crate::model::MHeader::default();
                h.rest = rest;
            }
            1 => {
                // only counter signatures
                let cs = if h.csigs.is_empty() { vec![crate::model::MSignature::default()] } else { h.csigs.clone() };
                h = crate::model::MHeader::default();
                h.csigs = cs;
            }
            2 => {
                // exactly one typed field, possibly with a default-looking value
                h = crate::model::MHeader::default();
                match ctx.rng.below(6) {
                    0 => h.piv = vec![ctx.rng.next() as u8],
                    1 => h.iv = vec![ctx.rng.next() as u8],
                    2 => h.alg = Some(crate::model::MLabel::Int(0)),
                    3 => h.ct = Some(crate::model::MLabel::Int(0)),
                    4 => h.crit = vec![crate::model::MLabel::Int(0)],
                    _ => h.kid = vec![0],
                }
            }
            _ => {}
        }
        if ctx.rng.chance(1, 8) {
            h.alg = Some(crate::model::MLabel::Int(*ctx.rng.pick(&[-7i64, -35, -36, -8, -37, 5, 1, -6, -3])));
        }
        if let Some(c) = capi::b_header(&h) {
            return c;
        }
    }
}

/// The same signer as a caller would hold it after *decoding* it: the protected header keeps
/// received bytes, here in a non-canonical encoding of the same content.
fn as_received(ctx: &mut Ctx, s: coset::CoseSignature) -> coset::CoseSignature {
    use coset::CborSerializable;
    let mut n = capi::Notes(vec![]);
    let mh = capi::v_header(&s.protected.header, &mut n);
    let pb = gen::prot_bytes(&mut ctx.rng, &mh, 255);
    let unprot = match guard(|| s.unprotected.clone().to_vec()) {
        Ok(Ok(u)) => u,
        _ => return s,
    };
    let mut wire = vec![0x83];
    crate::rcbor::put_head(&mut wire, 2, pb.len() as u64, &mut crate::rcbor::Style::canonical());
    wire.extend_from_slice(&pb);
    wire.extend_from_slice(&unprot);
    crate::rcbor::put_head(&mut wire, 2, s.signature.len() as u64, &mut crate::rcbor::Style::canonical());
    wire.extend_from_slice(&s.signature);
    match guard(|| coset::CoseSignature::from_slice(&wire)) {
        Ok(Ok(x)) => {
            ctx.count("signer-template-as-received");
            x
        }
        _ => s,
    }
}

fn small(ctx: &mut Ctx) -> Vec<u8> {
    match ctx.rng.below(6) {
        0 => vec![],
        1 => {
            let n = *ctx.rng.pick(&[23usize, 24, 255, 256]);
            ctx.rng.bytes(n)
        }
        _ => {
            let n = 1 + ctx.rng.below(12);
            ctx.rng.bytes(n)
        }
    }
}

fn other_than(ctx: &mut Ctx, b: &[u8]) -> Vec<u8> {
    let mut v = b.to_vec();
    match ctx.rng.below(3) {
        0 => v.push(0),
        1 if !v.is_empty() => {
            let i = ctx.rng.below(v.len());
            v[i] ^= 1;
        }
        _ => v.insert(0, 0x5a),
    }
    v
}

/// change one thing in a protected header (the retained bytes are dropped, as a caller who edits
/// the parsed header must do)
fn perturb_protected(ctx: &mut Ctx, p: &mut coset::ProtectedHeader) -> &'static str {
    p.original_data = None;
    // prefer changing a field that is populated (a header holding only that field must still count)
    let h = &mut p.header;
    let mut populated: Vec<u8> = Vec::new();
    if !h.iv.is_empty() {
        populated.push(0);
    }
    if !h.partial_iv.is_empty() {
        populated.push(1);
    }
    if !h.crit.is_empty() {
        populated.push(2);
    }
    if h.content_type.is_some() {
        populated.push(3);
    }
    if !h.counter_signatures.is_empty() {
        populated.push(4);
    }
    if !populated.is_empty() && ctx.rng.chance(2, 3) {
        match populated[ctx.rng.below(populated.len())] {
            0 => {
                h.iv[0] ^= 0x55;
                return "body protected header (IV)";
            }
            1 => {
                h.partial_iv[0] ^= 0x55;
                return "body protected header (Partial IV)";
            }
            2 => {
                h.crit.push(coset::RegisteredLabel::Text("x".into()));
                return "body protected header (crit)";
            }
            3 => {
                h.content_type = Some(match h.content_type {
                    Some(coset::ContentType::Assigned(iana::CoapContentFormat::Cbor)) => coset::ContentType::Assigned(iana::CoapContentFormat::Json),
                    _ => coset::ContentType::Assigned(iana::CoapContentFormat::Cbor),
                });
                return "body protected header (content type)";
            }
            _ => {
                h.counter_signatures[0].signature.push(1);
                return "body protected header (counter signature)";
            }
        }
    }
    match ctx.rng.below(5) {
        0 => {
            p.header.key_id = other_than(ctx, &p.header.key_id.clone());
            "body protected header (key id)"
        }
        1 => {
            p.header.rest.push((coset::Label::Int(-70002 - ctx.rng.below(5) as i64), coset::cbor::value::Value::Bool(true)));
            "body protected header (extra parameter added)"
        }
        2 if !p.header.rest.is_empty() => {
            p.header.rest[0].1 = coset::cbor::value::Value::Text("changed".into());
            "body protected header (extra parameter value)"
        }
        3 => {
            p.header.counter_signatures.push(coset::CoseSignature::default());
            "body protected header (counter signature added)"
        }
        _ => {
            p.header.alg = match p.header.alg {
                Some(coset::Algorithm::Assigned(iana::Algorithm::ES256)) => Some(coset::Algorithm::Assigned(iana::Algorithm::ES384)),
                _ => Some(coset::Algorithm::Assigned(iana::Algorithm::ES256)),
            };
            "body protected header (algorithm)"
        }
    }
}

fn bad(ctx: &mut Ctx, class: &str, detail: String, hist: &[String]) {
    ctx.violation(&format!("C06/{}", class), detail, J::obj(vec![("history", J::Arr(hist.iter().map(|s| J::s(s)).collect()))]));
}

/// compare what a verifier/decrypter closure saw with the record of the creator
fn check_seen(ctx: &mut Ctx, family: &str, seen: Option<(Vec<u8>, Vec<u8>)>, rec: &Rec, hist: &[String]) {
    ctx.eval();
    ctx.count(&format!("verified:{}:{}", family, rec.helper));
    match seen {
        None => bad(ctx, &format!("closure-not-called/{}", family), "the verifying closure was not invoked".into(), hist),
        Some((s, d)) => {
            if s != rec.ret {
                bad(ctx, &format!("stored-value-differs/{}/{}", family, rec.helper), format!("verifier received {} but the creator returned {}", hex(&s), hex(&rec.ret)), hist);
            }
            if d != rec.data {
                bad(ctx, &format!("data-differs/{}/{}", family, rec.helper), format!("verifier was handed {} but the creator had been handed {}", super::structs::short(&d), super::structs::short(&rec.data)), hist);
            } else {
                ctx.nontrivial_bytes(&d);
            }
        }
    }
}

fn check_perturbed(ctx: &mut Ctx, family: &str, what: &str, seen: Option<Vec<u8>>, rec: &Rec, hist: &[String]) {
    ctx.eval();
    ctx.count(&format!("perturbed:{}", what));
    if let Some(d) = seen {
        if d == rec.data {
            bad(ctx, &format!("perturbation-invisible/{}/{}", family, what), format!("changing the {} leaves the bytes handed to the verifier unchanged", what), hist);
        }
    }
}

// ---------------------------------------------------------------------------------------------

fn sign1_history(ctx: &mut Ctx) {
    let mut hist: Vec<String> = vec!["CoseSign1Builder::new()".into()];
    let mut k = 0u32;
    let mut b = coset::CoseSign1Builder::new();
    let mut payload: Option<Vec<u8>> = None;
    let mut rec: Option<Rec> = None;
    for _ in 0..ctx.rng.below(5) {
        match ctx.rng.below(4) {
            0 => {
                b = b.protected(header(ctx));
                hist.push("protected(h)".into());
            }
            1 => {
                b = b.unprotected(header(ctx));
                hist.push("unprotected(h)".into());
            }
            2 => {
                let p = small(ctx);
                hist.push(format!("payload({})", hex(&p)));
                payload = Some(p.clone());
                b = b.payload(p);
            }
            _ => {
                let s = small(ctx);
                hist.push(format!("signature({})", hex(&s)));
                b = b.signature(s);
            }
        }
    }
    let nb = 1 + ctx.rng.below(3);
    for _ in 0..nb {
        let aad = small(ctx);
        let ret = created(ctx, &mut k);
        let variant = ctx.rng.below(if payload.is_none() { 6 } else { 4 });
        let mut seen: Option<Vec<u8>> = None;
        match variant {
            0 => {
                hist.push(format!("create_signature(aad={})", hex(&aad)));
                let r2 = ret.clone();
                match guard(|| b.create_signature(&aad, |d| {
                    seen = Some(d.to_vec());
                    r2
                })) {
                    Ok(nb) => b = nb,
                    Err(p) => return bad(ctx, "unexpected-panic/create_signature", p.site(), &hist),
                }
                rec = Some(Rec { data: seen.unwrap_or_default(), ret, aad, detached: None, helper: "create_signature" });
            }
            1 => {
                let fail = ctx.rng.chance(1, 4);
                hist.push(format!("try_create_signature(aad={}, fail={})", hex(&aad), fail));
                let r2 = ret.clone();
                match guard(|| b.try_create_signature(&aad, |d| -> Result<Vec<u8>, Vec<u8>> {
                    seen = Some(d.to_vec());
                    if fail {
                        Err(r2)
                    } else {
                        Ok(r2)
                    }
                })) {
                    Ok(Ok(nb)) if !fail => b = nb,
                    Ok(Err(e)) if fail => {
                        ctx.eval();
                        ctx.count("creator-error-propagated");
                        if e != ret {
                            bad(ctx, "creator-error-altered/try_create_signature", "the error of the failing creator was altered".into(), &hist);
                        }
                        return;
                    }
                    Ok(_) => return bad(ctx, "creator-error-swallowed/try_create_signature", format!("creator fail={} but the helper returned the opposite", fail), &hist),
                    Err(p) => return bad(ctx, "unexpected-panic/try_create_signature", p.site(), &hist),
                }
                rec = Some(Rec { data: seen.unwrap_or_default(), ret, aad, detached: None, helper: "try_create_signature" });
            }
            2 => {
                b = b.unprotected(header(ctx));
                hist.push("unprotected(h)".into());
            }
            3 => {
                let s = uid(ctx, &mut k);
                hist.push(format!("signature({})", hex(&s)));
                b = b.signature(s.clone());
                // the model follows the overwrite: what is stored is s, created data no longer applies
                rec = rec.map(|mut r| {
                    r.ret = s;
                    r
                });
            }
            4 => {
                let dp = small(ctx);
                hist.push(format!("create_detached_signature(payload={}, aad={})", hex(&dp), hex(&aad)));
                let r2 = ret.clone();
                match guard(|| b.create_detached_signature(&dp, &aad, |d| {
                    seen = Some(d.to_vec());
                    r2
                })) {
                    Ok(nb) => b = nb,
                    Err(p) => return bad(ctx, "unexpected-panic/create_detached_signature", p.site(), &hist),
                }
                rec = Some(Rec { data: seen.unwrap_or_default(), ret, aad, detached: Some(dp), helper: "create_detached_signature" });
            }
            _ => {
                let dp = small(ctx);
                let fail = ctx.rng.chance(1, 4);
                hist.push(format!("try_create_detached_signature(payload={}, aad={}, fail={})", hex(&dp), hex(&aad), fail));
                let r2 = ret.clone();
                match guard(|| b.try_create_detached_signature(&dp, &aad, |d| -> Result<Vec<u8>, Vec<u8>> {
                    seen = Some(d.to_vec());
                    if fail {
                        Err(r2)
                    } else {
                        Ok(r2)
                    }
                })) {
                    Ok(Ok(nb)) if !fail => b = nb,
                    Ok(Err(e)) if fail => {
                        ctx.eval();
                        ctx.count("creator-error-propagated");
                        if e != ret {
                            bad(ctx, "creator-error-altered/try_create_detached_signature", "the error of the failing creator was altered".into(), &hist);
                        }
                        return;
                    }
                    Ok(_) => return bad(ctx, "creator-error-swallowed/try_create_detached_signature", "result of the creator not propagated".into(), &hist),
                    Err(p) => return bad(ctx, "unexpected-panic/try_create_detached_signature", p.site(), &hist),
                }
                rec = Some(Rec { data: seen.unwrap_or_default(), ret, aad, detached: Some(dp), helper: "try_create_detached_signature" });
            }
        }
    }
    let msg = b.build();
    let tagged = ctx.rng.coin();
    hist.push(format!("build(); encode(tagged={}); decode()", tagged));
    let back = if tagged { guard(|| msg.clone().to_tagged_vec().and_then(|b| coset::CoseSign1::from_tagged_slice(&b))) } else { guard(|| msg.clone().to_vec().and_then(|b| coset::CoseSign1::from_slice(&b))) };
    let m = match back {
        Ok(Ok(m)) => m,
        Ok(Err(e)) => return bad(ctx, "roundtrip-failed/Sign1", format!("{:?}", capi::ek(&e)), &hist),
        Err(p) => return bad(ctx, "unexpected-panic/roundtrip", p.site(), &hist),
    };
    let rec = match rec {
        Some(r) => r,
        None => return,
    };
    let run = |m: &coset::CoseSign1, aad: &[u8], det: &Option<Vec<u8>>, ret_err: Option<Vec<u8>>| {
        let mut seen = None;
        let r = match det {
            Some(p) => guard(|| m.verify_detached_signature(p, aad, |s, d| -> Result<(), Vec<u8>> {
                seen = Some((s.to_vec(), d.to_vec()));
                match ret_err.clone() {
                    Some(e) => Err(e),
                    None => Ok(()),
                }
            })),
            None => guard(|| m.verify_signature(aad, |s, d| -> Result<(), Vec<u8>> {
                seen = Some((s.to_vec(), d.to_vec()));
                match ret_err.clone() {
                    Some(e) => Err(e),
                    None => Ok(()),
                }
            })),
        };
        (seen, r)
    };
    let verr = if ctx.rng.coin() { Some(uid(ctx, &mut k)) } else { None };
    let (seen, r) = run(&m, &rec.aad, &rec.detached, verr.clone());
    match r {
        Ok(res) => {
            check_seen(ctx, "Sign1", seen, &rec, &hist);
            let want: Result<(), Vec<u8>> = match verr {
                Some(e) => Err(e),
                None => Ok(()),
            };
            if res != want {
                bad(ctx, "result-altered/Sign1::verify", "the verifier's result was not returned unchanged".into(), &hist);
            }
        }
        Err(p) => return bad(ctx, "unexpected-panic/verify", p.site(), &hist),
    }
    // perturbations
    let aad2 = other_than(ctx, &rec.aad);
    let (seen, _) = run(&m, &aad2, &rec.detached, None);
    check_perturbed(ctx, "Sign1", "external AAD", seen.map(|x| x.1), &rec, &hist);
    // an external AAD that is itself the structure the creator was handed is still a different AAD
    let aad3 = rec.data.clone();
    let (seen, _) = run(&m, &aad3, &rec.detached, None);
    check_perturbed(ctx, "Sign1", "external AAD (replaced by the structure itself)", seen.map(|x| x.1), &rec, &hist);
    if let Some(p) = &rec.detached {
        let p2 = Some(other_than(ctx, p));
        let (seen, _) = run(&m, &rec.aad, &p2, None);
        check_perturbed(ctx, "Sign1", "detached payload", seen.map(|x| x.1), &rec, &hist);
    } else if m.payload.is_some() {
        let mut m2 = m.clone();
        m2.payload = Some(other_than(ctx, m.payload.as_ref().unwrap()));
        let (seen, _) = run(&m2, &rec.aad, &None, None);
        check_perturbed(ctx, "Sign1", "payload", seen.map(|x| x.1), &rec, &hist);
    }
    let mut m3 = m.clone();
    let what = perturb_protected(ctx, &mut m3.protected);
    let (seen, _) = run(&m3, &rec.aad, &rec.detached, None);
    check_perturbed(ctx, "Sign1", what, seen.map(|x| x.1), &rec, &hist);
    // the message as built (never parsed): its own verification sees the creator's bytes, and a
    // change to its protected header changes them
    if rec.ret == msg.signature {
        let (seen, _) = run(&msg, &rec.aad, &rec.detached, None);
        check_seen(ctx, "Sign1(as built)", seen, &rec, &hist);
        let mut mb = msg.clone();
        let what = perturb_protected(ctx, &mut mb.protected);
        let (seen, _) = run(&mb, &rec.aad, &rec.detached, None);
        check_perturbed(ctx, "Sign1(as built)", what, seen.map(|x| x.1), &rec, &hist);
    }
}

fn sign_history(ctx: &mut Ctx) {
    let mut hist: Vec<String> = vec!["CoseSignBuilder::new()".into()];
    let mut k = 0u32;
    let mut b = coset::CoseSignBuilder::new();
    let mut payload: Option<Vec<u8>> = None;
    let mut recs: Vec<Option<Rec>> = Vec::new();
    // A hand-made signer whose header names an algorithm number that is neither registered nor
    // private use can be signed and encoded but not parsed back: for such a history the round trip may
    // fail (then there is nothing to verify), but it must not succeed with the signers renumbered.
    let undecodable = std::cell::Cell::new(false);
    // one history in eight: the body header and the signers' headers differ only in the sign of a
    // floating-point zero (equal under `==`, different on the wire)
    let mut twin: Option<coset::Header> = None;
    if ctx.rng.chance(1, 8) {
        let (ha, hb) = super::structs::zero_twins(ctx);
        if let (Some(a), Some(bh)) = (capi::b_header(&ha), capi::b_header(&hb)) {
            b = b.protected(a);
            hist.push("protected(h with +-0.0)".into());
            twin = Some(bh);
        }
    }
    let mk_sig = |ctx: &mut Ctx| {
        let ph = match &twin {
            Some(t) if ctx.rng.chance(2, 3) => t.clone(),
            _ => header(ctx),
        };
        let mut s = coset::CoseSignatureBuilder::new().protected(ph).unprotected(header(ctx)).signature(small(ctx)).build();
        if ctx.rng.chance(1, 16) {
            let odd = Some(coset::RegisteredLabelWithPrivate::PrivateUse(*ctx.rng.pick(&[12345i64, 8, -9, -65536, 70000])));
            if ctx.rng.coin() {
                s.protected.header.alg = odd;
            } else {
                s.unprotected.alg = odd;
            }
            undecodable.set(true);
            ctx.count("signer-with-unparseable-algorithm");
            return s;
        }
        // a third of the signer templates are held as a decoder would have produced them
        if ctx.rng.chance(1, 3) {
            as_received(ctx, s)
        } else {
            s
        }
    };
    for _ in 0..ctx.rng.below(5) {
        match ctx.rng.below(4) {
            0 if twin.is_none() => {
                b = b.protected(header(ctx));
                hist.push("protected(h)".into());
            }
            0 | 1 => {
                b = b.unprotected(header(ctx));
                hist.push("unprotected(h)".into());
            }
            2 => {
                let p = small(ctx);
                hist.push(format!("payload({})", hex(&p)));
                payload = Some(p.clone());
                b = b.payload(p);
            }
            _ => {
                b = b.add_signature(mk_sig(ctx));
                recs.push(None);
                hist.push("add_signature(sig)".into());
            }
        }
    }
    let nb = 1 + ctx.rng.below(4);
    for _ in 0..nb {
        let aad = small(ctx);
        let ret = created(ctx, &mut k);
        let sig = mk_sig(ctx);
        let variant = ctx.rng.below(if payload.is_none() { 6 } else { 4 });
        let mut seen: Option<Vec<u8>> = None;
        let r2 = ret.clone();
        match variant {
            0 => {
                hist.push(format!("add_created_signature(sig, aad={})", hex(&aad)));
                match guard(|| b.add_created_signature(sig, &aad, |d| {
                    seen = Some(d.to_vec());
                    r2
                })) {
                    Ok(nb) => b = nb,
                    Err(p) => return bad(ctx, "unexpected-panic/add_created_signature", p.site(), &hist),
                }
                recs.push(Some(Rec { data: seen.unwrap_or_default(), ret, aad, detached: None, helper: "add_created_signature" }));
            }
            1 => {
                let fail = ctx.rng.chance(1, 4);
                hist.push(format!("try_add_created_signature(sig, aad={}, fail={})", hex(&aad), fail));
                match guard(|| b.try_add_created_signature(sig, &aad, |d| -> Result<Vec<u8>, Vec<u8>> {
                    seen = Some(d.to_vec());
                    if fail {
                        Err(r2)
                    } else {
                        Ok(r2)
                    }
                })) {
                    Ok(Ok(nb)) if !fail => b = nb,
                    Ok(Err(e)) if fail => {
                        ctx.eval();
                        ctx.count("creator-error-propagated");
                        if e != ret {
                            bad(ctx, "creator-error-altered/try_add_created_signature", "error altered".into(), &hist);
                        }
                        return;
                    }
                    Ok(_) => return bad(ctx, "creator-error-swallowed/try_add_created_signature", "result of the creator not propagated".into(), &hist),
                    Err(p) => return bad(ctx, "unexpected-panic/try_add_created_signature", p.site(), &hist),
                }
                recs.push(Some(Rec { data: seen.unwrap_or_default(), ret, aad, detached: None, helper: "try_add_created_signature" }));
            }
            2 => {
                b = b.unprotected(header(ctx));
                hist.push("unprotected(h)".into());
            }
            3 => {
                // sometimes the very same signer twice: signers are a sequence, nothing is merged
                if ctx.rng.chance(1, 3) {
                    b = b.add_signature(sig.clone());
                    recs.push(None);
                    hist.push("add_signature(sig)".into());
                }
                b = b.add_signature(sig);
                recs.push(None);
                hist.push("add_signature(sig)".into());
            }
            4 => {
                let dp = small(ctx);
                hist.push(format!("add_detached_signature(sig, payload={}, aad={})", hex(&dp), hex(&aad)));
                match guard(|| b.add_detached_signature(sig, &dp, &aad, |d| {
                    seen = Some(d.to_vec());
                    r2
                })) {
                    Ok(nb) => b = nb,
                    Err(p) => return bad(ctx, "unexpected-panic/add_detached_signature", p.site(), &hist),
                }
                recs.push(Some(Rec { data: seen.unwrap_or_default(), ret, aad, detached: Some(dp), helper: "add_detached_signature" }));
            }
            _ => {
                let dp = small(ctx);
                let fail = ctx.rng.chance(1, 4);
                hist.push(format!("try_add_detached_signature(sig, payload={}, aad={}, fail={})", hex(&dp), hex(&aad), fail));
                match guard(|| b.try_add_detached_signature(sig, &dp, &aad, |d| -> Result<Vec<u8>, Vec<u8>> {
                    seen = Some(d.to_vec());
                    if fail {
                        Err(r2)
                    } else {
                        Ok(r2)
                    }
                })) {
                    Ok(Ok(nb)) if !fail => b = nb,
                    Ok(Err(e)) if fail => {
                        ctx.eval();
                        ctx.count("creator-error-propagated");
                        if e != ret {
                            bad(ctx, "creator-error-altered/try_add_detached_signature", "error altered".into(), &hist);
                        }
                        return;
                    }
                    Ok(_) => return bad(ctx, "creator-error-swallowed/try_add_detached_signature", "result of the creator not propagated".into(), &hist),
                    Err(p) => return bad(ctx, "unexpected-panic/try_add_detached_signature", p.site(), &hist),
                }
                recs.push(Some(Rec { data: seen.unwrap_or_default(), ret, aad, detached: Some(dp), helper: "try_add_detached_signature" }));
            }
        }
    }
    let msg = b.build();
    let tagged = ctx.rng.coin();
    hist.push(format!("build(); encode(tagged={}); decode()", tagged));
    let back = if tagged { guard(|| msg.clone().to_tagged_vec().and_then(|b| coset::CoseSign::from_tagged_slice(&b))) } else { guard(|| msg.clone().to_vec().and_then(|b| coset::CoseSign::from_slice(&b))) };
    let m = match back {
        Ok(Ok(m)) => m,
        Ok(Err(_)) if undecodable.get() => {
            ctx.count("roundtrip-refused-unparseable-signer");
            return;
        }
        Ok(Err(e)) => return bad(ctx, "roundtrip-failed/Sign", format!("{:?}", capi::ek(&e)), &hist),
        Err(p) => return bad(ctx, "unexpected-panic/roundtrip", p.site(), &hist),
    };
    if m.signatures.len() != recs.len() {
        return bad(ctx, "signer-count/Sign", format!("{} signers after the round trip, {} were added", m.signatures.len(), recs.len()), &hist);
    }
    let run = |m: &coset::CoseSign, i: usize, aad: &[u8], det: &Option<Vec<u8>>| {
        let mut seen = None;
        let r = match det {
            Some(p) => guard(|| m.verify_detached_signature(i, p, aad, |s, d| -> Result<(), ()> {
                seen = Some((s.to_vec(), d.to_vec()));
                Ok(())
            })),
            None => guard(|| m.verify_signature(i, aad, |s, d| -> Result<(), ()> {
                seen = Some((s.to_vec(), d.to_vec()));
                Ok(())
            })),
        };
        (seen, r.is_ok())
    };
    for (i, rec) in recs.iter().enumerate() {
        let rec = match rec {
            Some(r) => r,
            None => continue,
        };
        let (seen, ok) = run(&m, i, &rec.aad, &rec.detached);
        if !ok {
            bad(ctx, "unexpected-panic/Sign::verify", format!("signer {}", i), &hist);
            continue;
        }
        check_seen(ctx, "Sign", seen, rec, &hist);
        let aad2 = other_than(ctx, &rec.aad);
        let (seen, _) = run(&m, i, &aad2, &rec.detached);
        check_perturbed(ctx, "Sign", "external AAD", seen.map(|x| x.1), rec, &hist);
        let aad3 = rec.data.clone();
        let (seen, _) = run(&m, i, &aad3, &rec.detached);
        check_perturbed(ctx, "Sign", "external AAD (replaced by the structure itself)", seen.map(|x| x.1), rec, &hist);
        let mut m2 = m.clone();
        let _ = perturb_protected(ctx, &mut m2.signatures[i].protected);
        let (seen, _) = run(&m2, i, &rec.aad, &rec.detached);
        check_perturbed(ctx, "Sign", "that signer's protected header", seen.map(|x| x.1), rec, &hist);
        let mut m3 = m.clone();
        let what = perturb_protected(ctx, &mut m3.protected);
        let (seen, _) = run(&m3, i, &rec.aad, &rec.detached);
        check_perturbed(ctx, "Sign", what, seen.map(|x| x.1), rec, &hist);
        if let Some(p) = &rec.detached {
            let p2 = Some(other_than(ctx, p));
            let (seen, _) = run(&m, i, &rec.aad, &p2);
            check_perturbed(ctx, "Sign", "detached payload", seen.map(|x| x.1), rec, &hist);
        }
        if i < msg.signatures.len() {
            let mut mb = msg.clone();
            let what = perturb_protected(ctx, &mut mb.protected);
            let (seen, _) = run(&mb, i, &rec.aad, &rec.detached);
            check_perturbed(ctx, "Sign(as built)", what, seen.map(|x| x.1), rec, &hist);
            let mut mc = msg.clone();
            let _ = perturb_protected(ctx, &mut mc.signatures[i].protected);
            let (seen, _) = run(&mc, i, &rec.aad, &rec.detached);
            check_perturbed(ctx, "Sign(as built)", "that signer's protected header", seen.map(|x| x.1), rec, &hist);
        }
    }
}

fn mac_history(ctx: &mut Ctx, is0: bool) {
    let fam = if is0 { "Mac0" } else { "Mac" };
    let mut hist: Vec<String> = vec![format!("Cose{}Builder::new()", fam)];
    let mut k = 0u32;
    enum B {
        M(coset::CoseMacBuilder),
        M0(coset::CoseMac0Builder),
    }
    let mut b = if is0 { B::M0(coset::CoseMac0Builder::new()) } else { B::M(coset::CoseMacBuilder::new()) };
    macro_rules! on {
        ($b:expr, $x:ident => $e:expr) => {
            match $b {
                B::M($x) => B::M($e),
                B::M0($x) => B::M0($e),
            }
        };
    }
    let mut has_payload = false;
    let mut rec: Option<Rec> = None;
    for _ in 0..ctx.rng.below(5) {
        match ctx.rng.below(5) {
            0 => {
                let h = header(ctx);
                b = on!(b, x => x.protected(h));
                hist.push("protected(h)".into());
            }
            1 => {
                let h = header(ctx);
                b = on!(b, x => x.unprotected(h));
                hist.push("unprotected(h)".into());
            }
            2 => {
                let p = small(ctx);
                hist.push(format!("payload({})", hex(&p)));
                has_payload = true;
                b = on!(b, x => x.payload(p));
            }
            3 => {
                let t = small(ctx);
                hist.push(format!("tag({})", hex(&t)));
                b = on!(b, x => x.tag(t));
            }
            _ => {
                if let B::M(x) = b {
                    b = B::M(x.add_recipient(coset::CoseRecipientBuilder::new().unprotected(header(ctx)).build()));
                    hist.push("add_recipient(r)".into());
                }
            }
        }
    }
    if !has_payload {
        let p = small(ctx);
        hist.push(format!("payload({})", hex(&p)));
        b = on!(b, x => x.payload(p));
    }
    for _ in 0..1 + ctx.rng.below(3) {
        let aad = small(ctx);
        let ret = created(ctx, &mut k);
        let r2 = ret.clone();
        let mut seen: Option<Vec<u8>> = None;
        match ctx.rng.below(5) {
            4 => {
                // recipients may be added before or after the tag is created: the MAC_structure does
                // not depend on them
                if let B::M(x) = b {
                    b = B::M(x.add_recipient(coset::CoseRecipientBuilder::new().unprotected(header(ctx)).ciphertext(small(ctx)).build()));
                    hist.push("add_recipient(r)".into());
                } else {
                    let h = header(ctx);
                    b = on!(b, x => x.unprotected(h));
                    hist.push("unprotected(h)".into());
                }
            }
            0 => {
                hist.push(format!("create_tag(aad={})", hex(&aad)));
                let r = guard(|| match b {
                    B::M(x) => B::M(x.create_tag(&aad, |d| {
                        seen = Some(d.to_vec());
                        r2
                    })),
                    B::M0(x) => B::M0(x.create_tag(&aad, |d| {
                        seen = Some(d.to_vec());
                        r2
                    })),
                });
                match r {
                    Ok(nb) => b = nb,
                    Err(p) => return bad(ctx, "unexpected-panic/create_tag", p.site(), &hist),
                }
                rec = Some(Rec { data: seen.unwrap_or_default(), ret, aad, detached: None, helper: "create_tag" });
            }
            1 => {
                let fail = ctx.rng.chance(1, 4);
                hist.push(format!("try_create_tag(aad={}, fail={})", hex(&aad), fail));
                let r = guard(|| match b {
                    B::M(x) => x.try_create_tag(&aad, |d| -> Result<Vec<u8>, Vec<u8>> {
                        seen = Some(d.to_vec());
                        if fail {
                            Err(r2)
                        } else {
                            Ok(r2)
                        }
                    }).map(B::M),
                    B::M0(x) => x.try_create_tag(&aad, |d| -> Result<Vec<u8>, Vec<u8>> {
                        seen = Some(d.to_vec());
                        if fail {
                            Err(r2)
                        } else {
                            Ok(r2)
                        }
                    }).map(B::M0),
                });
                match r {
                    Ok(Ok(nb)) if !fail => b = nb,
                    Ok(Err(e)) if fail => {
                        ctx.eval();
                        ctx.count("creator-error-propagated");
                        if e != ret {
                            bad(ctx, "creator-error-altered/try_create_tag", "error altered".into(), &hist);
                        }
                        return;
                    }
                    Ok(_) => return bad(ctx, "creator-error-swallowed/try_create_tag", "result of the creator not propagated".into(), &hist),
                    Err(p) => return bad(ctx, "unexpected-panic/try_create_tag", p.site(), &hist),
                }
                rec = Some(Rec { data: seen.unwrap_or_default(), ret, aad, detached: None, helper: "try_create_tag" });
            }
            2 => {
                let h = header(ctx);
                b = on!(b, x => x.unprotected(h));
                hist.push("unprotected(h)".into());
            }
            _ => {
                let t = uid(ctx, &mut k);
                hist.push(format!("tag({})", hex(&t)));
                b = on!(b, x => x.tag(t.clone()));
                rec = rec.map(|mut r| {
                    r.ret = t;
                    r
                });
            }
        }
    }
    let tagged = ctx.rng.coin();
    hist.push(format!("build(); encode(tagged={}); decode()", tagged));
    enum M {
        M(coset::CoseMac),
        M0(coset::CoseMac0),
    }
    let built = match b {
        B::M(x) => M::M(x.build()),
        B::M0(x) => M::M0(x.build()),
    };
    let back = guard(|| match &built {
        M::M(m) => {
            let m = m.clone();
            if tagged { m.to_tagged_vec().and_then(|b| coset::CoseMac::from_tagged_slice(&b)) } else { m.to_vec().and_then(|b| coset::CoseMac::from_slice(&b)) }.map(M::M)
        }
        M::M0(m) => {
            let m = m.clone();
            if tagged { m.to_tagged_vec().and_then(|b| coset::CoseMac0::from_tagged_slice(&b)) } else { m.to_vec().and_then(|b| coset::CoseMac0::from_slice(&b)) }.map(M::M0)
        }
    });
    let m = match back {
        Ok(Ok(m)) => m,
        Ok(Err(e)) => return bad(ctx, &format!("roundtrip-failed/{}", fam), format!("{:?}", capi::ek(&e)), &hist),
        Err(p) => return bad(ctx, "unexpected-panic/roundtrip", p.site(), &hist),
    };
    let rec = match rec {
        Some(r) => r,
        None => return,
    };
    let run = |m: &M, aad: &[u8], err: Option<Vec<u8>>| {
        let mut seen = None;
        let r = guard(|| {
            let f = |t: &[u8], d: &[u8]| -> Result<(), Vec<u8>> {
                seen = Some((t.to_vec(), d.to_vec()));
                match err.clone() {
                    Some(e) => Err(e),
                    None => Ok(()),
                }
            };
            match m {
                M::M(x) => x.verify_tag(aad, f),
                M::M0(x) => x.verify_tag(aad, f),
            }
        });
        (seen, r)
    };
    let verr = if ctx.rng.coin() { Some(uid(ctx, &mut k)) } else { None };
    let (seen, r) = run(&m, &rec.aad, verr.clone());
    match r {
        Ok(res) => {
            check_seen(ctx, fam, seen, &rec, &hist);
            let want: Result<(), Vec<u8>> = match verr {
                Some(e) => Err(e),
                None => Ok(()),
            };
            if res != want {
                bad(ctx, &format!("result-altered/{}::verify_tag", fam), "the verifier's result was not returned unchanged".into(), &hist);
            }
        }
        Err(p) => return bad(ctx, "unexpected-panic/verify_tag", p.site(), &hist),
    }
    let aad2 = other_than(ctx, &rec.aad);
    let (seen, _) = run(&m, &aad2, None);
    check_perturbed(ctx, fam, "external AAD", seen.map(|x| x.1), &rec, &hist);
    let aad3 = rec.data.clone();
    let (seen, _) = run(&m, &aad3, None);
    check_perturbed(ctx, fam, "external AAD (replaced by the structure itself)", seen.map(|x| x.1), &rec, &hist);
    let m2 = match &m {
        M::M(x) => {
            let mut y = x.clone();
            y.payload = Some(other_than(ctx, x.payload.as_ref().map(|p| &p[..]).unwrap_or(&[])));
            M::M(y)
        }
        M::M0(x) => {
            let mut y = x.clone();
            y.payload = Some(other_than(ctx, x.payload.as_ref().map(|p| &p[..]).unwrap_or(&[])));
            M::M0(y)
        }
    };
    let (seen, _) = run(&m2, &rec.aad, None);
    check_perturbed(ctx, fam, "payload", seen.map(|x| x.1), &rec, &hist);
    let what;
    let m3 = match &m {
        M::M(x) => {
            let mut y = x.clone();
            what = perturb_protected(ctx, &mut y.protected);
            M::M(y)
        }
        M::M0(x) => {
            let mut y = x.clone();
            what = perturb_protected(ctx, &mut y.protected);
            M::M0(y)
        }
    };
    let (seen, _) = run(&m3, &rec.aad, None);
    check_perturbed(ctx, fam, what, seen.map(|x| x.1), &rec, &hist);
    // the message as built (never parsed)
    let what2;
    let mb = match &built {
        M::M(x) => {
            let mut y = x.clone();
            what2 = perturb_protected(ctx, &mut y.protected);
            M::M(y)
        }
        M::M0(x) => {
            let mut y = x.clone();
            what2 = perturb_protected(ctx, &mut y.protected);
            M::M0(y)
        }
    };
    let (seen, _) = run(&mb, &rec.aad, None);
    check_perturbed(ctx, &format!("{}(as built)", fam), what2, seen.map(|x| x.1), &rec, &hist);
}

fn rcp_ctx(i: usize) -> EncryptionContext {
    match i {
        0 => EncryptionContext::EncRecipient,
        1 => EncryptionContext::MacRecipient,
        _ => EncryptionContext::RecRecipient,
    }
}

/// kind: 0 = Encrypt, 1 = Encrypt0, 2 = Recipient
fn enc_history(ctx: &mut Ctx, kind: usize) {
    let fam = ["Encrypt", "Encrypt0", "Recipient"][kind];
    let mut hist: Vec<String> = vec![format!("Cose{}Builder::new()", fam)];
    let mut k = 0u32;
    enum B {
        E(coset::CoseEncryptBuilder),
        E0(coset::CoseEncrypt0Builder),
        R(coset::CoseRecipientBuilder),
    }
    let mut b = match kind {
        0 => B::E(coset::CoseEncryptBuilder::new()),
        1 => B::E0(coset::CoseEncrypt0Builder::new()),
        _ => B::R(coset::CoseRecipientBuilder::new()),
    };
    macro_rules! on {
        ($b:expr, $x:ident => $e:expr) => {
            match $b {
                B::E($x) => B::E($e),
                B::E0($x) => B::E0($e),
                B::R($x) => B::R($e),
            }
        };
    }
    let mut rec: Option<(Rec, usize)> = None;
    for _ in 0..ctx.rng.below(5) {
        match ctx.rng.below(4) {
            0 => {
                let h = header(ctx);
                b = on!(b, x => x.protected(h));
                hist.push("protected(h)".into());
            }
            1 => {
                let h = header(ctx);
                b = on!(b, x => x.unprotected(h));
                hist.push("unprotected(h)".into());
            }
            2 => {
                let c = small(ctx);
                hist.push(format!("ciphertext({})", hex(&c)));
                b = on!(b, x => x.ciphertext(c));
            }
            _ => {
                let mut r = coset::CoseRecipientBuilder::new().unprotected(header(ctx)).ciphertext(small(ctx)).build();
                if ctx.rng.chance(1, 4) {
                    // a chain of nested recipients (depth 2-14) whose innermost header carries a
                    // counter signature: recipient nesting and counter-signature nesting are unrelated
                    let depth = 2 + ctx.rng.below(13);
                    let cs = coset::CoseSignatureBuilder::new().protected(header(ctx)).signature(small(ctx)).build();
                    let mut inner = coset::CoseRecipientBuilder::new().protected(coset::HeaderBuilder::new().key_id(vec![1]).add_counter_signature(cs).build()).ciphertext(small(ctx)).build();
                    for _ in 0..depth {
                        inner = coset::CoseRecipientBuilder::new().unprotected(coset::HeaderBuilder::new().key_id(vec![2]).build()).add_recipient(inner).build();
                    }
                    r = inner;
                    hist.push(format!("(recipient chain of depth {} with a counter signature innermost)", depth));
                }
                b = match b {
                    B::E(x) => B::E(x.add_recipient(r)),
                    B::R(x) => B::R(x.add_recipient(r)),
                    other => other,
                };
                hist.push("add_recipient(r)".into());
            }
        }
    }
    for _ in 0..1 + ctx.rng.below(3) {
        let aad = small(ctx);
        let pt = small(ctx);
        let ret = created(ctx, &mut k);
        let r2 = ret.clone();
        let rc = ctx.rng.below(3);
        let mut seen: Option<(Vec<u8>, Vec<u8>)> = None;
        match ctx.rng.below(4) {
            0 => {
                hist.push(format!("create_ciphertext(ctx#{}, pt={}, aad={})", rc, hex(&pt), hex(&aad)));
                let r = guard(|| {
                    let f = |p: &[u8], d: &[u8]| {
                        seen = Some((p.to_vec(), d.to_vec()));
                        r2
                    };
                    match b {
                        B::E(x) => B::E(x.create_ciphertext(&pt, &aad, f)),
                        B::E0(x) => B::E0(x.create_ciphertext(&pt, &aad, f)),
                        B::R(x) => B::R(x.create_ciphertext(rcp_ctx(rc), &pt, &aad, f)),
                    }
                });
                match r {
                    Ok(nb) => b = nb,
                    Err(p) => return bad(ctx, "unexpected-panic/create_ciphertext", p.site(), &hist),
                }
                let (p_seen, d) = seen.unwrap_or_default();
                if p_seen != pt {
                    bad(ctx, &format!("plaintext-altered/{}", fam), "the cipher did not receive the caller's plaintext".into(), &hist);
                }
                rec = Some((Rec { data: d, ret, aad, detached: None, helper: "create_ciphertext" }, rc));
            }
            1 => {
                let fail = ctx.rng.chance(1, 4);
                hist.push(format!("try_create_ciphertext(ctx#{}, pt={}, aad={}, fail={})", rc, hex(&pt), hex(&aad), fail));
                let r = guard(|| {
                    let f = |p: &[u8], d: &[u8]| -> Result<Vec<u8>, Vec<u8>> {
                        seen = Some((p.to_vec(), d.to_vec()));
                        if fail {
                            Err(r2)
                        } else {
                            Ok(r2)
                        }
                    };
                    match b {
                        B::E(x) => x.try_create_ciphertext(&pt, &aad, f).map(B::E),
                        B::E0(x) => x.try_create_ciphertext(&pt, &aad, f).map(B::E0),
                        B::R(x) => x.try_create_ciphertext(rcp_ctx(rc), &pt, &aad, f).map(B::R),
                    }
                });
                match r {
                    Ok(Ok(nb)) if !fail => b = nb,
                    Ok(Err(e)) if fail => {
                        ctx.eval();
                        ctx.count("creator-error-propagated");
                        if e != ret {
                            bad(ctx, "creator-error-altered/try_create_ciphertext", "error altered".into(), &hist);
                        }
                        return;
                    }
                    Ok(_) => return bad(ctx, "creator-error-swallowed/try_create_ciphertext", "result of the creator not propagated".into(), &hist),
                    Err(p) => return bad(ctx, "unexpected-panic/try_create_ciphertext", p.site(), &hist),
                }
                let (p_seen, d) = seen.unwrap_or_default();
                if p_seen != pt {
                    bad(ctx, &format!("plaintext-altered/{}", fam), "the cipher did not receive the caller's plaintext".into(), &hist);
                }
                rec = Some((Rec { data: d, ret, aad, detached: None, helper: "try_create_ciphertext" }, rc));
            }
            2 => {
                let h = header(ctx);
                b = on!(b, x => x.unprotected(h));
                hist.push("unprotected(h)".into());
            }
            _ => {
                let c = uid(ctx, &mut k);
                hist.push(format!("ciphertext({})", hex(&c)));
                b = on!(b, x => x.ciphertext(c.clone()));
                rec = rec.map(|(mut r, c2)| {
                    r.ret = c;
                    (r, c2)
                });
            }
        }
    }
    let tagged = kind != 2 && ctx.rng.coin();
    hist.push(format!("build(); encode(tagged={}); decode()", tagged));
    enum M {
        E(coset::CoseEncrypt),
        E0(coset::CoseEncrypt0),
        R(coset::CoseRecipient),
    }
    let built = match b {
        B::E(x) => M::E(x.build()),
        B::E0(x) => M::E0(x.build()),
        B::R(x) => M::R(x.build()),
    };
    let back = guard(|| match &built {
        M::E(m) => {
            let m = m.clone();
            if tagged { m.to_tagged_vec().and_then(|b| coset::CoseEncrypt::from_tagged_slice(&b)) } else { m.to_vec().and_then(|b| coset::CoseEncrypt::from_slice(&b)) }.map(M::E)
        }
        M::E0(m) => {
            let m = m.clone();
            if tagged { m.to_tagged_vec().and_then(|b| coset::CoseEncrypt0::from_tagged_slice(&b)) } else { m.to_vec().and_then(|b| coset::CoseEncrypt0::from_slice(&b)) }.map(M::E0)
        }
        M::R(m) => m.clone().to_vec().and_then(|b| coset::CoseRecipient::from_slice(&b)).map(M::R),
    });
    let m = match back {
        Ok(Ok(m)) => m,
        Ok(Err(e)) => return bad(ctx, &format!("roundtrip-failed/{}", fam), format!("{:?}", capi::ek(&e)), &hist),
        Err(p) => return bad(ctx, "unexpected-panic/roundtrip", p.site(), &hist),
    };
    let (rec, rc) = match rec {
        Some(r) => r,
        None => return,
    };
    let run = |m: &M, rc: usize, aad: &[u8], res: Result<Vec<u8>, Vec<u8>>| {
        let mut seen = None;
        let r = guard(|| {
            let f = |c: &[u8], d: &[u8]| -> Result<Vec<u8>, Vec<u8>> {
                seen = Some((c.to_vec(), d.to_vec()));
                res.clone()
            };
            match m {
                M::E(x) => x.decrypt(aad, f),
                M::E0(x) => x.decrypt(aad, f),
                M::R(x) => x.decrypt(rcp_ctx(rc), aad, f),
            }
        });
        (seen, r)
    };
    let want: Result<Vec<u8>, Vec<u8>> = if ctx.rng.coin() { Ok(uid(ctx, &mut k)) } else { Err(uid(ctx, &mut k)) };
    let (seen, r) = run(&m, rc, &rec.aad, want.clone());
    match r {
        Ok(res) => {
            check_seen(ctx, fam, seen, &rec, &hist);
            if res != want {
                bad(ctx, &format!("result-altered/{}::decrypt", fam), "the cipher's result was not returned unchanged".into(), &hist);
            }
        }
        Err(p) => return bad(ctx, "unexpected-panic/decrypt", p.site(), &hist),
    }
    let aad2 = other_than(ctx, &rec.aad);
    let (seen, _) = run(&m, rc, &aad2, Ok(vec![]));
    check_perturbed(ctx, fam, "external AAD", seen.map(|x| x.1), &rec, &hist);
    let aad3 = rec.data.clone();
    let (seen, _) = run(&m, rc, &aad3, Ok(vec![]));
    check_perturbed(ctx, fam, "external AAD (replaced by the structure itself)", seen.map(|x| x.1), &rec, &hist);
    if kind == 2 {
        let (seen, _) = run(&m, (rc + 1) % 3, &rec.aad, Ok(vec![]));
        check_perturbed(ctx, fam, "recipient context", seen.map(|x| x.1), &rec, &hist);
    }
    let what;
    let m3 = match &m {
        M::E(x) => {
            let mut y = x.clone();
            what = perturb_protected(ctx, &mut y.protected);
            M::E(y)
        }
        M::E0(x) => {
            let mut y = x.clone();
            what = perturb_protected(ctx, &mut y.protected);
            M::E0(y)
        }
        M::R(x) => {
            let mut y = x.clone();
            what = perturb_protected(ctx, &mut y.protected);
            M::R(y)
        }
    };
    let (seen, _) = run(&m3, rc, &rec.aad, Ok(vec![]));
    check_perturbed(ctx, fam, what, seen.map(|x| x.1), &rec, &hist);
    // the carrier as built (never parsed)
    let what2;
    let mb = match &built {
        M::E(x) => {
            let mut y = x.clone();
            what2 = perturb_protected(ctx, &mut y.protected);
            M::E(y)
        }
        M::E0(x) => {
            let mut y = x.clone();
            what2 = perturb_protected(ctx, &mut y.protected);
            M::E0(y)
        }
        M::R(x) => {
            let mut y = x.clone();
            what2 = perturb_protected(ctx, &mut y.protected);
            M::R(y)
        }
    };
    let (seen, _) = run(&mb, rc, &rec.aad, Ok(vec![]));
    check_perturbed(ctx, &format!("{}(as built)", fam), what2, seen.map(|x| x.1), &rec, &hist);
}

impl Check for C06 {
    fn id(&self) -> &'static str {
        "C06"
    }
    fn phases(&self, tier: Tier, b: f64) -> Vec<Phase> {
        let q = tier == Tier::Quick;
        vec![Phase { name: "random builder histories for Sign1, Sign, Mac, Mac0, Encrypt, Encrypt0, Recipient -> build -> encode (tagged or not) -> decode -> verify/decrypt, plus single perturbations", cases: scale(if q { 400000 } else { 2000000 }, b), exhaustive: false }]
    }
    fn run_case(&self, ctx: &mut Ctx, _phase: usize, idx: u64) {
        match idx % 7 {
            0 => sign1_history(ctx),
            1 => sign_history(ctx),
            2 => mac_history(ctx, false),
            3 => mac_history(ctx, true),
            k => enc_history(ctx, (k - 4) as usize),
        }
        if idx < 14 {
            ctx.sample(|| J::obj(vec![("family", J::s(["Sign1", "Sign", "Mac", "Mac0", "Encrypt", "Encrypt0", "Recipient"][(idx % 7) as usize])), ("outcome", J::s("verify/decrypt closure received the stored value and exactly the creator's bytes; results passed through; perturbations changed the bytes"))]));
        }
    }
    fn rule(&self) -> String {
        "histories: for each of the seven builders a random program - phase A: 0-4 setters in any order and multiplicity (protected, unprotected, payload / ciphertext, signature / tag, add_signature / add_recipient; a third of the signer templates are held as decoding would have produced them, i.e. with received protected bytes in a non-canonical encoding); phase B: 1-4 create/add helpers (infallible and fallible, embedded and detached, every recipient context) interleaved with setters that do not touch protected headers or payload (signature/tag/ciphertext overwrites are followed by the model); fallible creators fail with probability 1/4 with a unique error; then build, encode (tagged or untagged), decode and verify/decrypt with recording closures, and with each single perturbation (AAD, payload / detached payload, body protected header, that signer's protected header, recipient context). Every produced signature/tag/ciphertext is unique (case id + counter), so the value a verifier observes identifies its creation. Oracle: verifier receives the stored value and exactly the bytes the creator received; the closure's result is returned unchanged; a failing creator yields its own error; every perturbation changes the bytes. Non-trivial = distinct verified structures.".into()
    }
    fn assumptions(&self) -> Vec<String> {
        vec!["builder programs respect the property's precondition: protected headers and payload are not changed after a create helper ran".into()]
    }
    fn finish(&self, m: &mut Ctx) -> Result<(), String> {
        for h in ["Sign1:create_signature", "Sign1:try_create_signature", "Sign1:create_detached_signature", "Sign1:try_create_detached_signature", "Sign:add_created_signature", "Sign:try_add_created_signature", "Sign:add_detached_signature", "Sign:try_add_detached_signature", "Mac:create_tag", "Mac:try_create_tag", "Mac0:create_tag", "Mac0:try_create_tag", "Encrypt:create_ciphertext", "Encrypt:try_create_ciphertext", "Encrypt0:create_ciphertext", "Encrypt0:try_create_ciphertext", "Recipient:create_ciphertext", "Recipient:try_create_ciphertext"] {
            if m.counters.get(&format!("verified:{}", h)).copied().unwrap_or(0) < 50 {
                return Err(format!("{} verified fewer than 50 times", h));
            }
        }
        if m.counters.get("creator-error-propagated").copied().unwrap_or(0) < 100 {
            return Err("fewer than 100 failing creators observed".into());
        }
        Ok(())
    }
}
