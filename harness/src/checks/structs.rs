//! Engine of C03 / C04 / C05: every way the crate produces a Sig_structure, MAC_structure or
//! Enc_structure is observed (return values and the data handed to recording closures) and
//! compared with the deterministic encoding computed by the reference model.

use crate::capi::{self};
use crate::gen::{self, GenOpts};
use crate::json::J;
use crate::model::{self, MHeader, MProt, MSignature};
use crate::mon::{guard, Ctx};
use crate::rcbor::{self, hex, Item, Style};
use coset::{CborSerializable, EncryptionContext, MacContext, SignatureContext};

pub const LENS: [usize; 16] = [0, 1, 22, 23, 24, 25, 254, 255, 256, 257, 65534, 65535, 65536, 65537, 2, 100];

#[derive(Clone, Copy, Debug, PartialEq, Eq)]
pub enum Origin {
    /// built in memory, no retained bytes
    Built,
    /// decoded from wire bytes in a non-canonical encoding
    Wire,
}

/// a protected header for structure tests: its model, and the coset value (either built or decoded)
pub fn gen_prot_variant(ctx: &mut Ctx, origin: Origin) -> MProt {
    let o = if origin == Origin::Built { GenOpts::built() } else { GenOpts { styled_prot: 255, built: false, max_depth: 2, mixed: false } };
    let mut header = match ctx.rng.below(10) {
        0 => MHeader::default(),
        8 => {
            // exactly one field, holding a "default-looking" value (zero / reserved / one byte)
            let mut h = MHeader::default();
            match ctx.rng.below(8) {
                0 => h.alg = Some(crate::model::MLabel::Int(0)),
                1 => h.crit = vec![crate::model::MLabel::Int(0)],
                2 => h.ct = Some(crate::model::MLabel::Int(0)),
                3 => h.kid = vec![0],
                4 => h.iv = vec![0],
                5 => h.piv = vec![0],
                6 => h.alg = Some(crate::model::MLabel::Text(String::new())),
                _ => h.rest = vec![(crate::model::MLabel::Int(0), Item::Null)],
            }
            h
        }
        9 => {
            // exactly one random field
            let full = gen::gen_header(&mut ctx.rng, &o, 2);
            let mut h = MHeader::default();
            match ctx.rng.below(8) {
                0 => h.alg = full.alg.or(Some(crate::model::MLabel::Int(-7))),
                1 => h.crit = if full.crit.is_empty() { vec![crate::model::MLabel::Int(4)] } else { full.crit },
                2 => h.ct = full.ct.or(Some(crate::model::MLabel::Int(60))),
                3 => h.kid = if full.kid.is_empty() { vec![1] } else { full.kid },
                4 => h.iv = if full.iv.is_empty() { vec![2] } else { full.iv },
                5 => h.piv = if full.piv.is_empty() { vec![3] } else { full.piv },
                6 => h.csigs = if full.csigs.is_empty() { vec![crate::model::MSignature::default()] } else { full.csigs },
                _ => h.rest = if full.rest.is_empty() { vec![(crate::model::MLabel::Text("x".into()), Item::int(1))] } else { full.rest },
            }
            h
        }
        1 => {
            // only counter signatures
            let mut h = MHeader::default();
            let n = 1 + ctx.rng.below(2);
            h.csigs = (0..n).map(|_| gen::gen_signature(&mut ctx.rng, &o, 2)).collect();
            h
        }
        2 => {
            // only extras
            let mut h = MHeader::default();
            h.rest = vec![(gen::pal_label(&mut ctx.rng), gen::random_item(&mut ctx.rng, 1))];
            if let crate::model::MLabel::Int(i) = h.rest[0].0 {
                if (1..=7).contains(&i) {
                    h.rest[0].0 = crate::model::MLabel::Int(-70000);
                }
            }
            h
        }
        _ => gen::gen_header(&mut ctx.rng, &o, 1),
    };
    if origin == Origin::Built {
        // a built header must be encodable: extras never collide (the generator guarantees it).
        // Hand-built headers may hold a text content type that a decoder would refuse (white space at
        // either end, no slash): it is part of the header all the same and goes into the structure
        if ctx.rng.chance(1, 12) {
            let base = *ctx.rng.pick(&["a/b", "text/plain", "x"]);
            let ws = *ctx.rng.pick(&[" ", "\n", "\u{85}", "\u{2003}", "\u{a0}", "\t"]);
            header.ct = Some(crate::model::MLabel::Text(match ctx.rng.below(3) {
                0 => format!("{}{}", ws, base),
                1 => format!("{}{}", base, ws),
                _ => format!("{}{}{}", ws, base, ws),
            }));
        }
        return MProt { bytes: None, header };
    }
    let bytes = if header.is_empty() {
        match ctx.rng.below(4) {
            0 => vec![],
            1 => vec![0xa0],
            2 => vec![0xbf, 0xff],
            _ => vec![0xb8, 0x00],
        }
    } else {
        gen::prot_bytes(&mut ctx.rng, &header, 255)
    };
    if bytes.is_empty() {
        header = MHeader::default();
    }
    MProt { bytes: Some(bytes), header }
}

/// coset ProtectedHeader for a model one: struct literal for Built; for Wire the header is decoded
/// by the crate from a one-slot carrier so that `original_data` is whatever the *crate* retained.
pub fn coset_prot(p: &MProt) -> Option<coset::ProtectedHeader> {
    match &p.bytes {
        None => capi::b_prot(p),
        Some(b) => {
            let v = coset::cbor::value::Value::Bytes(b.clone());
            match guard(|| coset::ProtectedHeader::from_cbor_bstr(v)) {
                Ok(Ok(x)) => Some(x),
                _ => None,
            }
        }
    }
}

/// an arbitrary well-formed unprotected header: the structures must not depend on it
pub fn any_unprotected(ctx: &mut Ctx) -> coset::Header {
    if ctx.rng.chance(1, 3) {
        return coset::Header::default();
    }
    let o = GenOpts::built();
    let mut h = gen::gen_header(&mut ctx.rng, &o, 1);
    if ctx.rng.chance(1, 3) {
        // key-wrap / direct algorithms, IVs: the parameters a cipher layer might be tempted to look at
        h.alg = Some(crate::model::MLabel::Int(*ctx.rng.pick(&[-3i64, -4, -5, -6, 1, 3, 10, 24, 0])));
    }
    capi::b_header(&h).unwrap_or_default()
}

/// a recipients list for a carrier: none, one, or two with a nested one - the structures and the
/// documented refusals of the carrier do not depend on it
pub fn some_recipients(ctx: &mut Ctx) -> Vec<coset::CoseRecipient> {
    let leaf = |ctx: &mut Ctx| coset::CoseRecipient { protected: coset::ProtectedHeader::default(), unprotected: any_unprotected(ctx), ciphertext: if ctx.rng.coin() { Some(vec![1, 2]) } else { None }, recipients: vec![] };
    match ctx.rng.below(4) {
        0 => vec![],
        1 => vec![leaf(ctx)],
        2 => vec![leaf(ctx), leaf(ctx)],
        _ => {
            let inner = leaf(ctx);
            let mut outer = leaf(ctx);
            outer.recipients = vec![inner];
            vec![outer]
        }
    }
}

pub fn expect_eq(ctx: &mut Ctx, helper: &str, got: &[u8], want: &[u8], family: &str, tuple_desc: &[u8]) {
    ctx.eval();
    ctx.count(&format!("helper:{}", helper));
    if got != want {
        ctx.violation(
            &format!("{}/structure-bytes/{}", ctx.prop, helper),
            format!("{} produced {} but RFC 8152 prescribes {}", helper, short(got), short(want)),
            J::obj(vec![("helper", J::s(helper)), ("got", J::Str(short(got))), ("want", J::Str(short(want)))]),
        );
    } else {
        ctx.nontrivial_bytes(got);
    }
    let sig = format!("{}/injectivity", ctx.prop);
    ctx.injective(family, got, tuple_desc, &sig);
}

pub fn short(b: &[u8]) -> String {
    if b.len() > 300 {
        format!("{}..({} bytes)..{}", hex(&b[..120]), b.len(), hex(&b[b.len() - 40..]))
    } else {
        hex(b)
    }
}

pub fn tuple_desc(context: &str, slots: &[Option<&[u8]>]) -> Vec<u8> {
    let mut v = vec![Item::text(context)];
    for s in slots {
        v.push(match s {
            Some(b) => Item::Bytes(b.to_vec()),
            None => Item::Null,
        });
    }
    rcbor::det(&Item::Array(v))
}

/// A call that must panic (documented refusal) without invoking the caller's closure.
pub fn expect_refusal(ctx: &mut Ctx, helper: &str, panicked: bool, closure_called: bool) {
    ctx.eval();
    ctx.count(&format!("refusal:{}", helper));
    if !panicked {
        ctx.violation(&format!("{}/refusal-missing/{}", ctx.prop, helper), format!("{} must refuse (documented panic) but returned normally (closure called: {})", helper, closure_called), J::obj(vec![("helper", J::s(helper))]));
    } else if closure_called {
        ctx.violation(&format!("{}/refusal-after-closure/{}", ctx.prop, helper), format!("{} panicked only after handing data to the caller's closure", helper), J::obj(vec![("helper", J::s(helper))]));
    }
}

pub fn unexpected_panic(ctx: &mut Ctx, helper: &str, site: &str) {
    ctx.violation(&format!("{}/unexpected-panic/{}", ctx.prop, helper), format!("{} panicked at {} although its documented precondition holds", helper, site), J::obj(vec![("helper", J::s(helper))]));
}

pub fn pick_len(ctx: &mut Ctx) -> usize {
    match ctx.rng.below(10) {
        0..=5 => LENS[ctx.rng.below(10)],
        6 => ctx.rng.below(40),
        7 => LENS[ctx.rng.below(LENS.len())],
        _ => ctx.rng.below(8),
    }
}

pub fn bytes_of_len(ctx: &mut Ctx, n: usize) -> Vec<u8> {
    let b = ctx.rng.next() as u8;
    let mut v = vec![b; n];
    for (i, x) in v.iter_mut().enumerate().take(8) {
        *x = (ctx.rng.next() as u8) ^ (i as u8);
    }
    v
}

// ---------------------------------------------------------------------------------------------
// C03

fn sig_ctx_text(c: u8) -> &'static str {
    match c {
        0 => "Signature1",
        1 => "Signature",
        _ => "CounterSignature",
    }
}
fn sig_ctx(c: u8) -> SignatureContext {
    match c {
        0 => SignatureContext::CoseSign1,
        1 => SignatureContext::CoseSignature,
        _ => SignatureContext::CounterSignature,
    }
}

pub fn c03_case(ctx: &mut Ctx, body: &MProt, signer: &MProt, aad: &[u8], payload: &[u8], nsigners: usize) {
    let cu = any_unprotected(ctx);
    let (cb, cs) = match (coset_prot(body), coset_prot(signer)) {
        (Some(a), Some(b)) => (a, b),
        _ => {
            ctx.count("prot-not-decodable");
            return;
        }
    };
    let pb = model::prot_slot(body);
    let ps = model::prot_slot(signer);
    // (1) the general function, all three contexts, sign_protected present exactly when supplied
    for c in 0..3u8 {
        for with_sign in [false, true] {
            let want = if with_sign { model::structure(sig_ctx_text(c), &[&pb, &ps, aad, payload]) } else { model::structure(sig_ctx_text(c), &[&pb, aad, payload]) };
            let (b2, s2) = (cb.clone(), cs.clone());
            match guard(|| coset::sig_structure_data(sig_ctx(c), b2, if with_sign { Some(s2) } else { None }, aad, payload)) {
                Ok(got) => expect_eq(ctx, "sig_structure_data", &got, &want, "Sig_structure", &tuple_desc(sig_ctx_text(c), &[Some(&pb), if with_sign { Some(&ps) } else { None }, Some(aad), Some(payload)])),
                Err(p) => unexpected_panic(ctx, "sig_structure_data", &p.site()),
            }
        }
    }
    // (2) COSE_Sign1, embedded and detached
    let want1 = model::structure("Signature1", &[&pb, aad, payload]);
    let td1 = tuple_desc("Signature1", &[Some(&pb), None, Some(aad), Some(payload)]);
    let s1_emb = coset::CoseSign1 { protected: cb.clone(), unprotected: cu.clone(), payload: Some(payload.to_vec()), signature: vec![0xAA] };
    let s1_det = coset::CoseSign1 { protected: cb.clone(), unprotected: cu.clone(), payload: None, signature: vec![0xAB] };
    match guard(|| s1_emb.tbs_data(aad)) {
        Ok(got) => expect_eq(ctx, "CoseSign1::tbs_data", &got, &want1, "Sig_structure", &td1),
        Err(p) => unexpected_panic(ctx, "CoseSign1::tbs_data", &p.site()),
    }
    match guard(|| s1_det.tbs_detached_data(payload, aad)) {
        Ok(got) => expect_eq(ctx, "CoseSign1::tbs_detached_data", &got, &want1, "Sig_structure", &td1),
        Err(p) => unexpected_panic(ctx, "CoseSign1::tbs_detached_data", &p.site()),
    }
    // absent embedded payload is the empty bstr
    let want_empty = model::structure("Signature1", &[&pb, aad, &[]]);
    match guard(|| s1_det.tbs_data(aad)) {
        Ok(got) => expect_eq(ctx, "CoseSign1::tbs_data(no payload)", &got, &want_empty, "Sig_structure", &tuple_desc("Signature1", &[Some(&pb), None, Some(aad), Some(&[])])),
        Err(p) => unexpected_panic(ctx, "CoseSign1::tbs_data(no payload)", &p.site()),
    }
    // verify closures
    let mut seen: Vec<(Vec<u8>, Vec<u8>)> = Vec::new();
    match guard(|| s1_emb.verify_signature(aad, |s, d| -> Result<(), ()> {
        seen.push((s.to_vec(), d.to_vec()));
        Ok(())
    })) {
        Ok(_) => {
            if let Some((s, d)) = seen.pop() {
                expect_eq(ctx, "CoseSign1::verify_signature", &d, &want1, "Sig_structure", &td1);
                if s != vec![0xAA] {
                    ctx.violation("C03/verify-signature-arg/CoseSign1::verify_signature", "the verifier did not receive the stored signature".into(), J::Null);
                }
            }
        }
        Err(p) => unexpected_panic(ctx, "CoseSign1::verify_signature", &p.site()),
    }
    let mut seen: Vec<Vec<u8>> = Vec::new();
    match guard(|| s1_det.verify_detached_signature(payload, aad, |_s, d| -> Result<(), ()> {
        seen.push(d.to_vec());
        Ok(())
    })) {
        Ok(_) => {
            if let Some(d) = seen.pop() {
                expect_eq(ctx, "CoseSign1::verify_detached_signature", &d, &want1, "Sig_structure", &td1);
            }
        }
        Err(p) => unexpected_panic(ctx, "CoseSign1::verify_detached_signature", &p.site()),
    }
    // refusals: detached helpers with an embedded payload
    {
        let r = guard(|| s1_emb.tbs_detached_data(payload, aad));
        expect_refusal(ctx, "CoseSign1::tbs_detached_data(embedded payload)", r.is_err(), false);
        let mut called = false;
        let r = guard(|| s1_emb.verify_detached_signature(payload, aad, |_s, _d| -> Result<(), ()> {
            called = true;
            Ok(())
        }));
        expect_refusal(ctx, "CoseSign1::verify_detached_signature(embedded payload)", r.is_err(), called);
    }
    // (3) builders (built headers only: the builder takes a Header)
    if body.bytes.is_none() {
        if let Some(h) = capi::b_header(&body.header) {
            let mk = || coset::CoseSign1Builder::new().protected(h.clone());
            let mut seen: Vec<Vec<u8>> = Vec::new();
            let r = guard(|| mk().payload(payload.to_vec()).create_signature(aad, |d| {
                seen.push(d.to_vec());
                vec![1]
            }).build());
            match r {
                Ok(_) => expect_eq(ctx, "CoseSign1Builder::create_signature", &seen.pop().unwrap_or_default(), &want1, "Sig_structure", &td1),
                Err(p) => unexpected_panic(ctx, "CoseSign1Builder::create_signature", &p.site()),
            }
            let mut seen: Vec<Vec<u8>> = Vec::new();
            let r = guard(|| mk().payload(payload.to_vec()).try_create_signature(aad, |d| -> Result<Vec<u8>, ()> {
                seen.push(d.to_vec());
                Ok(vec![1])
            }).map(|b| b.build()));
            match r {
                Ok(_) => expect_eq(ctx, "CoseSign1Builder::try_create_signature", &seen.pop().unwrap_or_default(), &want1, "Sig_structure", &td1),
                Err(p) => unexpected_panic(ctx, "CoseSign1Builder::try_create_signature", &p.site()),
            }
            let mut seen: Vec<Vec<u8>> = Vec::new();
            let r = guard(|| mk().create_detached_signature(payload, aad, |d| {
                seen.push(d.to_vec());
                vec![1]
            }).build());
            match r {
                Ok(_) => expect_eq(ctx, "CoseSign1Builder::create_detached_signature", &seen.pop().unwrap_or_default(), &want1, "Sig_structure", &td1),
                Err(p) => unexpected_panic(ctx, "CoseSign1Builder::create_detached_signature", &p.site()),
            }
            let mut seen: Vec<Vec<u8>> = Vec::new();
            let r = guard(|| mk().try_create_detached_signature(payload, aad, |d| -> Result<Vec<u8>, ()> {
                seen.push(d.to_vec());
                Ok(vec![1])
            }).map(|b| b.build()));
            match r {
                Ok(_) => expect_eq(ctx, "CoseSign1Builder::try_create_detached_signature", &seen.pop().unwrap_or_default(), &want1, "Sig_structure", &td1),
                Err(p) => unexpected_panic(ctx, "CoseSign1Builder::try_create_detached_signature", &p.site()),
            }
            // refusals on the builder
            let mut called = false;
            let r = guard(|| mk().payload(payload.to_vec()).create_detached_signature(payload, aad, |_d| {
                called = true;
                vec![]
            }).build());
            expect_refusal(ctx, "CoseSign1Builder::create_detached_signature(embedded payload)", r.is_err(), called);
            let mut called = false;
            let r = guard(|| mk().payload(payload.to_vec()).try_create_detached_signature(payload, aad, |_d| -> Result<Vec<u8>, ()> {
                called = true;
                Ok(vec![])
            }).map(|b| b.build()));
            expect_refusal(ctx, "CoseSign1Builder::try_create_detached_signature(embedded payload)", r.is_err(), called);
        }
    }
    // (4) COSE_Sign: every signer index, embedded and detached, message and builder
    let want_s = model::structure("Signature", &[&pb, &ps, aad, payload]);
    let td_s = tuple_desc("Signature", &[Some(&pb), Some(&ps), Some(aad), Some(payload)]);
    let other = coset::CoseSignature { protected: Default::default(), unprotected: cu.clone(), signature: vec![0x01] };
    let mine = coset::CoseSignature { protected: cs.clone(), unprotected: cu.clone(), signature: vec![0x02] };
    let which = ctx.rng.below(nsigners.max(1));
    let mut sigs: Vec<coset::CoseSignature> = (0..nsigners.max(1)).map(|_| other.clone()).collect();
    sigs[which] = mine.clone();
    let sign_emb = coset::CoseSign { protected: cb.clone(), unprotected: cu.clone(), payload: Some(payload.to_vec()), signatures: sigs.clone() };
    let sign_det = coset::CoseSign { protected: cb.clone(), unprotected: cu.clone(), payload: None, signatures: sigs.clone() };
    match guard(|| sign_emb.tbs_data(aad, &sign_emb.signatures[which])) {
        Ok(got) => expect_eq(ctx, "CoseSign::tbs_data", &got, &want_s, "Sig_structure", &td_s),
        Err(p) => unexpected_panic(ctx, "CoseSign::tbs_data", &p.site()),
    }
    match guard(|| sign_det.tbs_detached_data(payload, aad, &sign_det.signatures[which])) {
        Ok(got) => expect_eq(ctx, "CoseSign::tbs_detached_data", &got, &want_s, "Sig_structure", &td_s),
        Err(p) => unexpected_panic(ctx, "CoseSign::tbs_detached_data", &p.site()),
    }
    let mut seen: Vec<(Vec<u8>, Vec<u8>)> = Vec::new();
    match guard(|| sign_emb.verify_signature(which, aad, |s, d| -> Result<(), ()> {
        seen.push((s.to_vec(), d.to_vec()));
        Ok(())
    })) {
        Ok(_) => {
            if let Some((s, d)) = seen.pop() {
                expect_eq(ctx, "CoseSign::verify_signature", &d, &want_s, "Sig_structure", &td_s);
                if s != vec![0x02] {
                    ctx.violation("C03/verify-signature-arg/CoseSign::verify_signature", format!("signer {}: the verifier did not receive that signer's signature", which), J::Null);
                }
            }
        }
        Err(p) => unexpected_panic(ctx, "CoseSign::verify_signature", &p.site()),
    }
    let mut seen: Vec<Vec<u8>> = Vec::new();
    match guard(|| sign_det.verify_detached_signature(which, payload, aad, |_s, d| -> Result<(), ()> {
        seen.push(d.to_vec());
        Ok(())
    })) {
        Ok(_) => {
            if let Some(d) = seen.pop() {
                expect_eq(ctx, "CoseSign::verify_detached_signature", &d, &want_s, "Sig_structure", &td_s);
            }
        }
        Err(p) => unexpected_panic(ctx, "CoseSign::verify_detached_signature", &p.site()),
    }
    {
        let r = guard(|| sign_emb.tbs_detached_data(payload, aad, &sign_emb.signatures[which]));
        expect_refusal(ctx, "CoseSign::tbs_detached_data(embedded payload)", r.is_err(), false);
        let mut called = false;
        let r = guard(|| sign_emb.verify_detached_signature(which, payload, aad, |_s, _d| -> Result<(), ()> {
            called = true;
            Ok(())
        }));
        expect_refusal(ctx, "CoseSign::verify_detached_signature(embedded payload)", r.is_err(), called);
    }
    if body.bytes.is_none() {
        if let Some(h) = capi::b_header(&body.header) {
            let mk = || coset::CoseSignBuilder::new().protected(h.clone()).add_signature(other.clone());
            macro_rules! builder_case {
                ($name:expr, $call:expr) => {{
                    let mut seen: Vec<Vec<u8>> = Vec::new();
                    let r = guard(|| $call(&mut seen));
                    match r {
                        Ok(_) => expect_eq(ctx, $name, &seen.pop().unwrap_or_default(), &want_s, "Sig_structure", &td_s),
                        Err(p) => unexpected_panic(ctx, $name, &p.site()),
                    }
                }};
            }
            builder_case!("CoseSignBuilder::add_created_signature", |seen: &mut Vec<Vec<u8>>| mk().payload(payload.to_vec()).add_created_signature(mine.clone(), aad, |d| {
                seen.push(d.to_vec());
                vec![3]
            }).build());
            builder_case!("CoseSignBuilder::try_add_created_signature", |seen: &mut Vec<Vec<u8>>| mk().payload(payload.to_vec()).try_add_created_signature(mine.clone(), aad, |d| -> Result<Vec<u8>, ()> {
                seen.push(d.to_vec());
                Ok(vec![3])
            }).map(|b| b.build()));
            builder_case!("CoseSignBuilder::add_detached_signature", |seen: &mut Vec<Vec<u8>>| mk().add_detached_signature(mine.clone(), payload, aad, |d| {
                seen.push(d.to_vec());
                vec![3]
            }).build());
            builder_case!("CoseSignBuilder::try_add_detached_signature", |seen: &mut Vec<Vec<u8>>| mk().try_add_detached_signature(mine.clone(), payload, aad, |d| -> Result<Vec<u8>, ()> {
                seen.push(d.to_vec());
                Ok(vec![3])
            }).map(|b| b.build()));
            let mut called = false;
            let r = guard(|| mk().payload(payload.to_vec()).add_detached_signature(mine.clone(), payload, aad, |_d| {
                called = true;
                vec![]
            }).build());
            expect_refusal(ctx, "CoseSignBuilder::add_detached_signature(embedded payload)", r.is_err(), called);
            let mut called = false;
            let r = guard(|| mk().payload(payload.to_vec()).try_add_detached_signature(mine.clone(), payload, aad, |_d| -> Result<Vec<u8>, ()> {
                called = true;
                Ok(vec![])
            }).map(|b| b.build()));
            expect_refusal(ctx, "CoseSignBuilder::try_add_detached_signature(embedded payload)", r.is_err(), called);
        }
    }
}

/// messages decoded from the wire: the structures must carry the received protected bytes
pub fn c03_decoded_case(ctx: &mut Ctx, body: &MProt, signer: &MProt, aad: &[u8], payload: &[u8], detached: bool) {
    let pb = model::prot_slot(body);
    let ps = model::prot_slot(signer);
    let pl = if detached { Item::Null } else { Item::Bytes(payload.to_vec()) };
    // COSE_Sign1
    let wire1 = Item::Array(vec![Item::Bytes(pb.clone()), Item::Map(vec![]), pl.clone(), Item::Bytes(vec![0xAA])]);
    let b1 = rcbor::encode(&wire1, &mut Style::random(ctx.rng.next()));
    let want1 = model::structure("Signature1", &[&pb, aad, payload]);
    let td1 = tuple_desc("Signature1", &[Some(&pb), None, Some(aad), Some(payload)]);
    match guard(|| coset::CoseSign1::from_slice(&b1)) {
        Ok(Ok(m)) => {
            let r = if detached { guard(|| m.tbs_detached_data(payload, aad)) } else { guard(|| m.tbs_data(aad)) };
            match r {
                Ok(got) => expect_eq(ctx, if detached { "decoded CoseSign1::tbs_detached_data" } else { "decoded CoseSign1::tbs_data" }, &got, &want1, "Sig_structure", &td1),
                Err(p) => unexpected_panic(ctx, "decoded CoseSign1::tbs_*", &p.site()),
            }
            let mut seen: Vec<Vec<u8>> = Vec::new();
            let r = if detached {
                guard(|| m.verify_detached_signature(payload, aad, |_s, d| -> Result<(), ()> {
                    seen.push(d.to_vec());
                    Ok(())
                }))
            } else {
                guard(|| m.verify_signature(aad, |_s, d| -> Result<(), ()> {
                    seen.push(d.to_vec());
                    Ok(())
                }))
            };
            match r {
                Ok(_) => expect_eq(ctx, if detached { "decoded CoseSign1::verify_detached_signature" } else { "decoded CoseSign1::verify_signature" }, &seen.pop().unwrap_or_default(), &want1, "Sig_structure", &td1),
                Err(p) => unexpected_panic(ctx, "decoded CoseSign1::verify_*", &p.site()),
            }
        }
        _ => ctx.count("decoded-sign1-rejected"),
    }
    // COSE_Sign with 1-3 signers
    let n = 1 + ctx.rng.below(3);
    let which = ctx.rng.below(n);
    let sigs: Vec<Item> = (0..n)
        .map(|i| {
            if i == which {
                Item::Array(vec![Item::Bytes(ps.clone()), Item::Map(vec![]), Item::Bytes(vec![0x02])])
            } else {
                model::enc_signature(&MSignature { prot: gen_prot_variant(ctx, Origin::Wire), unprot: MHeader::default(), sig: vec![i as u8] })
            }
        })
        .collect();
    let wire = Item::Array(vec![Item::Bytes(pb.clone()), Item::Map(vec![]), pl, Item::Array(sigs)]);
    let bs = rcbor::encode(&wire, &mut Style::random(ctx.rng.next()));
    let want_s = model::structure("Signature", &[&pb, &ps, aad, payload]);
    let td_s = tuple_desc("Signature", &[Some(&pb), Some(&ps), Some(aad), Some(payload)]);
    match guard(|| coset::CoseSign::from_slice(&bs)) {
        Ok(Ok(m)) if m.signatures.len() == n => {
            let r = if detached { guard(|| m.tbs_detached_data(payload, aad, &m.signatures[which])) } else { guard(|| m.tbs_data(aad, &m.signatures[which])) };
            match r {
                Ok(got) => expect_eq(ctx, if detached { "decoded CoseSign::tbs_detached_data" } else { "decoded CoseSign::tbs_data" }, &got, &want_s, "Sig_structure", &td_s),
                Err(p) => unexpected_panic(ctx, "decoded CoseSign::tbs_*", &p.site()),
            }
            let mut seen: Vec<(Vec<u8>, Vec<u8>)> = Vec::new();
            let r = if detached {
                guard(|| m.verify_detached_signature(which, payload, aad, |s, d| -> Result<(), ()> {
                    seen.push((s.to_vec(), d.to_vec()));
                    Ok(())
                }))
            } else {
                guard(|| m.verify_signature(which, aad, |s, d| -> Result<(), ()> {
                    seen.push((s.to_vec(), d.to_vec()));
                    Ok(())
                }))
            };
            match r {
                Ok(_) => {
                    let (s, d) = seen.pop().unwrap_or_default();
                    expect_eq(ctx, if detached { "decoded CoseSign::verify_detached_signature" } else { "decoded CoseSign::verify_signature" }, &d, &want_s, "Sig_structure", &td_s);
                    if s != vec![0x02] {
                        ctx.violation("C03/verify-signature-arg/decoded CoseSign", format!("signer {} of {}: verifier received another signer's signature", which, n), J::Null);
                    }
                }
                Err(p) => unexpected_panic(ctx, "decoded CoseSign::verify_*", &p.site()),
            }
        }
        _ => ctx.count("decoded-sign-rejected"),
    }
}

/// A counter signature decoded from the wire inside a header: the general structure function with
/// the CounterSignature context must carry the counter signature's received protected bytes.
pub fn c03_decoded_countersig_case(ctx: &mut Ctx, body: &MProt, cs_prot: &MProt, aad: &[u8], payload: &[u8]) {
    let pb = model::prot_slot(body);
    let ps = model::prot_slot(cs_prot);
    let cb = match coset_prot(body) {
        Some(x) => x,
        None => return,
    };
    let sig_item = Item::Array(vec![Item::Bytes(ps.clone()), Item::Map(vec![]), Item::Bytes(vec![7])]);
    let nested = Item::Array(vec![Item::Bytes(vec![]), Item::Map(vec![(Item::int(7), sig_item.clone())]), Item::Bytes(vec![8])]);
    // positions: directly in a header; as second of two; one level further down (counter signature
    // on a counter signature); inside a protected header
    let headers: Vec<(Item, Box<dyn Fn(&coset::Header) -> Option<coset::ProtectedHeader>>)> = vec![
        (Item::Map(vec![(Item::int(7), sig_item.clone())]), Box::new(|h: &coset::Header| h.counter_signatures.first().map(|c| c.protected.clone()))),
        (Item::Map(vec![(Item::int(7), Item::Array(vec![Item::Array(vec![Item::Bytes(vec![]), Item::Map(vec![]), Item::Bytes(vec![])]), sig_item.clone()]))]), Box::new(|h: &coset::Header| h.counter_signatures.get(1).map(|c| c.protected.clone()))),
        (Item::Map(vec![(Item::int(7), nested)]), Box::new(|h: &coset::Header| h.counter_signatures.first().and_then(|c| c.unprotected.counter_signatures.first()).map(|c| c.protected.clone()))),
    ];
    let want = model::structure("CounterSignature", &[&pb, &ps, aad, payload]);
    let td = tuple_desc("CounterSignature", &[Some(&pb), Some(&ps), Some(aad), Some(payload)]);
    for (k, (hitem, pick)) in headers.iter().enumerate() {
        let hb = rcbor::encode(hitem, &mut Style::random(ctx.rng.next()));
        let carriers: [Vec<u8>; 2] = [hb.clone(), {
            // the header as the protected header of a COSE_Mac0
            let mut v = vec![0x84];
            rcbor::put_head(&mut v, 2, hb.len() as u64, &mut Style::canonical());
            v.extend_from_slice(&hb);
            v.extend_from_slice(&[0xa0, 0xf6, 0x40]);
            v
        }];
        let decoded: Vec<Option<coset::Header>> = vec![
            match guard(|| coset::Header::from_slice(&carriers[0])) {
                Ok(Ok(h)) => Some(h),
                _ => None,
            },
            match guard(|| coset::CoseMac0::from_slice(&carriers[1])) {
                Ok(Ok(m)) => Some(m.protected.header),
                _ => None,
            },
        ];
        for (c, h) in decoded.into_iter().enumerate() {
            let name = format!("decoded counter signature #{} ({}) -> sig_structure_data(CounterSignature)", k, if c == 0 { "in a header" } else { "in a protected header" });
            match h.as_ref().and_then(|h| pick(h)) {
                Some(cs) => {
                    let b2 = cb.clone();
                    match guard(|| coset::sig_structure_data(SignatureContext::CounterSignature, b2, Some(cs), aad, payload)) {
                        Ok(got) => expect_eq(ctx, &name, &got, &want, "Sig_structure", &td),
                        Err(p) => unexpected_panic(ctx, &name, &p.site()),
                    }
                }
                None => ctx.count("decoded-countersig-rejected"),
            }
        }
    }
}

/// A hand-built protected header that cannot be serialised (its extras repeat a label).  No property
/// says what the structure functions do with it (today they panic); but if bytes come back they must
/// not be the bytes of a *different* header - in particular not those of the empty header.
pub fn unencodable_header_case(ctx: &mut Ctx, family: &str, aad: &[u8], payload: &[u8]) {
    let mut h = coset::Header::default();
    let l = coset::Label::Int(1000 + ctx.rng.below(50) as i64);
    h.rest.push((l.clone(), coset::cbor::value::Value::Null));
    h.rest.push((l, coset::cbor::value::Value::Bool(true)));
    if ctx.rng.coin() {
        h.key_id = vec![1, 2];
    }
    let bad = coset::ProtectedHeader { original_data: None, header: h };
    let empty = coset::ProtectedHeader::default();
    let run = |p: coset::ProtectedHeader| -> Option<Vec<u8>> {
        match family {
            "Sig_structure" => guard(|| coset::sig_structure_data(SignatureContext::CoseSign1, p, None, aad, payload)).ok(),
            "MAC_structure" => guard(|| coset::mac_structure_data(MacContext::CoseMac0, p, aad, payload)).ok(),
            _ => guard(|| coset::enc_structure_data(EncryptionContext::CoseEncrypt0, p, aad)).ok(),
        }
    };
    ctx.eval();
    match (run(bad), run(empty)) {
        (Some(b), Some(e)) => {
            ctx.count("unencodable-header-returned-bytes");
            if b == e {
                ctx.violation(&format!("{}/unencodable-header-collides-with-empty-header", ctx.prop), format!("a protected header that cannot be serialised yields the same {} bytes as the empty header", family), J::obj(vec![("bytes", J::Str(short(&b)))]));
            }
        }
        (None, _) => ctx.count("unencodable-header-refused"),
        _ => {}
    }
    // an extra entry that repeats a populated field *with the very value the field encodes to*: still
    // two entries under one label; if bytes come back at all they must not be those of the header
    // without the extra entry (a different header)
    let kid = vec![0x31, 0x31 + ctx.rng.below(4) as u8];
    let mut with = coset::Header::default();
    with.key_id = kid.clone();
    if ctx.rng.coin() {
        with.alg = Some(coset::RegisteredLabelWithPrivate::Assigned(coset::iana::Algorithm::ES256));
    }
    let without = with.clone();
    match ctx.rng.below(3) {
        0 => with.rest.push((coset::Label::Int(4), coset::cbor::value::Value::Bytes(kid))),
        1 if with.alg.is_some() => with.rest.push((coset::Label::Int(1), coset::cbor::value::Value::Integer((-7).into()))),
        _ => with.rest.push((coset::Label::Int(4), coset::cbor::value::Value::Bytes(kid))),
    }
    ctx.eval();
    let a = run(coset::ProtectedHeader { original_data: None, header: with });
    let b = run(coset::ProtectedHeader { original_data: None, header: without });
    match (a, b) {
        (Some(a), Some(b)) if a == b => ctx.violation(&format!("{}/header-with-redundant-extra-collides", ctx.prop), format!("a protected header whose extras repeat a populated field with the same value yields the same {} bytes as the header without that extra entry", family), J::obj(vec![("bytes", J::Str(short(&a)))])),
        (None, _) => ctx.count("unencodable-header-refused"),
        _ => ctx.count("unencodable-header-returned-bytes"),
    }
}

/// Two headers that are different values but compare equal under `==` of floats: an extra parameter
/// holding +0.0 in one and -0.0 in the other (f9 0000 vs f9 8000 on the wire).  Anything that decides
/// "same header" by comparing parsed values instead of bytes confuses them.
pub fn zero_twins(ctx: &mut Ctx) -> (MHeader, MHeader) {
    let mut h = if ctx.rng.coin() { MHeader::default() } else { gen::gen_header(&mut ctx.rng, &GenOpts::built(), 2) };
    let label = crate::model::MLabel::Int(*ctx.rng.pick(&[-70001i64, 99, 1000]));
    h.rest.retain(|(l, _)| *l != label);
    let mut a = h.clone();
    let mut b = h;
    let at = ctx.rng.below(a.rest.len() + 1);
    let (za, zb) = if ctx.rng.coin() { (0.0f64, -0.0f64) } else { (-0.0, 0.0) };
    let wrap = ctx.rng.coin();
    let val = |z: f64| if wrap { Item::Array(vec![Item::Int(1), Item::Float(z)]) } else { Item::Float(z) };
    a.rest.insert(at, (label.clone(), val(za)));
    b.rest.insert(at, (label, val(zb)));
    (a, b)
}

/// A protected header assembled by hand (struct literal / field assignment) may hold an IV *and* a
/// Partial IV; neither the builder nor the decoder produces one, but "every protected header" has a
/// structure, and headers that differ must not share it.  Order-free oracle: if the structure function
/// returns bytes at all, the protected slot holds a map with both parameters, and the bytes differ
/// from those of the same header without either of them.
pub fn both_ivs_case(ctx: &mut Ctx, family: &str, aad: &[u8], payload: &[u8]) {
    let iv = vec![0x10 | ctx.rng.below(8) as u8, 2];
    let piv = vec![0x20 | ctx.rng.below(8) as u8];
    let mut h = coset::Header::default();
    h.iv = iv.clone();
    h.partial_iv = piv.clone();
    match ctx.rng.below(3) {
        0 => h.key_id = vec![9],
        1 => h.alg = Some(coset::RegisteredLabelWithPrivate::Assigned(coset::iana::Algorithm::A128GCM)),
        _ => {}
    }
    let both = coset::ProtectedHeader { original_data: None, header: h.clone() };
    let mut h5 = h.clone();
    h5.partial_iv = vec![];
    let mut h6 = h.clone();
    h6.iv = vec![];
    let only_iv = coset::ProtectedHeader { original_data: None, header: h5 };
    let only_piv = coset::ProtectedHeader { original_data: None, header: h6 };
    let run = |p: coset::ProtectedHeader| -> Option<Vec<u8>> {
        match family {
            "Sig_structure" => guard(|| coset::sig_structure_data(SignatureContext::CoseSign1, p, None, aad, payload)).ok(),
            "MAC_structure" => guard(|| coset::mac_structure_data(MacContext::CoseMac0, p, aad, payload)).ok(),
            _ => guard(|| coset::enc_structure_data(EncryptionContext::CoseEncrypt0, p, aad)).ok(),
        }
    };
    ctx.eval();
    let b = match run(both) {
        Some(b) => b,
        None => {
            ctx.count("both-ivs-header-refused");
            return;
        }
    };
    ctx.count("both-ivs-header-returned-bytes");
    let slot: Option<Vec<(Item, Item)>> = match rcbor::decode(&b) {
        Ok(Item::Array(a)) => match a.get(1) {
            Some(Item::Bytes(p)) => match rcbor::decode(p) {
                Ok(Item::Map(m)) => Some(m),
                _ => None,
            },
            _ => None,
        },
        _ => None,
    };
    let has = |m: &Vec<(Item, Item)>, k: i64, v: &[u8]| m.iter().any(|(kk, vv)| *kk == Item::int(k) && *vv == Item::Bytes(v.to_vec()));
    let ok = matches!(&slot, Some(m) if has(m, 5, &iv) && has(m, 6, &piv));
    if !ok {
        ctx.violation(&format!("{}/hand-built-header-with-both-ivs/parameter-missing", ctx.prop), format!("the {} of a hand-built protected header holding IV and Partial IV does not carry both parameters in its protected slot", family), J::obj(vec![("bytes", J::Str(short(&b)))]));
        return;
    }
    for (name, other) in [("without its Partial IV", run(only_iv)), ("without its IV", run(only_piv))] {
        ctx.eval();
        if other.as_deref() == Some(&b[..]) {
            ctx.violation(&format!("{}/hand-built-header-with-both-ivs/collision", ctx.prop), format!("a protected header holding IV and Partial IV yields the same {} bytes as the same header {}", family, name), J::obj(vec![("bytes", J::Str(short(&b)))]));
        }
    }
}

/// Birthday workload for the structures: a protected header built in memory with 2^17 pairwise
/// distinct 8-character text labels must serialise (its labels are distinct) and contribute exactly
/// its encoded map; with 2^17 labels a 32-bit fingerprint collides with probability 0.86.
pub fn birthday_structure_case(ctx: &mut Ctx, family: &str) {
    let labels = super::common::distinct_labels(&mut ctx.rng, 0, 1 << 17);
    let header = MHeader { rest: labels.into_iter().enumerate().map(|(i, l)| (l, Item::Int((i % 20) as i128))).collect(), ..Default::default() };
    let prot = MProt { bytes: None, header };
    let cp = match coset_prot(&prot) {
        Some(p) => p,
        None => return,
    };
    let pb = model::prot_slot(&prot);
    let (aad, payload): (&[u8], &[u8]) = (&[1, 2, 3], &[4, 5]);
    ctx.eval();
    ctx.count("birthday-cases");
    let (got, want, helper) = match family {
        "Sig_structure" => (guard(|| coset::sig_structure_data(SignatureContext::CoseSign1, cp, None, aad, payload)), model::structure("Signature1", &[&pb, aad, payload]), "sig_structure_data"),
        "MAC_structure" => (guard(|| coset::mac_structure_data(MacContext::CoseMac0, cp, aad, payload)), model::structure("MAC0", &[&pb, aad, payload]), "mac_structure_data"),
        _ => (guard(|| coset::enc_structure_data(EncryptionContext::CoseEncrypt0, cp, aad)), model::structure("Encrypt0", &[&pb, aad]), "enc_structure_data"),
    };
    match got {
        Ok(g) => {
            if g != want {
                ctx.violation(&format!("{}/birthday-structure-bytes/{}", ctx.prop, helper), format!("{} of a built protected header with 2^17 pairwise distinct text labels differs from the {} of RFC 8152 ({} vs {} bytes)", helper, family, g.len(), want.len()), J::Null);
            } else {
                ctx.nontrivial_bytes(&g[..4096]);
            }
        }
        Err(p) => ctx.violation(&format!("{}/birthday-structure-refused/{}", ctx.prop, helper), format!("{} panicked at {} for a built protected header with 2^17 pairwise distinct text labels (nothing in it is a duplicate)", helper, p.site()), J::Null),
    }
}

// ---------------------------------------------------------------------------------------------
// C04

pub fn c04_case(ctx: &mut Ctx, prot: &MProt, aad: &[u8], payload: &[u8]) {
    let cu = any_unprotected(ctx);
    let cp = match coset_prot(prot) {
        Some(p) => p,
        None => return,
    };
    let pb = model::prot_slot(prot);
    for (is0, text) in [(false, "MAC"), (true, "MAC0")] {
        let want = model::structure(text, &[&pb, aad, payload]);
        let td = tuple_desc(text, &[Some(&pb), Some(aad), Some(payload)]);
        let c = if is0 { MacContext::CoseMac0 } else { MacContext::CoseMac };
        let cp2 = cp.clone();
        match guard(|| coset::mac_structure_data(c, cp2, aad, payload)) {
            Ok(got) => expect_eq(ctx, "mac_structure_data", &got, &want, "MAC_structure", &td),
            Err(p) => unexpected_panic(ctx, "mac_structure_data", &p.site()),
        }
        // verify_tag on a message (struct literal carrying whatever bytes the crate retained)
        let mut seen: Vec<(Vec<u8>, Vec<u8>)> = Vec::new();
        let r = if is0 {
            let m = coset::CoseMac0 { protected: cp.clone(), unprotected: cu.clone(), payload: Some(payload.to_vec()), tag: vec![0x77] };
            guard(|| m.verify_tag(aad, |t, d| -> Result<(), ()> {
                seen.push((t.to_vec(), d.to_vec()));
                Ok(())
            }))
        } else {
            let m = coset::CoseMac { protected: cp.clone(), unprotected: cu.clone(), payload: Some(payload.to_vec()), tag: vec![0x77], recipients: some_recipients(ctx) };
            guard(|| m.verify_tag(aad, |t, d| -> Result<(), ()> {
                seen.push((t.to_vec(), d.to_vec()));
                Ok(())
            }))
        };
        let name = if is0 { "CoseMac0::verify_tag" } else { "CoseMac::verify_tag" };
        match r {
            Ok(_) => {
                let (t, d) = seen.pop().unwrap_or_default();
                expect_eq(ctx, name, &d, &want, "MAC_structure", &td);
                if t != vec![0x77] {
                    ctx.violation(&format!("C04/verify-tag-arg/{}", name), "the verifier did not receive the stored tag".into(), J::Null);
                }
            }
            Err(p) => unexpected_panic(ctx, name, &p.site()),
        }
        // refusal: verify without payload
        let mut called = false;
        let r = if is0 {
            let m = coset::CoseMac0 { protected: cp.clone(), unprotected: cu.clone(), payload: None, tag: vec![] };
            guard(|| m.verify_tag(aad, |_t, _d| -> Result<(), ()> {
                called = true;
                Ok(())
            })).is_err()
        } else {
            let m = coset::CoseMac { protected: cp.clone(), unprotected: cu.clone(), payload: None, tag: vec![], recipients: some_recipients(ctx) };
            guard(|| m.verify_tag(aad, |_t, _d| -> Result<(), ()> {
                called = true;
                Ok(())
            })).is_err()
        };
        expect_refusal(ctx, &format!("{}(no payload)", name), r, called);
        // builders
        if prot.bytes.is_none() {
            if let Some(h) = capi::b_header(&prot.header) {
                macro_rules! run {
                    ($name:expr, $with_payload:expr, $body:expr) => {{
                        let mut seen: Vec<Vec<u8>> = Vec::new();
                        let r = guard(|| $body(&mut seen));
                        if $with_payload {
                            match r {
                                Ok(_) => expect_eq(ctx, $name, &seen.pop().unwrap_or_default(), &want, "MAC_structure", &td),
                                Err(p) => unexpected_panic(ctx, $name, &p.site()),
                            }
                        } else {
                            expect_refusal(ctx, &format!("{}(no payload)", $name), r.is_err(), !seen.is_empty());
                        }
                    }};
                }
                for with_payload in [true, false] {
                    if is0 {
                        let mk = || {
                            let b = coset::CoseMac0Builder::new().protected(h.clone());
                            if with_payload {
                                b.payload(payload.to_vec())
                            } else {
                                b
                            }
                        };
                        run!("CoseMac0Builder::create_tag", with_payload, |seen: &mut Vec<Vec<u8>>| mk().create_tag(aad, |d| {
                            seen.push(d.to_vec());
                            vec![1]
                        }).build());
                        run!("CoseMac0Builder::try_create_tag", with_payload, |seen: &mut Vec<Vec<u8>>| mk().try_create_tag(aad, |d| -> Result<Vec<u8>, ()> {
                            seen.push(d.to_vec());
                            Ok(vec![1])
                        }).map(|b| b.build()));
                    } else {
                        let mk = || {
                            let b = coset::CoseMacBuilder::new().protected(h.clone());
                            if with_payload {
                                b.payload(payload.to_vec())
                            } else {
                                b
                            }
                        };
                        run!("CoseMacBuilder::create_tag", with_payload, |seen: &mut Vec<Vec<u8>>| mk().create_tag(aad, |d| {
                            seen.push(d.to_vec());
                            vec![1]
                        }).build());
                        run!("CoseMacBuilder::try_create_tag", with_payload, |seen: &mut Vec<Vec<u8>>| mk().try_create_tag(aad, |d| -> Result<Vec<u8>, ()> {
                            seen.push(d.to_vec());
                            Ok(vec![1])
                        }).map(|b| b.build()));
                    }
                }
            }
        }
    }
}

pub fn c04_decoded_case(ctx: &mut Ctx, prot: &MProt, aad: &[u8], payload: &[u8]) {
    let pb = model::prot_slot(prot);
    for is0 in [true, false] {
        let text = if is0 { "MAC0" } else { "MAC" };
        let mut a = vec![Item::Bytes(pb.clone()), Item::Map(vec![]), Item::Bytes(payload.to_vec()), Item::Bytes(vec![0x77])];
        if !is0 {
            a.push(Item::Array(vec![Item::Array(vec![Item::Bytes(vec![]), Item::Map(vec![]), Item::Null])]));
        }
        let b = rcbor::encode(&Item::Array(a), &mut Style::random(ctx.rng.next()));
        let want = model::structure(text, &[&pb, aad, payload]);
        let td = tuple_desc(text, &[Some(&pb), Some(aad), Some(payload)]);
        let mut seen: Vec<(Vec<u8>, Vec<u8>)> = Vec::new();
        let r = if is0 {
            match guard(|| coset::CoseMac0::from_slice(&b)) {
                Ok(Ok(m)) => Some(guard(|| m.verify_tag(aad, |t, d| -> Result<(), ()> {
                    seen.push((t.to_vec(), d.to_vec()));
                    Ok(())
                }))),
                _ => None,
            }
        } else {
            match guard(|| coset::CoseMac::from_slice(&b)) {
                Ok(Ok(m)) => Some(guard(|| m.verify_tag(aad, |t, d| -> Result<(), ()> {
                    seen.push((t.to_vec(), d.to_vec()));
                    Ok(())
                }))),
                _ => None,
            }
        };
        let name = if is0 { "decoded CoseMac0::verify_tag" } else { "decoded CoseMac::verify_tag" };
        match r {
            Some(Ok(_)) => {
                let (t, d) = seen.pop().unwrap_or_default();
                expect_eq(ctx, name, &d, &want, "MAC_structure", &td);
                if t != vec![0x77] {
                    ctx.violation(&format!("C04/verify-tag-arg/{}", name), "the verifier did not receive the stored tag".into(), J::Null);
                }
            }
            Some(Err(p)) => unexpected_panic(ctx, name, &p.site()),
            None => ctx.count("decoded-mac-rejected"),
        }
    }
}

// ---------------------------------------------------------------------------------------------
// C05

fn enc_ctx(i: usize) -> (EncryptionContext, &'static str, bool) {
    match i {
        0 => (EncryptionContext::CoseEncrypt, "Encrypt", false),
        1 => (EncryptionContext::CoseEncrypt0, "Encrypt0", false),
        2 => (EncryptionContext::EncRecipient, "Enc_Recipient", true),
        3 => (EncryptionContext::MacRecipient, "Mac_Recipient", true),
        _ => (EncryptionContext::RecRecipient, "Rec_Recipient", true),
    }
}

pub fn c05_case(ctx: &mut Ctx, prot: &MProt, aad: &[u8], plaintext: &[u8]) {
    let cu = any_unprotected(ctx);
    let cp = match coset_prot(prot) {
        Some(p) => p,
        None => return,
    };
    let pb = model::prot_slot(prot);
    // a present ciphertext may be empty
    let ct: Vec<u8> = if ctx.rng.chance(1, 3) { vec![] } else { vec![0xC7, 0x01] };
    for i in 0..5 {
        let (c, text, is_rcp) = enc_ctx(i);
        let want = model::structure(text, &[&pb, aad]);
        let td = tuple_desc(text, &[Some(&pb), Some(aad)]);
        let cp2 = cp.clone();
        match guard(|| coset::enc_structure_data(c, cp2, aad)) {
            Ok(got) => expect_eq(ctx, "enc_structure_data", &got, &want, "Enc_structure", &td),
            Err(p) => unexpected_panic(ctx, "enc_structure_data", &p.site()),
        }
        // recipient: decrypt with each context (recipient contexts succeed, others must refuse)
        let rcp = coset::CoseRecipient { protected: cp.clone(), unprotected: cu.clone(), ciphertext: Some(ct.clone()), recipients: some_recipients(ctx) };
        let mut seen: Vec<(Vec<u8>, Vec<u8>)> = Vec::new();
        let r = guard(|| rcp.decrypt(c, aad, |x, d| -> Result<Vec<u8>, ()> {
            seen.push((x.to_vec(), d.to_vec()));
            Ok(vec![9])
        }));
        if is_rcp {
            match r {
                Ok(res) => {
                    let (x, d) = seen.pop().unwrap_or_default();
                    expect_eq(ctx, "CoseRecipient::decrypt", &d, &want, "Enc_structure", &td);
                    if x != ct || res != Ok(vec![9]) {
                        ctx.violation("C05/decrypt-args/CoseRecipient::decrypt", "cipher did not receive the stored ciphertext or its result was altered".into(), J::Null);
                    }
                }
                Err(p) => unexpected_panic(ctx, "CoseRecipient::decrypt", &p.site()),
            }
        } else {
            expect_refusal(ctx, &format!("CoseRecipient::decrypt({})", text), r.is_err(), !seen.is_empty());
        }
        if prot.bytes.is_none() {
            if let Some(h) = capi::b_header(&prot.header) {
                let mut seen: Vec<(Vec<u8>, Vec<u8>)> = Vec::new();
                let r = guard(|| coset::CoseRecipientBuilder::new().protected(h.clone()).create_ciphertext(c, plaintext, aad, |p, d| {
                    seen.push((p.to_vec(), d.to_vec()));
                    vec![1]
                }).build());
                rcp_builder_outcome(ctx, "CoseRecipientBuilder::create_ciphertext", text, is_rcp, r.is_err(), r.err().map(|p| p.site()), seen, plaintext, &want, &td);
                let mut seen: Vec<(Vec<u8>, Vec<u8>)> = Vec::new();
                let r = guard(|| coset::CoseRecipientBuilder::new().protected(h.clone()).try_create_ciphertext(c, plaintext, aad, |p, d| -> Result<Vec<u8>, ()> {
                    seen.push((p.to_vec(), d.to_vec()));
                    Ok(vec![1])
                }).map(|b| b.build()));
                rcp_builder_outcome(ctx, "CoseRecipientBuilder::try_create_ciphertext", text, is_rcp, r.is_err(), r.err().map(|p| p.site()), seen, plaintext, &want, &td);
            }
        }
    }
    // COSE_Encrypt / COSE_Encrypt0 carriers: fixed contexts
    for is0 in [false, true] {
        let text = if is0 { "Encrypt0" } else { "Encrypt" };
        let want = model::structure(text, &[&pb, aad]);
        let td = tuple_desc(text, &[Some(&pb), Some(aad)]);
        let name = if is0 { "CoseEncrypt0::decrypt" } else { "CoseEncrypt::decrypt" };
        let mut seen: Vec<(Vec<u8>, Vec<u8>)> = Vec::new();
        let r = if is0 {
            let m = coset::CoseEncrypt0 { protected: cp.clone(), unprotected: cu.clone(), ciphertext: Some(ct.clone()) };
            guard(|| m.decrypt(aad, |x, d| -> Result<Vec<u8>, ()> {
                seen.push((x.to_vec(), d.to_vec()));
                Ok(vec![9])
            }))
        } else {
            let m = coset::CoseEncrypt { protected: cp.clone(), unprotected: cu.clone(), ciphertext: Some(ct.clone()), recipients: some_recipients(ctx) };
            guard(|| m.decrypt(aad, |x, d| -> Result<Vec<u8>, ()> {
                seen.push((x.to_vec(), d.to_vec()));
                Ok(vec![9])
            }))
        };
        match r {
            Ok(res) => {
                let (x, d) = seen.pop().unwrap_or_default();
                expect_eq(ctx, name, &d, &want, "Enc_structure", &td);
                if x != ct || res != Ok(vec![9]) {
                    ctx.violation(&format!("C05/decrypt-args/{}", name), "cipher did not receive the stored ciphertext or its result was altered".into(), J::Null);
                }
            }
            Err(p) => unexpected_panic(ctx, name, &p.site()),
        }
        // refusal: no ciphertext
        let mut called = false;
        let refused = if is0 {
            let m = coset::CoseEncrypt0 { protected: cp.clone(), unprotected: cu.clone(), ciphertext: None };
            guard(|| m.decrypt(aad, |_x, _d| -> Result<Vec<u8>, ()> {
                called = true;
                Ok(vec![])
            })).is_err()
        } else {
            let m = coset::CoseEncrypt { protected: cp.clone(), unprotected: cu.clone(), ciphertext: None, recipients: some_recipients(ctx) };
            guard(|| m.decrypt(aad, |_x, _d| -> Result<Vec<u8>, ()> {
                called = true;
                Ok(vec![])
            })).is_err()
        };
        expect_refusal(ctx, &format!("{}(no ciphertext)", name), refused, called);
        if prot.bytes.is_none() {
            if let Some(h) = capi::b_header(&prot.header) {
                for fallible in [false, true] {
                    let mut seen: Vec<(Vec<u8>, Vec<u8>)> = Vec::new();
                    let (name, r) = match (is0, fallible) {
                        (true, false) => ("CoseEncrypt0Builder::create_ciphertext", guard(|| {
                            coset::CoseEncrypt0Builder::new().protected(h.clone()).create_ciphertext(plaintext, aad, |p, d| {
                                seen.push((p.to_vec(), d.to_vec()));
                                vec![1]
                            }).build();
                        })),
                        (true, true) => ("CoseEncrypt0Builder::try_create_ciphertext", guard(|| {
                            let _ = coset::CoseEncrypt0Builder::new().protected(h.clone()).try_create_ciphertext(plaintext, aad, |p, d| -> Result<Vec<u8>, ()> {
                                seen.push((p.to_vec(), d.to_vec()));
                                Ok(vec![1])
                            }).map(|b| b.build());
                        })),
                        (false, false) => ("CoseEncryptBuilder::create_ciphertext", guard(|| {
                            coset::CoseEncryptBuilder::new().protected(h.clone()).create_ciphertext(plaintext, aad, |p, d| {
                                seen.push((p.to_vec(), d.to_vec()));
                                vec![1]
                            }).build();
                        })),
                        (false, true) => ("CoseEncryptBuilder::try_create_ciphertext", guard(|| {
                            let _ = coset::CoseEncryptBuilder::new().protected(h.clone()).try_create_ciphertext(plaintext, aad, |p, d| -> Result<Vec<u8>, ()> {
                                seen.push((p.to_vec(), d.to_vec()));
                                Ok(vec![1])
                            }).map(|b| b.build());
                        })),
                    };
                    match r {
                        Ok(_) => {
                            let (p, d) = seen.pop().unwrap_or_default();
                            expect_eq(ctx, name, &d, &want, "Enc_structure", &td);
                            if p != plaintext {
                                ctx.violation(&format!("C05/plaintext-arg/{}", name), "cipher did not receive the caller's plaintext".into(), J::Null);
                            }
                        }
                        Err(p) => unexpected_panic(ctx, name, &p.site()),
                    }
                }
            }
        }
    }
    // recipient without ciphertext must refuse
    let rcp = coset::CoseRecipient { protected: cp, unprotected: cu.clone(), ciphertext: None, recipients: some_recipients(ctx) };
    let mut called = false;
    let r = guard(|| rcp.decrypt(EncryptionContext::EncRecipient, aad, |_x, _d| -> Result<Vec<u8>, ()> {
        called = true;
        Ok(vec![])
    }));
    expect_refusal(ctx, "CoseRecipient::decrypt(no ciphertext)", r.is_err(), called);
}

#[allow(clippy::too_many_arguments)]
fn rcp_builder_outcome(ctx: &mut Ctx, name: &str, text: &str, is_rcp: bool, panicked: bool, site: Option<String>, mut seen: Vec<(Vec<u8>, Vec<u8>)>, plaintext: &[u8], want: &[u8], td: &[u8]) {
    if is_rcp {
        if panicked {
            unexpected_panic(ctx, name, &site.unwrap_or_default());
        } else {
            let (p, d) = seen.pop().unwrap_or_default();
            expect_eq(ctx, name, &d, want, "Enc_structure", td);
            if p != plaintext {
                ctx.violation(&format!("C05/plaintext-arg/{}", name), "cipher did not receive the caller's plaintext".into(), J::Null);
            }
        }
    } else {
        expect_refusal(ctx, &format!("{}({})", name, text), panicked, !seen.is_empty());
    }
}

pub fn c05_decoded_case(ctx: &mut Ctx, prot: &MProt, aad: &[u8]) {
    let pb = model::prot_slot(prot);
    let ct = vec![0xC7, 0x02];
    let rcp_item = Item::Array(vec![Item::Bytes(pb.clone()), Item::Map(vec![]), Item::Bytes(ct.clone())]);
    // standalone recipient, recipient nested in COSE_Encrypt, COSE_Encrypt0, COSE_Encrypt body
    let style = |ctx: &mut Ctx, it: &Item| rcbor::encode(it, &mut Style::random(ctx.rng.next()));
    let check = |ctx: &mut Ctx, name: &str, text: &str, seen: Option<(Vec<u8>, Vec<u8>)>| {
        let want = model::structure(text, &[&pb, aad]);
        match seen {
            Some((x, d)) => {
                expect_eq(ctx, name, &d, &want, "Enc_structure", &tuple_desc(text, &[Some(&pb), Some(aad)]));
                if x != ct {
                    ctx.violation(&format!("C05/decrypt-args/{}", name), "cipher did not receive the stored ciphertext".into(), J::Null);
                }
            }
            None => ctx.count("decoded-encrypt-rejected"),
        }
    };
    let k = 2 + ctx.rng.below(3);
    let (c, text, _) = enc_ctx(k);
    let b = style(ctx, &rcp_item);
    let mut seen = None;
    if let Ok(Ok(m)) = guard(|| coset::CoseRecipient::from_slice(&b)) {
        let _ = guard(|| m.decrypt(c, aad, |x, d| -> Result<Vec<u8>, ()> {
            seen = Some((x.to_vec(), d.to_vec()));
            Ok(vec![])
        }));
    }
    check(ctx, "decoded CoseRecipient::decrypt", text, seen);
    let enc = Item::Array(vec![Item::Bytes(pb.clone()), Item::Map(vec![]), Item::Bytes(ct.clone()), Item::Array(vec![rcp_item.clone(), Item::Array(vec![Item::Bytes(vec![]), Item::Map(vec![]), Item::Null, Item::Array(vec![rcp_item.clone()])])])]);
    let b = style(ctx, &enc);
    if let Ok(Ok(m)) = guard(|| coset::CoseEncrypt::from_slice(&b)) {
        let mut seen = None;
        let _ = guard(|| m.decrypt(aad, |x, d| -> Result<Vec<u8>, ()> {
            seen = Some((x.to_vec(), d.to_vec()));
            Ok(vec![])
        }));
        check(ctx, "decoded CoseEncrypt::decrypt", "Encrypt", seen);
        if m.recipients.len() == 2 && m.recipients[1].recipients.len() == 1 {
            let mut seen = None;
            let _ = guard(|| m.recipients[0].decrypt(c, aad, |x, d| -> Result<Vec<u8>, ()> {
                seen = Some((x.to_vec(), d.to_vec()));
                Ok(vec![])
            }));
            check(ctx, "decoded CoseEncrypt.recipients[0]::decrypt", text, seen);
            let mut seen = None;
            let _ = guard(|| m.recipients[1].recipients[0].decrypt(c, aad, |x, d| -> Result<Vec<u8>, ()> {
                seen = Some((x.to_vec(), d.to_vec()));
                Ok(vec![])
            }));
            check(ctx, "decoded CoseEncrypt.recipients[1].recipients[0]::decrypt", text, seen);
        }
    } else {
        ctx.count("decoded-encrypt-rejected");
    }
    let enc0 = Item::Array(vec![Item::Bytes(pb.clone()), Item::Map(vec![]), Item::Bytes(ct.clone())]);
    let b = style(ctx, &enc0);
    let mut seen = None;
    if let Ok(Ok(m)) = guard(|| coset::CoseEncrypt0::from_slice(&b)) {
        let _ = guard(|| m.decrypt(aad, |x, d| -> Result<Vec<u8>, ()> {
            seen = Some((x.to_vec(), d.to_vec()));
            Ok(vec![])
        }));
    }
    check(ctx, "decoded CoseEncrypt0::decrypt", "Encrypt0", seen);
}

// ---------------------------------------------------------------------------------------------
// A message produced by a builder's create helper and then edited in place: it was never parsed, so
// its protected header has no received bytes and the structures must follow the edited header.

fn edited(h: &MHeader) -> MHeader {
    let mut e = h.clone();
    e.rest.push((crate::model::MLabel::Int(-70010), Item::Bool(true)));
    e
}
fn edit_in_place(p: &mut coset::ProtectedHeader) {
    p.header.rest.push((coset::Label::Int(-70010), coset::cbor::value::Value::Bool(true)));
}

pub fn built_then_edited_case(ctx: &mut Ctx, family: &str, prot: &MProt, aad: &[u8], payload: &[u8]) {
    if prot.bytes.is_some() || prot.header.rest.iter().any(|(l, _)| *l == crate::model::MLabel::Int(-70010)) {
        return;
    }
    let h = match capi::b_header(&prot.header) {
        Some(h) => h,
        None => return,
    };
    let pe = model::prot_slot(&MProt { bytes: None, header: edited(&prot.header) });
    let fallible = ctx.rng.coin();
    match family {
        "Sig_structure" => {
            let b = coset::CoseSign1Builder::new().protected(h.clone()).payload(payload.to_vec());
            let built = guard(|| if fallible { b.try_create_signature(aad, |_d| -> Result<Vec<u8>, ()> { Ok(vec![1]) }).map(|b| b.build()).ok() } else { Some(b.create_signature(aad, |_d| vec![1]).build()) });
            if let Ok(Some(mut m)) = built {
                edit_in_place(&mut m.protected);
                let want = model::structure("Signature1", &[&pe, aad, payload]);
                let mut seen = None;
                let _ = guard(|| m.verify_signature(aad, |_s, d| -> Result<(), ()> {
                    seen = Some(d.to_vec());
                    Ok(())
                }));
                expect_eq(ctx, if fallible { "built by try_create_signature, edited, verify_signature" } else { "built by create_signature, edited, verify_signature" }, &seen.unwrap_or_default(), &want, "Sig_structure", &tuple_desc("Signature1", &[Some(&pe), None, Some(aad), Some(payload)]));
            }
            let sig = coset::CoseSignature::default();
            let b = coset::CoseSignBuilder::new().protected(h).payload(payload.to_vec());
            let built = guard(|| if fallible { b.try_add_created_signature(sig.clone(), aad, |_d| -> Result<Vec<u8>, ()> { Ok(vec![1]) }).map(|b| b.build()).ok() } else { Some(b.add_created_signature(sig.clone(), aad, |_d| vec![1]).build()) });
            if let Ok(Some(mut m)) = built {
                edit_in_place(&mut m.protected);
                let want = model::structure("Signature", &[&pe, &[], aad, payload]);
                let mut seen = None;
                let _ = guard(|| m.verify_signature(0, aad, |_s, d| -> Result<(), ()> {
                    seen = Some(d.to_vec());
                    Ok(())
                }));
                expect_eq(ctx, if fallible { "built by try_add_created_signature, edited, verify_signature" } else { "built by add_created_signature, edited, verify_signature" }, &seen.unwrap_or_default(), &want, "Sig_structure", &tuple_desc("Signature", &[Some(&pe), Some(&[]), Some(aad), Some(payload)]));
            }
        }
        "MAC_structure" => {
            for is0 in [true, false] {
                let text = if is0 { "MAC0" } else { "MAC" };
                let want = model::structure(text, &[&pe, aad, payload]);
                let td = tuple_desc(text, &[Some(&pe), Some(aad), Some(payload)]);
                let mut seen = None;
                if is0 {
                    let b = coset::CoseMac0Builder::new().protected(h.clone()).payload(payload.to_vec());
                    let built = guard(|| if fallible { b.try_create_tag(aad, |_d| -> Result<Vec<u8>, ()> { Ok(vec![1]) }).map(|b| b.build()).ok() } else { Some(b.create_tag(aad, |_d| vec![1]).build()) });
                    if let Ok(Some(mut m)) = built {
                        edit_in_place(&mut m.protected);
                        let _ = guard(|| m.verify_tag(aad, |_t, d| -> Result<(), ()> {
                            seen = Some(d.to_vec());
                            Ok(())
                        }));
                    }
                } else {
                    let b = coset::CoseMacBuilder::new().protected(h.clone()).payload(payload.to_vec());
                    let built = guard(|| if fallible { b.try_create_tag(aad, |_d| -> Result<Vec<u8>, ()> { Ok(vec![1]) }).map(|b| b.build()).ok() } else { Some(b.create_tag(aad, |_d| vec![1]).build()) });
                    if let Ok(Some(mut m)) = built {
                        edit_in_place(&mut m.protected);
                        let _ = guard(|| m.verify_tag(aad, |_t, d| -> Result<(), ()> {
                            seen = Some(d.to_vec());
                            Ok(())
                        }));
                    }
                }
                let name = format!("built by Cose{}Builder::{}, edited, verify_tag", if is0 { "Mac0" } else { "Mac" }, if fallible { "try_create_tag" } else { "create_tag" });
                expect_eq(ctx, &name, &seen.unwrap_or_default(), &want, "MAC_structure", &td);
            }
        }
        _ => {
            for kind in 0..3 {
                let (text, c) = match kind {
                    0 => ("Encrypt", EncryptionContext::CoseEncrypt),
                    1 => ("Encrypt0", EncryptionContext::CoseEncrypt0),
                    _ => ("Mac_Recipient", EncryptionContext::MacRecipient),
                };
                let want = model::structure(text, &[&pe, aad]);
                let td = tuple_desc(text, &[Some(&pe), Some(aad)]);
                let mut seen = None;
                let f_ok = |_p: &[u8], _d: &[u8]| -> Result<Vec<u8>, ()> { Ok(vec![1]) };
                let f = |_p: &[u8], _d: &[u8]| vec![1u8];
                match kind {
                    0 => {
                        let b = coset::CoseEncryptBuilder::new().protected(h.clone());
                        let built = guard(|| if fallible { b.try_create_ciphertext(payload, aad, f_ok).map(|b| b.build()).ok() } else { Some(b.create_ciphertext(payload, aad, f).build()) });
                        if let Ok(Some(mut m)) = built {
                            edit_in_place(&mut m.protected);
                            let _ = guard(|| m.decrypt(aad, |_c, d| -> Result<Vec<u8>, ()> {
                                seen = Some(d.to_vec());
                                Ok(vec![])
                            }));
                        }
                    }
                    1 => {
                        let b = coset::CoseEncrypt0Builder::new().protected(h.clone());
                        let built = guard(|| if fallible { b.try_create_ciphertext(payload, aad, f_ok).map(|b| b.build()).ok() } else { Some(b.create_ciphertext(payload, aad, f).build()) });
                        if let Ok(Some(mut m)) = built {
                            edit_in_place(&mut m.protected);
                            let _ = guard(|| m.decrypt(aad, |_c, d| -> Result<Vec<u8>, ()> {
                                seen = Some(d.to_vec());
                                Ok(vec![])
                            }));
                        }
                    }
                    _ => {
                        let b = coset::CoseRecipientBuilder::new().protected(h.clone());
                        let built = guard(|| if fallible { b.try_create_ciphertext(c, payload, aad, f_ok).map(|b| b.build()).ok() } else { Some(b.create_ciphertext(c, payload, aad, f).build()) });
                        if let Ok(Some(mut m)) = built {
                            edit_in_place(&mut m.protected);
                            let _ = guard(|| m.decrypt(c, aad, |_c, d| -> Result<Vec<u8>, ()> {
                                seen = Some(d.to_vec());
                                Ok(vec![])
                            }));
                        }
                    }
                }
                let name = format!("built by {} builder::{}, edited, decrypt", text, if fallible { "try_create_ciphertext" } else { "create_ciphertext" });
                expect_eq(ctx, &name, &seen.unwrap_or_default(), &want, "Enc_structure", &td);
            }
        }
    }
}

// ---------------------------------------------------------------------------------------------
// protected(h1) .. create .. protected(h2) .. create on one builder: the second creation must cover h2

pub fn reprotect_case(ctx: &mut Ctx, family: &str, p1: &MProt, p2: &MProt, aad: &[u8], payload: &[u8]) {
    if p1.bytes.is_some() || p2.bytes.is_some() {
        return;
    }
    let (h1, h2) = match (capi::b_header(&p1.header), capi::b_header(&p2.header)) {
        (Some(a), Some(b)) => (a, b),
        _ => return,
    };
    let s2 = model::prot_slot(p2);
    let fallible = ctx.rng.coin();
    let mut seen: Vec<Vec<u8>> = Vec::new();
    match family {
        "Sig_structure" => {
            let want = model::structure("Signature1", &[&s2, aad, payload]);
            let r = guard(|| {
                let b = coset::CoseSign1Builder::new().protected(h1.clone()).payload(payload.to_vec()).create_signature(aad, |_d| vec![1]).protected(h2.clone());
                if fallible {
                    b.try_create_signature(aad, |d| -> Result<Vec<u8>, ()> {
                        seen.push(d.to_vec());
                        Ok(vec![2])
                    }).map(|b| b.build()).ok()
                } else {
                    Some(b.create_signature(aad, |d| {
                        seen.push(d.to_vec());
                        vec![2]
                    }).build())
                }
            });
            if let Ok(Some(m)) = r {
                expect_eq(ctx, "CoseSign1Builder: protected, create, protected, create", &seen.pop().unwrap_or_default(), &want, "Sig_structure", &tuple_desc("Signature1", &[Some(&s2), None, Some(aad), Some(payload)]));
                let mut v = None;
                let _ = guard(|| m.verify_signature(aad, |_s, d| -> Result<(), ()> {
                    v = Some(d.to_vec());
                    Ok(())
                }));
                expect_eq(ctx, "CoseSign1Builder: protected, create, protected, create; verify", &v.unwrap_or_default(), &want, "Sig_structure", &tuple_desc("Signature1", &[Some(&s2), None, Some(aad), Some(payload)]));
            }
            // COSE_Sign: a signer added before the body header changes, one after
            let sig = coset::CoseSignature::default();
            let want_s = model::structure("Signature", &[&s2, &[], aad, payload]);
            let mut seen2: Vec<Vec<u8>> = Vec::new();
            let r = guard(|| coset::CoseSignBuilder::new().protected(h1.clone()).payload(payload.to_vec()).add_created_signature(sig.clone(), aad, |_d| vec![1]).protected(h2.clone()).add_created_signature(sig.clone(), aad, |d| {
                seen2.push(d.to_vec());
                vec![2]
            }).build());
            if r.is_ok() {
                expect_eq(ctx, "CoseSignBuilder: protected, add_created, protected, add_created", &seen2.pop().unwrap_or_default(), &want_s, "Sig_structure", &tuple_desc("Signature", &[Some(&s2), Some(&[]), Some(aad), Some(payload)]));
            }
        }
        "MAC_structure" => {
            for is0 in [true, false] {
                let text = if is0 { "MAC0" } else { "MAC" };
                let want = model::structure(text, &[&s2, aad, payload]);
                let td = tuple_desc(text, &[Some(&s2), Some(aad), Some(payload)]);
                let mut seen: Vec<Vec<u8>> = Vec::new();
                let mut v = None;
                let _ = guard(|| {
                    if is0 {
                        let m = coset::CoseMac0Builder::new().protected(h1.clone()).payload(payload.to_vec()).create_tag(aad, |_d| vec![1]).protected(h2.clone()).create_tag(aad, |d| {
                            seen.push(d.to_vec());
                            vec![2]
                        }).build();
                        let _ = m.verify_tag(aad, |_t, d| -> Result<(), ()> {
                            v = Some(d.to_vec());
                            Ok(())
                        });
                    } else {
                        let m = coset::CoseMacBuilder::new().protected(h1.clone()).payload(payload.to_vec()).try_create_tag(aad, |_d| -> Result<Vec<u8>, ()> { Ok(vec![1]) }).unwrap().protected(h2.clone()).create_tag(aad, |d| {
                            seen.push(d.to_vec());
                            vec![2]
                        }).build();
                        let _ = m.verify_tag(aad, |_t, d| -> Result<(), ()> {
                            v = Some(d.to_vec());
                            Ok(())
                        });
                    }
                });
                let name = format!("Cose{}Builder: protected, create_tag, protected, create_tag", if is0 { "Mac0" } else { "Mac" });
                expect_eq(ctx, &name, &seen.pop().unwrap_or_default(), &want, "MAC_structure", &td);
                expect_eq(ctx, &format!("{}; verify_tag", name), &v.unwrap_or_default(), &want, "MAC_structure", &td);
            }
        }
        _ => {
            for kind in 0..3 {
                let (text, c) = match kind {
                    0 => ("Encrypt", EncryptionContext::CoseEncrypt),
                    1 => ("Encrypt0", EncryptionContext::CoseEncrypt0),
                    _ => ("Rec_Recipient", EncryptionContext::RecRecipient),
                };
                let want = model::structure(text, &[&s2, aad]);
                let td = tuple_desc(text, &[Some(&s2), Some(aad)]);
                let mut seen: Vec<Vec<u8>> = Vec::new();
                let mut v = None;
                let _ = guard(|| match kind {
                    0 => {
                        let m = coset::CoseEncryptBuilder::new().protected(h1.clone()).create_ciphertext(payload, aad, |_p, _d| vec![1]).protected(h2.clone()).create_ciphertext(payload, aad, |_p, d| {
                            seen.push(d.to_vec());
                            vec![2]
                        }).build();
                        let _ = m.decrypt(aad, |_c, d| -> Result<Vec<u8>, ()> {
                            v = Some(d.to_vec());
                            Ok(vec![])
                        });
                    }
                    1 => {
                        let m = coset::CoseEncrypt0Builder::new().protected(h1.clone()).create_ciphertext(payload, aad, |_p, _d| vec![1]).protected(h2.clone()).try_create_ciphertext(payload, aad, |_p, d| -> Result<Vec<u8>, ()> {
                            seen.push(d.to_vec());
                            Ok(vec![2])
                        }).unwrap().build();
                        let _ = m.decrypt(aad, |_c, d| -> Result<Vec<u8>, ()> {
                            v = Some(d.to_vec());
                            Ok(vec![])
                        });
                    }
                    _ => {
                        let m = coset::CoseRecipientBuilder::new().protected(h1.clone()).create_ciphertext(c, payload, aad, |_p, _d| vec![1]).protected(h2.clone()).create_ciphertext(c, payload, aad, |_p, d| {
                            seen.push(d.to_vec());
                            vec![2]
                        }).build();
                        let _ = m.decrypt(c, aad, |_c, d| -> Result<Vec<u8>, ()> {
                            v = Some(d.to_vec());
                            Ok(vec![])
                        });
                    }
                });
                let name = format!("{} builder: protected, create_ciphertext, protected, create_ciphertext", text);
                expect_eq(ctx, &name, &seen.pop().unwrap_or_default(), &want, "Enc_structure", &td);
                expect_eq(ctx, &format!("{}; decrypt", name), &v.unwrap_or_default(), &want, "Enc_structure", &td);
            }
        }
    }
}

// ---------------------------------------------------------------------------------------------
// A decoded message whose parsed header is edited WITHOUT dropping the retained bytes: the received
// bytes stay authoritative (that is what `original_data` is for), whatever they are - also h''.

pub fn decoded_edited_keeping_bytes_case(ctx: &mut Ctx, family: &str, prot: &MProt, aad: &[u8], payload: &[u8]) {
    let pb = match &prot.bytes {
        Some(b) => b.clone(),
        None => return,
    };
    let edit = |p: &mut coset::ProtectedHeader| {
        p.header.key_id.push(0x5a);
        p.header.rest.push((coset::Label::Int(-70011), coset::cbor::value::Value::Null));
    };
    match family {
        "Sig_structure" => {
            let b = rcbor::det(&Item::Array(vec![Item::Bytes(pb.clone()), Item::Map(vec![]), Item::Bytes(payload.to_vec()), Item::Bytes(vec![1])]));
            if let Ok(Ok(mut m)) = guard(|| coset::CoseSign1::from_slice(&b)) {
                edit(&mut m.protected);
                let want = model::structure("Signature1", &[&pb, aad, payload]);
                let got = guard(|| m.tbs_data(aad)).unwrap_or_default();
                expect_eq(ctx, "decoded CoseSign1, header edited keeping original_data, tbs_data", &got, &want, "Sig_structure", &tuple_desc("Signature1", &[Some(&pb), None, Some(aad), Some(payload)]));
            }
        }
        "MAC_structure" => {
            for is0 in [true, false] {
                let text = if is0 { "MAC0" } else { "MAC" };
                let mut a = vec![Item::Bytes(pb.clone()), Item::Map(vec![]), Item::Bytes(payload.to_vec()), Item::Bytes(vec![1])];
                if !is0 {
                    a.push(Item::Array(vec![]));
                }
                let b = rcbor::det(&Item::Array(a));
                let want = model::structure(text, &[&pb, aad, payload]);
                let mut v = None;
                if is0 {
                    if let Ok(Ok(mut m)) = guard(|| coset::CoseMac0::from_slice(&b)) {
                        edit(&mut m.protected);
                        let _ = guard(|| m.verify_tag(aad, |_t, d| -> Result<(), ()> {
                            v = Some(d.to_vec());
                            Ok(())
                        }));
                    } else {
                        continue;
                    }
                } else if let Ok(Ok(mut m)) = guard(|| coset::CoseMac::from_slice(&b)) {
                    edit(&mut m.protected);
                    let _ = guard(|| m.verify_tag(aad, |_t, d| -> Result<(), ()> {
                        v = Some(d.to_vec());
                        Ok(())
                    }));
                } else {
                    continue;
                }
                expect_eq(ctx, &format!("decoded Cose{}, header edited keeping original_data, verify_tag", if is0 { "Mac0" } else { "Mac" }), &v.unwrap_or_default(), &want, "MAC_structure", &tuple_desc(text, &[Some(&pb), Some(aad), Some(payload)]));
            }
        }
        _ => {
            let b = rcbor::det(&Item::Array(vec![Item::Bytes(pb.clone()), Item::Map(vec![]), Item::Bytes(vec![7])]));
            let want0 = model::structure("Encrypt0", &[&pb, aad]);
            if let Ok(Ok(mut m)) = guard(|| coset::CoseEncrypt0::from_slice(&b)) {
                edit(&mut m.protected);
                let mut v = None;
                let _ = guard(|| m.decrypt(aad, |_c, d| -> Result<Vec<u8>, ()> {
                    v = Some(d.to_vec());
                    Ok(vec![])
                }));
                expect_eq(ctx, "decoded CoseEncrypt0, header edited keeping original_data, decrypt", &v.unwrap_or_default(), &want0, "Enc_structure", &tuple_desc("Encrypt0", &[Some(&pb), Some(aad)]));
            }
            let wantr = model::structure("Enc_Recipient", &[&pb, aad]);
            if let Ok(Ok(mut m)) = guard(|| coset::CoseRecipient::from_slice(&b)) {
                edit(&mut m.protected);
                let mut v = None;
                let _ = guard(|| m.decrypt(EncryptionContext::EncRecipient, aad, |_c, d| -> Result<Vec<u8>, ()> {
                    v = Some(d.to_vec());
                    Ok(vec![])
                }));
                expect_eq(ctx, "decoded CoseRecipient, header edited keeping original_data, decrypt", &v.unwrap_or_default(), &wantr, "Enc_structure", &tuple_desc("Enc_Recipient", &[Some(&pb), Some(aad)]));
            }
        }
    }
}
