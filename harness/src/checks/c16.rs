//! C16 - label ordering is a total order equal to CBOR's deterministic key ordering.

use crate::capi::{self, CVal};
use crate::gen;
use crate::json::J;
use crate::model::{MLabel, Ty, LABEL_TYPES};
use crate::mon::{guard, scale, Check, Ctx, Phase, Tier};
use crate::rcbor::{self, hex, Item};
use crate::registry::{self, Reg};
use std::cmp::Ordering;

pub struct C16;

/// A registry defined outside the crate through its public traits (as a downstream user may do):
/// assigned values on both sides of zero and a *positive* private-use range.  The label order must
/// still be the order of the encodings.
#[derive(Clone, Copy, Debug, PartialEq, Eq)]
pub enum TestReg {
    MinusSeventy,
    MinusNine,
    MinusTwo,
    Zero,
    Five,
    Big,
}
impl coset::iana::EnumI64 for TestReg {
    fn from_i64(i: i64) -> Option<Self> {
        match i {
            -70 => Some(TestReg::MinusSeventy),
            -9 => Some(TestReg::MinusNine),
            -2 => Some(TestReg::MinusTwo),
            0 => Some(TestReg::Zero),
            5 => Some(TestReg::Five),
            70000 => Some(TestReg::Big),
            _ => None,
        }
    }
    fn to_i64(&self) -> i64 {
        match self {
            TestReg::MinusSeventy => -70,
            TestReg::MinusNine => -9,
            TestReg::MinusTwo => -2,
            TestReg::Zero => 0,
            TestReg::Five => 5,
            TestReg::Big => 70000,
        }
    }
}
impl coset::iana::WithPrivateRange for TestReg {
    fn is_private(i: i64) -> bool {
        (65000..=65535).contains(&i) || i < -100000
    }
}

fn custom_registry_pairs(ctx: &mut Ctx) {
    use coset::CborSerializable;
    type L = coset::RegisteredLabelWithPrivate<TestReg>;
    type R = coset::RegisteredLabel<TestReg>;
    let mut cands: Vec<MLabel> = [-2i64, -9, -70, 0, 5, 70000, 65000, 65001, 65535, -100001, -200000, i64::MIN].iter().map(|i| MLabel::Int(*i)).collect();
    for t in ["", "a", "aa", "\u{e9}", "b"] {
        cands.push(MLabel::Text(t.to_string()));
    }
    let dec: Vec<(MLabel, L)> = cands.iter().filter_map(|l| guard(|| L::from_slice(&enc(l))).ok().and_then(|r| r.ok()).map(|v| (l.clone(), v))).collect();
    let dec2: Vec<(MLabel, R)> = cands.iter().filter_map(|l| guard(|| R::from_slice(&enc(l))).ok().and_then(|r| r.ok()).map(|v| (l.clone(), v))).collect();
    ctx.add("decoded-values:custom registry", dec.len() as u64 + dec2.len() as u64);
    for (la, a) in &dec {
        for (lb, b) in &dec {
            ctx.eval();
            let w = want_lex(la, lb);
            match guard(|| (a.cmp(b), a.partial_cmp(b), a == b)) {
                Ok((o, po, eq)) => {
                    if o != w || po != Some(o) || eq != (w == Ordering::Equal) {
                        ctx.violation("C16/cmp-differs-from-encoded-order/RegisteredLabelWithPrivate<caller-defined registry>", format!("cmp {} but the deterministic encodings compare {}", ord_name(o), ord_name(w)), J::obj(vec![("a", J::Str(hex(&enc(la)))), ("b", J::Str(hex(&enc(lb))))]));
                    }
                }
                Err(p) => ctx.violation(&format!("C16/panic/{}", p.site()), "comparison panicked".into(), J::Null),
            }
        }
    }
    for (la, a) in &dec2 {
        for (lb, b) in &dec2 {
            ctx.eval();
            let w = want_lex(la, lb);
            if let Ok((o, eq)) = guard(|| (a.cmp(b), a == b)) {
                if o != w || eq != (w == Ordering::Equal) {
                    ctx.violation("C16/cmp-differs-from-encoded-order/RegisteredLabel<caller-defined registry>", format!("cmp {} but the deterministic encodings compare {}", ord_name(o), ord_name(w)), J::obj(vec![("a", J::Str(hex(&enc(la)))), ("b", J::Str(hex(&enc(lb))))]));
                }
            }
        }
    }
}

fn boundary_labels() -> Vec<MLabel> {
    let mut v: Vec<MLabel> = Vec::new();
    for i in [
        0i64, 1, 2, 22, 23, 24, 25, 255, 256, 257, 65535, 65536, 65537, (1 << 32) - 1, 1 << 32, (1 << 32) + 1, i64::MAX - 1, i64::MAX, -1, -2, -23, -24, -25, -26, -255, -256, -257, -258, -65535, -65536, -65537, -65538, -(1 << 32),
        -(1 << 32) - 1, -(1 << 32) - 2, i64::MIN + 1, i64::MIN, 7, -7, 100, -100, 1000, -1000,
    ] {
        v.push(MLabel::Int(i));
    }
    for t in [
        "", "a", "b", "z", "\u{7f}", "\u{80}", "\u{e9}", "\u{2603}", "\u{10151}", "aa", "ab", "ba", "a\u{e9}", "\u{e9}a", "zz", "aaa", "abc",
    ] {
        v.push(MLabel::Text(t.to_string()));
    }
    for n in [22usize, 23, 24, 25, 255, 256, 257] {
        v.push(MLabel::Text("a".repeat(n)));
        v.push(MLabel::Text(format!("{}b", "a".repeat(n - 1))));
        v.push(MLabel::Text(format!("b{}", "a".repeat(n - 1))));
    }
    // equal-length texts that share a long prefix and differ in their last or a middle byte (a
    // comparison that looks at a bounded window of the encoding sees them as equal)
    for n in [7usize, 8, 9, 14, 15, 16, 17, 29, 30, 31, 32, 33, 62, 63, 64, 65, 127, 128] {
        v.push(MLabel::Text(format!("{}a", "p".repeat(n))));
        v.push(MLabel::Text(format!("{}b", "p".repeat(n))));
        v.push(MLabel::Text(format!("{}c{}", "p".repeat(n / 2), "p".repeat(n - n / 2))));
    }
    for t in ["A", "Ab", "AB", "wrap", "WRAP", "Wrap", "\u{c9}", "a\u{301}", "\u{e1}"] {
        v.push(MLabel::Text(t.to_string()));
    }
    // multi-byte characters: byte length differs from char count
    v.push(MLabel::Text("\u{e9}".repeat(12))); // 24 bytes, 12 chars
    v.push(MLabel::Text("\u{e9}".repeat(11))); // 22 bytes
    v.push(MLabel::Text("\u{10151}".repeat(6))); // 24 bytes, 6 chars
    v
}

fn enc(l: &MLabel) -> Vec<u8> {
    rcbor::det(&l.item())
}

fn want_lex(a: &MLabel, b: &MLabel) -> Ordering {
    enc(a).cmp(&enc(b))
}
fn want_len_first(a: &MLabel, b: &MLabel) -> Ordering {
    let (x, y) = (enc(a), enc(b));
    x.len().cmp(&y.len()).then(x.cmp(&y))
}

fn clabel(l: &MLabel) -> coset::Label {
    capi::b_label(l)
}

fn ord_name(o: Ordering) -> &'static str {
    match o {
        Ordering::Less => "Less",
        Ordering::Equal => "Equal",
        Ordering::Greater => "Greater",
    }
}

fn check_pair(ctx: &mut Ctx, a: &MLabel, b: &MLabel) {
    ctx.eval();
    let (ca, cb) = (clabel(a), clabel(b));
    let wit = || J::obj(vec![("a", J::Str(hex(&enc(a)))), ("b", J::Str(hex(&enc(b))))]);
    let r = guard(|| (ca.cmp(&cb), cb.cmp(&ca), ca.partial_cmp(&cb), ca == cb, ca.cmp_canonical(&cb), cb.cmp_canonical(&ca)));
    let (ab, ba, pab, eq, cab, cba) = match r {
        Ok(x) => x,
        Err(p) => {
            ctx.violation(&format!("C16/panic/{}", p.site()), format!("label comparison panicked: {}", p.msg), wit());
            return;
        }
    };
    let w = want_lex(a, b);
    if ab != w {
        ctx.violation("C16/cmp-differs-from-encoded-order/Label", format!("cmp gives {} but the deterministic encodings compare {}", ord_name(ab), ord_name(w)), wit());
    }
    if ba != ab.reverse() {
        ctx.violation("C16/not-antisymmetric/Label", format!("a.cmp(b) = {} but b.cmp(a) = {}", ord_name(ab), ord_name(ba)), wit());
    }
    if pab != Some(ab) {
        ctx.violation("C16/partial_cmp-differs/Label", "partial_cmp != Some(cmp)".into(), wit());
    }
    if eq != (ab == Ordering::Equal) || eq != (a == b) {
        ctx.violation("C16/eq-inconsistent/Label", format!("== is {} but cmp is {} and the labels are {}", eq, ord_name(ab), if a == b { "equal" } else { "different" }), wit());
    }
    let wc = want_len_first(a, b);
    if cab != wc || cba != wc.reverse() {
        ctx.violation("C16/cmp_canonical-differs-from-length-first-order/Label", format!("cmp_canonical gives {} / {} but length-first order is {}", ord_name(cab), ord_name(cba), ord_name(wc)), wit());
    }
}

fn check_triple(ctx: &mut Ctx, a: &MLabel, b: &MLabel, c: &MLabel) {
    ctx.eval();
    let (ca, cb, cc) = (clabel(a), clabel(b), clabel(c));
    let r = guard(|| (ca.cmp(&cb), cb.cmp(&cc), ca.cmp(&cc), ca.cmp_canonical(&cb), cb.cmp_canonical(&cc), ca.cmp_canonical(&cc)));
    if let Ok((ab, bc, ac, xab, xbc, xac)) = r {
        let bad = |x: Ordering, y: Ordering, z: Ordering| (x != Ordering::Greater && y != Ordering::Greater && z == Ordering::Greater) || (x == Ordering::Equal && y == Ordering::Equal && z != Ordering::Equal);
        if bad(ab, bc, ac) {
            ctx.violation("C16/not-transitive/Label/cmp", format!("a<=b ({}) and b<=c ({}) but a vs c is {}", ord_name(ab), ord_name(bc), ord_name(ac)), J::obj(vec![("a", J::Str(hex(&enc(a)))), ("b", J::Str(hex(&enc(b)))), ("c", J::Str(hex(&enc(c))))]));
        }
        if bad(xab, xbc, xac) {
            ctx.violation("C16/not-transitive/Label/cmp_canonical", "cmp_canonical is not transitive".into(), J::obj(vec![("a", J::Str(hex(&enc(a)))), ("b", J::Str(hex(&enc(b)))), ("c", J::Str(hex(&enc(c))))]));
        }
    }
}

/// values of a registry label type as produced by decoding
fn decoded_values(ty: Ty) -> Vec<(MLabel, CVal)> {
    let reg = match ty {
        Ty::RegLabel(r) | Ty::RegLabelPriv(r) => r,
        _ => return vec![],
    };
    let mut cands: Vec<MLabel> = registry::values(reg).into_iter().map(MLabel::Int).collect();
    if matches!(ty, Ty::RegLabelPriv(_)) {
        for i in [-65537i64, -65538, -70000, -(1 << 32), -(1 << 32) - 1, i64::MIN, i64::MIN + 1, -(1 << 40)] {
            cands.push(MLabel::Int(i));
        }
    }
    for t in ["", "a", "b", "aa", "ab", "\u{e9}", "\u{e9}a", "aaa", "z", "\u{2603}", "A", "Ab", "AB", "wrap", "WRAP", "Wrap", "wrap ", "\u{c9}", "\u{e9}A", "sign", "Sign", "a\u{301}", "\u{e1}"] {
        cands.push(MLabel::Text(t.to_string()));
    }
    // every label of the plain-label boundary set that is a text (long shared prefixes, equal byte
    // lengths with different character counts, head-length boundaries)
    for l in boundary_labels() {
        if matches!(l, MLabel::Text(_)) && !cands.contains(&l) {
            cands.push(l);
        }
    }
    cands.push(MLabel::Text("a".repeat(23)));
    cands.push(MLabel::Text("a".repeat(24)));
    cands.push(MLabel::Text("\u{e9}".repeat(12)));
    let mut out = Vec::new();
    for l in cands {
        if let Ok(c) = capi::from_slice(ty, &enc(&l)) {
            out.push((l, c));
        }
    }
    out
}

fn cmp_cval(a: &CVal, b: &CVal) -> Option<(Ordering, Option<Ordering>, bool)> {
    macro_rules! arm {
        ($($v:ident),*) => {
            match (a, b) {
                $( (CVal::$v(x), CVal::$v(y)) => guard(|| (x.cmp(y), x.partial_cmp(y), x == y)).ok(), )*
                _ => None,
            }
        };
    }
    arm!(RlContent, RlHeaderParam, RlKeyType, RlKeyOp, RlpAlg, RlpClaim, RlpHeaderParam, RlpCurve)
}

impl Check for C16 {
    fn id(&self) -> &'static str {
        "C16"
    }
    fn phases(&self, tier: Tier, b: f64) -> Vec<Phase> {
        let q = tier == Tier::Quick;
        let n = boundary_labels().len() as u64;
        vec![
            Phase { name: "all ordered pairs of the boundary label set", cases: n, exhaustive: true },
            Phase { name: "all triples of the boundary label set (transitivity)", cases: n * n, exhaustive: true },
            Phase { name: "random pairs and triples of labels", cases: scale(if q { 600000 } else { 5000000 }, b), exhaustive: false },
            Phase { name: "registry label types: all pairs of decoded values (registered, private-use, text), incl. a caller-defined registry with a positive private-use range", cases: 9, exhaustive: true },
            Phase { name: "container monitor: BTreeSet order / membership and sort_by(cmp_canonical) of shuffled boundary sets", cases: scale(if q { 600 } else { 5000 }, b), exhaustive: false },
        ]
    }
    fn run_case(&self, ctx: &mut Ctx, phase: usize, idx: u64) {
        match phase {
            0 => {
                let bl = boundary_labels();
                let a = &bl[idx as usize];
                for b in &bl {
                    ctx.nontrivial(crate::rng::mix(crate::rng::hash_bytes(&enc(a)), crate::rng::hash_bytes(&enc(b))));
                    check_pair(ctx, a, b);
                }
                if idx < 5 {
                    ctx.sample(|| J::obj(vec![("a", J::Str(hex(&enc(a)))), ("compared_with", J::Str(format!("{} boundary labels", bl.len()))), ("outcome", J::s("cmp / partial_cmp / == / cmp_canonical agree with the encoded forms"))]));
                }
            }
            1 => {
                let bl = boundary_labels();
                let n = bl.len() as u64;
                let (a, b) = (&bl[(idx / n) as usize], &bl[(idx % n) as usize]);
                for c in &bl {
                    check_triple(ctx, a, b, c);
                }
            }
            2 => {
                let a = gen::pal_label(&mut ctx.rng);
                let b = if ctx.rng.chance(1, 8) { a.clone() } else { gen::pal_label(&mut ctx.rng) };
                let c = gen::pal_label(&mut ctx.rng);
                ctx.nontrivial(crate::rng::mix(crate::rng::hash_bytes(&enc(&a)), crate::rng::hash_bytes(&enc(&b))));
                check_pair(ctx, &a, &b);
                check_triple(ctx, &a, &b, &c);
            }
            3 if idx == 8 => custom_registry_pairs(ctx),
            3 => {
                let ty = LABEL_TYPES[idx as usize + 1];
                let vals = decoded_values(ty);
                ctx.add(&format!("decoded-values:{}", ty.name()), vals.len() as u64);
                for (la, ca) in &vals {
                    for (lb, cb) in &vals {
                        ctx.eval();
                        ctx.nontrivial(crate::rng::mix(crate::rng::hash_bytes(&enc(la)) ^ idx, crate::rng::hash_bytes(&enc(lb))));
                        let w = want_lex(la, lb);
                        match cmp_cval(ca, cb) {
                            Some((o, po, eq)) => {
                                if o != w || po != Some(o) || eq != (w == Ordering::Equal) {
                                    ctx.violation(
                                        &format!("C16/cmp-differs-from-encoded-order/{}", ty.name()),
                                        format!("cmp {} partial_cmp {:?} == {} but the deterministic encodings compare {}", ord_name(o), po.map(ord_name), eq, ord_name(w)),
                                        J::obj(vec![("a", J::Str(hex(&enc(la)))), ("b", J::Str(hex(&enc(lb))))]),
                                    );
                                }
                            }
                            None => ctx.violation(&format!("C16/panic-in-cmp/{}", ty.name()), "comparison panicked".into(), J::obj(vec![("a", J::Str(hex(&enc(la)))), ("b", J::Str(hex(&enc(lb))))])),
                        }
                    }
                }
            }
            _ => {
                let mut bl = boundary_labels();
                for _ in 0..20 {
                    bl.push(gen::pal_label(&mut ctx.rng));
                }
                ctx.rng.shuffle(&mut bl);
                ctx.eval();
                let labels: Vec<coset::Label> = bl.iter().map(clabel).collect();
                let r = guard(|| {
                    let set: std::collections::BTreeSet<coset::Label> = labels.iter().cloned().collect();
                    let all_found = labels.iter().all(|l| set.contains(l));
                    let iter: Vec<coset::Label> = set.into_iter().collect();
                    let mut sorted = labels.clone();
                    sorted.sort_by(|x, y| x.cmp_canonical(y));
                    (all_found, iter, sorted)
                });
                match r {
                    Ok((all_found, iter, sorted)) => {
                        let to_enc = |l: &coset::Label| match l {
                            coset::Label::Int(i) => rcbor::det(&Item::int(*i)),
                            coset::Label::Text(t) => rcbor::det(&Item::Text(t.clone())),
                        };
                        let e: Vec<Vec<u8>> = iter.iter().map(to_enc).collect();
                        let mut distinct: Vec<Vec<u8>> = bl.iter().map(enc).collect();
                        distinct.sort();
                        distinct.dedup();
                        if !all_found || e != distinct {
                            ctx.violation("C16/btreeset-order-or-membership", format!("BTreeSet<Label> iteration differs from encoded order or loses members ({} vs {} elements, all found: {})", e.len(), distinct.len(), all_found), J::Null);
                        }
                        // the same labels as the parameters of a key: canonicalize must sort them into
                        // either standard order (labels 0-5 are the typed fields' and stay out)
                        for (ordering, name) in [(coset::CborOrdering::Lexicographic, "Lexicographic"), (coset::CborOrdering::LengthFirstLexicographic, "LengthFirstLexicographic")] {
                            let mut seen = std::collections::HashSet::new();
                            let params: Vec<(coset::Label, coset::cbor::value::Value)> = labels.iter().filter(|l| !matches!(l, coset::Label::Int(i) if (0..=5).contains(i))).filter(|l| seen.insert(to_enc(l))).map(|l| (l.clone(), coset::cbor::value::Value::Null)).collect();
                            let mut key = coset::CoseKey { kty: coset::KeyType::Assigned(coset::iana::KeyType::Symmetric), params, ..Default::default() };
                            let lens = matches!(ordering, coset::CborOrdering::LengthFirstLexicographic);
                            ctx.eval();
                            if guard(|| key.canonicalize(ordering)).is_err() {
                                ctx.violation("C16/canonicalize-panicked", format!("CoseKey::canonicalize({}) panicked on the boundary label set", name), J::Null);
                                continue;
                            }
                            let encs: Vec<Vec<u8>> = key.params.iter().map(|(l, _)| to_enc(l)).collect();
                            let ok = encs.windows(2).all(|w| if lens { (w[0].len(), &w[0]) < (w[1].len(), &w[1]) } else { w[0] < w[1] });
                            if !ok {
                                let bad = encs.windows(2).find(|w| if lens { (w[0].len(), &w[0]) >= (w[1].len(), &w[1]) } else { w[0] >= w[1] }).map(|w| format!("{} before {}", hex(&w[0][..w[0].len().min(40)]), hex(&w[1][..w[1].len().min(40)]))).unwrap_or_default();
                                ctx.violation(&format!("C16/canonicalize-does-not-sort/{}", name), format!("sorting map keys with the label order ({}) leaves them out of order: {}", name, bad), J::Null);
                            }
                        }
                        let s: Vec<Vec<u8>> = sorted.iter().map(to_enc).collect();
                        if !s.windows(2).all(|w| (w[0].len(), &w[0]) <= (w[1].len(), &w[1])) {
                            ctx.violation("C16/sort-by-cmp_canonical-not-length-first", "sorting with cmp_canonical does not yield length-first order".into(), J::Null);
                        }
                    }
                    Err(p) => ctx.violation(&format!("C16/panic/{}", p.site()), format!("container monitor panicked: {}", p.msg), J::Null),
                }
            }
        }
    }
    fn rule(&self) -> String {
        "boundary label set (integers at every encoding-length boundary of both signs up to the 64-bit extremes; texts of byte length 0,1,2,22-25,255-257 with first/last byte variations and multi-byte characters whose byte length differs from their char count): all ordered pairs and all triples; random pairs/triples; for the eight registry label instantiations every registered value, private-use values down to i64::MIN and texts, obtained by decoding, all pairs; BTreeSet, sort_by and CoseKey::canonicalize container monitors; equal-length texts sharing prefixes of 7-128 bytes. Oracle: cmp == bytewise comparison of independently produced deterministic encodings; cmp_canonical == (length, bytes) comparison; == iff cmp is Equal iff encodings equal; antisymmetry; transitivity; partial_cmp == Some(cmp). Non-trivial = distinct ordered pairs.".into()
    }
    fn assumptions(&self) -> Vec<String> {
        vec!["deterministic encodings are produced by the harness's own encoder (rcbor), not by ciborium".into()]
    }
    fn finish(&self, m: &mut Ctx) -> Result<(), String> {
        for ty in &LABEL_TYPES[1..] {
            if m.counters.get(&format!("decoded-values:{}", ty.name())).copied().unwrap_or(0) < 10 {
                return Err(format!("too few decoded values for {}", ty.name()));
            }
        }
        Ok(())
    }
}

#[allow(dead_code)]
fn unused(_: Reg) {}
