//! Shared engine of the "accepted iff well-formed, fields equal the wire" checks (C09, C10, C18):
//! valid values, complete single-fault neighbourhoods of fixed bases, random faults, each offered
//! to a set of decoding entry points in several encodings.

use super::common::{decode_oracle_ex, Outcome};
use crate::capi;
use crate::gen::{self, GenOpts};
use crate::json::J;
use crate::model::{self, Ty, Verdict};
use crate::mon::Ctx;
use crate::rcbor::{self, hex, Item, Style};
use crate::rng::Rng;

/// Offer one wire item to every type in `types` (untagged entry point, plus the Value-level API,
/// plus - for taggable types - the tagged entry point with the right tag).
pub fn offer(ctx: &mut Ctx, it: &Item, types: &[Ty], nstyles: usize, strict: bool, nontrivial: bool) {
    for s in 0..=nstyles {
        let bytes = if s == 0 { rcbor::det(it) } else { rcbor::encode(it, &mut Style::random(ctx.rng.next())) };
        if nontrivial {
            ctx.nontrivial_bytes(&bytes);
        }
        for ty in types {
            let out = decode_oracle_ex(ctx, *ty, &bytes, "from_slice", strict, false);
            if let Outcome::Accepted(..) = out {
                ctx.count(&format!("accept:{}", ty.name()));
                if s > 0 {
                    ctx.sample(|| J::obj(vec![("type", J::Str(ty.name())), ("hex", J::Str(hex(&bytes))), ("outcome", J::s("accepted, every field equals the reference model's"))]));
                }
            }
            if s == 0 {
                // Value-level API agrees with the byte-level one
                if let Ok(v) = capi::ciborium_parse_exact(&bytes) {
                    ctx.eval();
                    let a = capi::from_value(*ty, v);
                    let b = capi::from_slice(*ty, &bytes);
                    if a.is_ok() != b.is_ok() {
                        ctx.violation(
                            &format!("{}/api-layers-disagree/{}", ctx.prop, ty.name()),
                            "from_cbor_value and from_slice disagree about acceptance".to_string(),
                            J::obj(vec![("hex", J::Str(hex(&bytes)))]),
                        );
                    }
                }
                if let Some(tag) = ty.tag() {
                    let tagged = Item::Tag(tag, Box::new(it.clone()));
                    let tb = rcbor::det(&tagged);
                    decode_oracle_ex(ctx, *ty, &tb, "from_tagged_slice", strict, true);
                }
                // a tag around the item (self-described CBOR, embedded CBOR, CWT, ...) is not the item
                if ctx.idx % 4 == 0 {
                    for w in [55799u64, 24, 61] {
                        let wb = rcbor::det(&Item::Tag(w, Box::new(it.clone())));
                        decode_oracle_ex(ctx, *ty, &wb, "from_slice(tag-wrapped)", false, false);
                    }
                    let eb = rcbor::det(&Item::Tag(24, Box::new(Item::Bytes(bytes.clone()))));
                    decode_oracle_ex(ctx, *ty, &eb, "from_slice(24(bstr))", false, false);
                }
            }
        }
    }
}

pub fn fixed_base(ty: Ty, salt: u64, i: u64, max_depth: u32) -> Item {
    // a base is a valid value of moderate size (its complete neighbourhood grows with the square of
    // its node count): the first of eight candidates with at most 120 nodes
    let o = GenOpts { styled_prot: 0, built: false, max_depth, mixed: false };
    let mut r = Rng::new(crate::rng::mix(salt, i));
    let mut it = model::encode(&gen::gen_mval(&mut r, ty, &o));
    for attempt in 1..8u64 {
        if gen::count_nodes(&it, true) <= 120 {
            break;
        }
        r = Rng::new(crate::rng::mix(salt, i + attempt * 1_000_003));
        it = model::encode(&gen::gen_mval(&mut r, ty, &o));
    }
    // every other base has its top-level map entries in a scattered (non-canonical) wire order
    match it {
        Item::Map(mut m) if i % 2 == 1 => {
            r.shuffle(&mut m);
            Item::Map(m)
        }
        other => other,
    }
}

/// the complete single-fault neighbourhood of base `i` of type `ty`, offered to `types`
pub fn enum_case(ctx: &mut Ctx, ty: Ty, salt: u64, i: u64, types: &[Ty], max_depth: u32) {
    let base = fixed_base(ty, salt, i, max_depth);
    match model::decode(ty, &base.normalize()) {
        Verdict::Accept(_) => {}
        Verdict::Unspecified(_) => return,
        Verdict::Reject(r) => {
            ctx.harness_errors.push(format!("{} base {} of {} is not valid: {}", ctx.prop, i, ty.name(), r.rule));
            return;
        }
    }
    offer(ctx, &base, types, 1, false, false);
    // the error kind is comparable only for types that accept the base (then a variant carries
    // exactly one fault for them)
    let strict_types: Vec<Ty> = types.iter().copied().filter(|t| matches!(model::decode(*t, &base.normalize()), Verdict::Accept(_))).collect();
    let other_types: Vec<Ty> = types.iter().copied().filter(|t| !strict_types.contains(t)).collect();
    for (what, v) in gen::enum_faults(&base) {
        ctx.count(&format!("fault-variant:{}", what.split('#').next().unwrap_or("")));
        offer(ctx, &v, &strict_types, 0, true, true);
        offer(ctx, &v, &other_types, 0, false, true);
    }
}

pub fn valid_case(ctx: &mut Ctx, ty: Ty, types: &[Ty]) {
    let o = GenOpts::wire();
    let v = gen::gen_mval(&mut ctx.rng, ty, &o);
    let it = model::encode(&v);
    offer(ctx, &it, types, 3, false, true);
}

pub fn mutant_case(ctx: &mut Ctx, ty: Ty, types: &[Ty]) {
    let o = GenOpts::wire();
    let v = gen::gen_mval(&mut ctx.rng, ty, &o);
    let mut it = model::encode(&v);
    let n = 1 + ctx.rng.below(3);
    for _ in 0..n {
        it = gen::mutate_item(&mut ctx.rng, &it);
    }
    offer(ctx, &it, types, 1, false, true);
}

pub fn require_rules(m: &Ctx, rules: &[&str]) -> Result<(), String> {
    for rule in rules {
        if m.counters.get(&format!("rule:{}", rule)).copied().unwrap_or(0) == 0 {
            return Err(format!("rule {} was never exercised", rule));
        }
    }
    Ok(())
}
