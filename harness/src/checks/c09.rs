//! C09 - message structures: accepted iff they match their CDDL; slots map to fields.

use super::iff;
use crate::gen::{self, GenOpts};
use crate::model::{self, MSG_TYPES};
use crate::mon::{scale, Check, Ctx, Phase, Tier};
use crate::rcbor::Item;

pub struct C09;
const SALT: u64 = 0xC09_BA5E;

fn slot_value(ctx: &mut Ctx) -> Item {
    let o = GenOpts::wire();
    match ctx.rng.below(12) {
        0 => Item::Bytes(vec![]),
        1 => Item::Bytes(gen::small_bytes(&mut ctx.rng)),
        2 => {
            // a protected header
            match model::enc_prot(&gen::gen_prot(&mut ctx.rng, &o, 1)) {
                x => x,
            }
        }
        3 => Item::Map(vec![]),
        4 => model::enc_header(&gen::gen_header(&mut ctx.rng, &o, 1)),
        5 => Item::Null,
        6 => Item::Array(vec![]),
        7 => {
            let n = 1 + ctx.rng.below(2);
            Item::Array((0..n).map(|_| model::enc_signature(&gen::gen_signature(&mut ctx.rng, &o, 1))).collect())
        }
        8 => {
            let n = 1 + ctx.rng.below(2);
            Item::Array((0..n).map(|_| model::enc_recipient(&gen::gen_recipient(&mut ctx.rng, &o, 1))).collect())
        }
        9 => gen::kind_palette(ctx.rng.below(gen::KIND_PALETTE_LEN)),
        10 => model::enc_signature(&gen::gen_signature(&mut ctx.rng, &o, 1)),
        _ => gen::random_item(&mut ctx.rng, 2),
    }
}

impl Check for C09 {
    fn id(&self) -> &'static str {
        "C09"
    }
    fn phases(&self, tier: Tier, b: f64) -> Vec<Phase> {
        let q = tier == Tier::Quick;
        vec![
            Phase { name: "valid messages of each type x styles, offered to all 8 types + tagged entry points", cases: scale(if q { 8000 } else { 100000 }, b), exhaustive: false },
            Phase { name: "complete single-fault neighbourhood of fixed bases (8 types x N bases)", cases: if q { 8 * 4 } else { 8 * 40 }, exhaustive: true },
            Phase { name: "1-3 random faults", cases: scale(if q { 16000 } else { 300000 }, b), exhaustive: false },
            Phase { name: "arrays of arity 0-7 over slot palettes", cases: scale(if q { 20000 } else { 300000 }, b), exhaustive: false },
            Phase { name: "fault planted at each depth of nested recipients / signatures", cases: scale(if q { 4000 } else { 60000 }, b), exhaustive: false },
            Phase { name: "nested slot holding one bare COSE_Signature / COSE_recipient instead of an array of them; nested arrays of 250-300 entries with a fault at a late index", cases: scale(if q { 200 } else { 4000 }, b), exhaustive: false },
            Phase { name: "recipient layers (0-13) x counter-signature chain length (0-10) x chain form (5): whether the innermost recipient's header is accepted does not depend on how many recipient layers enclose it", cases: 11 * 5, exhaustive: true },
            Phase { name: "birthday: COSE_Sign1 whose protected header carries 2^18 pairwise distinct labels", cases: 1, exhaustive: true },
        ]
    }
    fn run_case(&self, ctx: &mut Ctx, phase: usize, idx: u64) {
        let ty = MSG_TYPES[(idx % 8) as usize];
        match phase {
            7 => {
                super::common::birthday_case(ctx, 6);
            }
            0 => iff::valid_case(ctx, ty, &MSG_TYPES),
            1 => iff::enum_case(ctx, ty, SALT, idx / 8, &MSG_TYPES, 1),
            2 => iff::mutant_case(ctx, ty, &MSG_TYPES),
            3 => {
                if ctx.rng.chance(1, 24) {
                    // arities that are congruent to a legal one modulo 2^8 / 2^16: the first slots of a
                    // valid message followed by surplus empty byte strings
                    let ty = MSG_TYPES[ctx.rng.below(8)];
                    let v = gen::gen_mval(&mut ctx.rng, ty, &GenOpts::wire());
                    if let Item::Array(mut a) = model::encode(&v) {
                        let n = if ctx.rng.chance(1, 40) { *ctx.rng.pick(&[65539usize, 65540, 65541]) } else { *ctx.rng.pick(&[255usize, 256, 257, 258, 259, 260, 261, 262, 263, 515, 516, 517]) };
                        while a.len() < n {
                            a.push(Item::Bytes(vec![]));
                        }
                        ctx.count("arity-aliases");
                        iff::offer(ctx, &Item::Array(a), &MSG_TYPES, 0, false, true);
                    }
                    return;
                }
                let n = ctx.rng.below(8);
                let a: Vec<Item> = (0..n).map(|_| slot_value(ctx)).collect();
                iff::offer(ctx, &Item::Array(a), &MSG_TYPES, 1, false, true);
            }
            6 => super::common::layering_relation_case(ctx, idx),
            5 => {
                let o = GenOpts::wire();
                let sig = model::enc_signature(&gen::gen_signature(&mut ctx.rng, &o, 2));
                let mut r = gen::gen_recipient(&mut ctx.rng, &o, 3);
                r.recipients.clear();
                let rcp = model::enc_recipient(&r);
                let z = Item::Bytes(vec![]);
                let e = Item::Map(vec![]);
                // the nested slot is the element itself rather than an array of elements
                let bare = [
                    Item::Array(vec![z.clone(), e.clone(), Item::Null, sig.clone()]),
                    Item::Array(vec![z.clone(), e.clone(), Item::Null, rcp.clone()]),
                    Item::Array(vec![z.clone(), e.clone(), Item::Null, z.clone(), rcp.clone()]),
                    Item::Array(vec![z.clone(), e.clone(), Item::Null, Item::Array(vec![z.clone(), e.clone(), Item::Null, rcp.clone()])]),
                ];
                for it in bare.iter() {
                    iff::offer(ctx, it, &MSG_TYPES, 0, false, true);
                }
                // long nested arrays: every element must be validated, also beyond the 256th
                let n = 250 + ctx.rng.below(60);
                let bad_at = if ctx.rng.chance(3, 4) { Some(n - 1 - ctx.rng.below(n.min(50))) } else { None };
                let small_sig = Item::Array(vec![z.clone(), e.clone(), Item::bytes(&[1])]);
                let small_rcp = Item::Array(vec![z.clone(), e.clone(), Item::Null]);
                let mut sigs: Vec<Item> = (0..n).map(|_| small_sig.clone()).collect();
                let mut rcps: Vec<Item> = (0..n).map(|_| small_rcp.clone()).collect();
                if let Some(i) = bad_at {
                    sigs[i] = gen::kind_palette(ctx.rng.below(gen::KIND_PALETTE_LEN));
                    rcps[i] = Item::Array(vec![z.clone(), Item::int(1), Item::Null]);
                }
                iff::offer(ctx, &Item::Array(vec![z.clone(), e.clone(), Item::Null, Item::Array(sigs)]), &[crate::model::Ty::Sign], 0, false, true);
                iff::offer(ctx, &Item::Array(vec![z.clone(), e.clone(), Item::Null, Item::Array(rcps.clone())]), &[crate::model::Ty::Encrypt, crate::model::Ty::Recipient], 0, false, true);
                iff::offer(ctx, &Item::Array(vec![z.clone(), e.clone(), Item::Null, z.clone(), Item::Array(rcps)]), &[crate::model::Ty::Mac], 0, false, true);
            }
            _ => {
                // deep nesting: a fault at a chosen depth of a recipient chain / signer list
                let o = GenOpts { styled_prot: 128, built: false, max_depth: 3, mixed: false };
                let depth = 1 + ctx.rng.below(3);
                let mut r = gen::gen_recipient(&mut ctx.rng, &o, 3);
                r.recipients.clear();
                let mut item = model::enc_recipient(&r);
                if ctx.rng.coin() {
                    item = gen::mutate_item(&mut ctx.rng, &item);
                }
                for _ in 0..depth {
                    let mut outer = gen::gen_recipient(&mut ctx.rng, &o, 3);
                    outer.recipients.clear();
                    let mut oi = match model::enc_recipient(&outer) {
                        Item::Array(a) => a,
                        _ => unreachable!(),
                    };
                    oi.push(Item::Array(vec![item]));
                    item = Item::Array(oi);
                }
                let top = match ctx.rng.below(3) {
                    0 => item,
                    1 => Item::Array(vec![Item::Bytes(vec![]), Item::Map(vec![]), Item::Null, Item::Array(vec![item])]),
                    _ => Item::Array(vec![Item::Bytes(vec![]), Item::Map(vec![]), Item::Null, Item::Bytes(vec![7]), Item::Array(vec![item])]),
                };
                iff::offer(ctx, &top, &MSG_TYPES, 1, false, true);
            }
        }
    }
    fn rule(&self) -> String {
        "wire items generated as: valid COSE_Sign1/Sign/Signature/Mac/Mac0/Encrypt/Encrypt0/recipient values (nesting <= 3, styled protected headers, distinct slot values) in canonical + 3 random encodings; the complete single-fault neighbourhood of fixed bases of each type; 1-3 random faults; arrays of arity 0-7 over slot palettes (valid for the slot, valid for another slot, every other CBOR kind); faults planted at each depth of nested recipients; recipients under 0-13 enclosing recipient layers whose innermost protected header holds a chain of 0-10 counter signatures in five forms (relation: acceptance of the header does not depend on the number of enclosing layers). Every input is offered to all eight types (shared shapes) through from_slice, from_cbor_value and, for taggable types, from_tagged_slice. Oracle: accept iff the reference model accepts, then every field equals its slot. Birthday workload: 2^18 pairwise distinct labels (8-character texts / 64-bit integers / private-use integers) in one map must all be accepted and come back in order (a duplicate detector keyed on anything shorter than the label would report a duplicate that is not there). Non-trivial = distinct encodings.".into()
    }
    fn assumptions(&self) -> Vec<String> {
        let mut v = super::std_assumptions();
        v.push("empty signature / recipient arrays are left unspecified by the property and are not judged".into());
        v
    }
    fn finish(&self, m: &mut Ctx) -> Result<(), String> {
        iff::require_rules(m, &["sign1.arity", "sign.arity", "sig.arity", "mac.arity", "mac0.arity", "enc.arity", "enc0.arity", "rcp.arity", "prot.kind", "prot.trailing", "hdr.not-map", "sign1.payload-kind", "sign1.signature-kind", "mac.tag-kind", "enc.ciphertext-kind", "rcp.nested-bad", "msg.recipient-bad", "sign.signature-bad", "sign.signatures-kind", "msg.recipients-kind"])?;
        for ty in MSG_TYPES {
            if m.counters.get(&format!("accept:{}", ty.name())).copied().unwrap_or(0) < 100 {
                return Err(format!("fewer than 100 accepted {}", ty.name()));
            }
        }
        Ok(())
    }
}
