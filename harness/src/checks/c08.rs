//! C08 - header maps: accepted iff well-formed; fields mean what the wire said.

use super::common::{decode_oracle, Outcome};
use crate::capi;
use crate::gen::{self, GenOpts};
use crate::json::J;
use crate::model::{self, MVal, Ty, Verdict};
use crate::mon::{scale, Check, Ctx, Phase, Tier};
use crate::rcbor::{self, hex, Item, Style};
use crate::rng::Rng;

pub struct C08;

const FIXED_BASE_SEED: u64 = 0xC08_BA5E;

/// run a (possibly ill-formed) header item through every carrier
pub fn through_carriers(ctx: &mut Ctx, h: &Item, nstyles: usize, strict: bool, nontrivial: bool) {
    let canon = rcbor::det(h);
    for s in 0..=nstyles {
        let bytes = if s == 0 { canon.clone() } else { rcbor::encode(h, &mut Style::random(ctx.rng.next())) };
        if nontrivial {
            ctx.nontrivial_bytes(&bytes);
        }
        // A: standalone
        let out = decode_oracle(ctx, Ty::Header, &bytes, "Header::from_slice", strict);
        if s == 0 {
            // a tag around the map is not a header map
            for w in [55799u64, 24] {
                let wb = rcbor::det(&Item::Tag(w, Box::new(h.clone())));
                decode_oracle(ctx, Ty::Header, &wb, "Header::from_slice(tag-wrapped)", false);
            }
        }
        if let Outcome::Accepted(..) = out {
            ctx.sample(|| J::obj(vec![("carrier", J::s("Header::from_slice")), ("hex", J::Str(hex(&bytes))), ("outcome", J::s("accepted, fields equal the model's"))]));
        }
        // D: the Value-level API must agree with the byte-level one
        if let Ok(v) = capi::ciborium_parse_exact(&bytes) {
            ctx.eval();
            let a = capi::from_value(Ty::Header, v);
            let b = capi::from_slice(Ty::Header, &bytes);
            if a.is_ok() != b.is_ok() {
                ctx.violation(
                    "C08/api-layers-disagree/Header",
                    format!("from_cbor_value gives {:?} but from_slice gives {:?}", a.as_ref().map(|_| "Ok").map_err(|e| e.name()), b.as_ref().map(|_| "Ok").map_err(|e| e.name())),
                    J::obj(vec![("hex", J::Str(hex(&bytes)))]),
                );
            }
        }
        if s > 1 {
            continue;
        }
        // B: unprotected slot of a COSE_Sign1; C: protected bstr of a COSE_Sign1
        let b_item = Item::Array(vec![Item::Bytes(vec![]), h.clone(), Item::Null, Item::Bytes(vec![1])]);
        let bb = if s == 0 { rcbor::det(&b_item) } else { rcbor::encode(&b_item, &mut Style::random(ctx.rng.next())) };
        decode_oracle(ctx, Ty::Sign1, &bb, "CoseSign1.unprotected", strict);
        let c_item = Item::Array(vec![Item::Bytes(bytes.clone()), Item::Map(vec![]), Item::Bytes(vec![2]), Item::Bytes(vec![])]);
        let cb = if s == 0 { rcbor::det(&c_item) } else { rcbor::encode(&c_item, &mut Style::random(ctx.rng.next())) };
        decode_oracle(ctx, Ty::Sign1, &cb, "CoseSign1.protected", strict);
    }
}

fn base_header(i: u64) -> Item {
    let mut r = Rng::new(crate::rng::mix(FIXED_BASE_SEED, i));
    // the first bases are the deterministic "each typed field alone" and "all fields" headers
    let o = GenOpts { styled_prot: 0, built: false, max_depth: 1, mixed: false };
    let h = gen::gen_header(&mut r, &o, 0);
    model::enc_header(&h)
}

impl Check for C08 {
    fn id(&self) -> &'static str {
        "C08"
    }
    fn phases(&self, tier: Tier, b: f64) -> Vec<Phase> {
        let q = tier == Tier::Quick;
        vec![
            Phase { name: "valid headers x styles x carriers", cases: scale(if q { 30000 } else { 150000 }, b), exhaustive: false },
            Phase { name: "complete single-fault neighbourhood of fixed base headers", cases: if q { 40 } else { 400 }, exhaustive: true },
            Phase { name: "1-3 random faults", cases: scale(if q { 75000 } else { 400000 }, b), exhaustive: false },
            Phase { name: "random maps over the label alphabet", cases: scale(if q { 75000 } else { 400000 }, b), exhaustive: false },
            Phase { name: "all entry orders of small headers", cases: scale(if q { 1500 } else { 6000 }, b), exhaustive: false },
            Phase { name: "all 128 subsets of the typed fields", cases: 128, exhaustive: true },
            Phase { name: "every ordered pair of the seven typed entries (both orders, incl. IV with Partial IV) and every typed entry twice", cases: 49, exhaustive: true },
            Phase { name: "text content types: each of the 25 Unicode White_Space characters and 12 look-alikes that are not white space, leading / trailing / inner; '/' counts 0-3", cases: 37 + 8, exhaustive: true },
            Phase { name: "birthday: header maps with 2^18 pairwise distinct text / integer labels (bare, and as the protected header of a COSE_Sign1)", cases: 3, exhaustive: true },
        ]
    }
    fn run_case(&self, ctx: &mut Ctx, phase: usize, idx: u64) {
        match phase {
            8 => {
                let w = [0u64, 1, 6][idx as usize];
                super::common::birthday_case(ctx, w);
            }
            0 => {
                let o = GenOpts::wire();
                let h = gen::gen_header(&mut ctx.rng, &o, 0);
                let it = model::enc_header(&h);
                let it = gen::shuffle_typed_entries(&mut ctx.rng, &it);
                let nt = matches!(&it, Item::Map(m) if m.len() >= 2);
                through_carriers(ctx, &it, 3, false, nt);
            }
            1 => {
                let base = base_header(idx);
                if !matches!(model::decode(Ty::Header, &base.normalize()), Verdict::Accept(_)) {
                    ctx.harness_errors.push(format!("C08 base header {} is not valid", idx));
                    return;
                }
                through_carriers(ctx, &base, 1, false, false);
                for (what, v) in gen::enum_faults(&base) {
                    ctx.count(&format!("fault-variant:{}", what.split('#').next().unwrap_or("")));
                    through_carriers(ctx, &v, 1, true, true);
                }
            }
            2 => {
                let o = GenOpts::wire();
                let h = gen::gen_header(&mut ctx.rng, &o, 0);
                let mut it = model::enc_header(&h);
                let n = 1 + ctx.rng.below(3);
                for _ in 0..n {
                    it = gen::mutate_item(&mut ctx.rng, &it);
                }
                through_carriers(ctx, &it, 2, false, true);
            }
            3 => {
                let n = ctx.rng.below(6);
                let mut m = Vec::new();
                for _ in 0..n {
                    let k = match ctx.rng.below(10) {
                        0..=4 => Item::Int(ctx.rng.range(0, 8) as i128),
                        5..=7 => gen::pal_label(&mut ctx.rng).item(),
                        8 => Item::Int(gen::pal_int(&mut ctx.rng)),
                        _ => gen::random_item(&mut ctx.rng, 1),
                    };
                    let v = match ctx.rng.below(4) {
                        0 => gen::kind_palette(ctx.rng.below(gen::KIND_PALETTE_LEN)),
                        1 => gen::random_item(&mut ctx.rng, 2),
                        _ => {
                            // a value that is valid for *some* standard label
                            let o = GenOpts::wire();
                            let h = gen::gen_header(&mut ctx.rng, &o, 1);
                            match model::enc_header(&h) {
                                Item::Map(mm) if !mm.is_empty() => mm[ctx.rng.below(mm.len())].1.clone(),
                                _ => Item::Bytes(vec![1]),
                            }
                        }
                    };
                    m.push((k, v));
                }
                through_carriers(ctx, &Item::Map(m), 1, false, true);
            }
            4 => {
                // every order of the entries of a header with <= 5 entries: same outcome, extras in
                // wire order
                let o = GenOpts { styled_prot: 0, built: false, max_depth: 1, mixed: false };
                let h = gen::gen_header(&mut ctx.rng, &o, 0);
                let it = model::enc_header(&h);
                if let Item::Map(m) = &it {
                    if m.len() >= 2 && m.len() <= 5 {
                        let mut idxs: Vec<usize> = (0..m.len()).collect();
                        permute(&mut idxs, 0, &mut |p| {
                            let pm: Vec<(Item, Item)> = p.iter().map(|i| m[*i].clone()).collect();
                            let bytes = rcbor::det(&Item::Map(pm));
                            ctx.nontrivial_bytes(&bytes);
                            decode_oracle(ctx, Ty::Header, &bytes, "Header::from_slice(permuted)", false);
                        });
                    }
                }
            }
            7 => {
                const WS: [char; 25] = ['\u{9}', '\u{a}', '\u{b}', '\u{c}', '\u{d}', ' ', '\u{85}', '\u{a0}', '\u{1680}', '\u{2000}', '\u{2001}', '\u{2002}', '\u{2003}', '\u{2004}', '\u{2005}', '\u{2006}', '\u{2007}', '\u{2008}', '\u{2009}', '\u{200a}', '\u{2028}', '\u{2029}', '\u{202f}', '\u{205f}', '\u{3000}'];
                const NOT_WS: [char; 12] = ['\u{0}', '\u{1c}', '\u{1d}', '\u{1e}', '\u{1f}', '\u{7f}', '\u{180e}', '\u{200b}', '\u{200c}', '\u{2060}', '\u{feff}', '\u{e9}'];
                let mut texts: Vec<String> = Vec::new();
                if idx < 37 {
                    let c = if idx < 25 { WS[idx as usize] } else { NOT_WS[(idx - 25) as usize] };
                    for base in ["a/b", "text/plain", "\u{e9}/\u{2603}", "/"] {
                        texts.push(format!("{}{}", c, base));
                        texts.push(format!("{}{}", base, c));
                        texts.push(format!("{}{}{}", c, base, c));
                        texts.push(base.replacen('/', &format!("{}/", c), 1));
                        texts.push(format!("{}{}{}", c, c, base));
                    }
                    texts.push(c.to_string());
                    texts.push(format!("{}/{}", c, c));
                } else {
                    let k = idx - 37;
                    for base in ["", "a", "ab", "\u{e9}", "a b"] {
                        // k slashes (0..3) at the start, end, and spread
                        let n = (k % 4) as usize;
                        texts.push(format!("{}{}", "/".repeat(n), base));
                        texts.push(format!("{}{}", base, "/".repeat(n)));
                        texts.push(std::iter::repeat(base).take(n + 1).collect::<Vec<_>>().join("/"));
                        if k >= 4 {
                            texts.push(format!(" {}{}", "/".repeat(n), base));
                        }
                    }
                }
                for t in texts {
                    let m = Item::Map(vec![(Item::int(3), Item::Text(t))]);
                    through_carriers(ctx, &m, 0, true, true);
                }
            }
            6 => {
                let vals: [(i64, Item); 7] = [
                    (1, Item::int(-7)),
                    (2, Item::Array(vec![Item::int(4)])),
                    (3, Item::int(60)),
                    (4, Item::bytes(&[1, 2])),
                    (5, Item::bytes(&[3])),
                    (6, Item::bytes(&[4])),
                    (7, Item::Array(vec![Item::Bytes(vec![]), Item::Map(vec![]), Item::bytes(&[9])])),
                ];
                let (a, b) = ((idx / 7) as usize, (idx % 7) as usize);
                for extra_first in [false, true] {
                    let mut m = vec![(Item::int(vals[a].0), vals[a].1.clone()), (Item::int(vals[b].0), vals[b].1.clone())];
                    if extra_first {
                        m.insert(0, (Item::int(10), Item::Null));
                        m.insert(2, (Item::text("x"), Item::int(1)));
                    }
                    through_carriers(ctx, &Item::Map(m), 1, a == b, true);
                }
            }
            _ => {
                // each subset of the seven typed fields, with a fixed valid value per field
                let vals: [(i64, Item); 7] = [
                    (1, Item::int(-7)),
                    (2, Item::Array(vec![Item::int(4), Item::text("x")])),
                    (3, Item::text("a/b")),
                    (4, Item::bytes(&[1, 2])),
                    (5, Item::bytes(&[3])),
                    (6, Item::bytes(&[4])),
                    (7, Item::Array(vec![Item::Bytes(vec![]), Item::Map(vec![]), Item::bytes(&[9])])),
                ];
                let mut m = Vec::new();
                for (bit, (l, v)) in vals.iter().enumerate() {
                    if idx & (1 << bit) != 0 {
                        m.push((Item::int(*l), v.clone()));
                    }
                }
                m.push((Item::int(99), Item::int(1)));
                through_carriers(ctx, &Item::Map(m), 1, false, true);
            }
        }
    }
    fn rule(&self) -> String {
        "header maps generated as: valid model headers (every field optional, counter-signatures nested <= 2, extras over the label alphabet) in canonical and 3 random encodings (head widths, indefinite lengths, bignum integers, float widths, shuffled typed entries); the complete single-fault neighbourhood (every node x 24 replacement kinds, every entry removed/duplicated at every position, boundary tweaks) of fixed base headers; 1-3 random faults; uniformly random maps; all entry orders of small headers; all 128 typed-field subsets. Each through Header::from_slice, from_cbor_value, and the unprotected and protected slot of a COSE_Sign1. Oracle: accept iff the reference model accepts, fields equal. Birthday workload: 2^18 pairwise distinct labels (8-character texts / 64-bit integers / private-use integers) in one map must all be accepted and come back in order (a duplicate detector keyed on anything shorter than the label would report a duplicate that is not there). Non-trivial = distinct encodings with >= 2 entries or a planted fault.".into()
    }
    fn assumptions(&self) -> Vec<String> {
        super::std_assumptions()
    }
    fn finish(&self, m: &mut Ctx) -> Result<(), String> {
        for rule in ["hdr.dup", "hdr.alg.kind", "hdr.alg.unregistered", "hdr.crit.empty", "hdr.crit.kind", "hdr.ct.empty", "hdr.ct.whitespace", "hdr.ct.slash", "hdr.ct.unregistered", "hdr.kid.empty", "hdr.kid.kind", "hdr.iv.empty", "hdr.piv.empty", "hdr.iv-and-piv", "hdr.csig.empty", "hdr.csig.kind", "hdr.csig.first-kind", "hdr.csig.single-bad", "hdr.not-map", "label.kind", "label.out-of-range"] {
            if m.counters.get(&format!("rule:{}", rule)).copied().unwrap_or(0) == 0 {
                return Err(format!("rule {} was never exercised", rule));
            }
        }
        if m.counters.get("accept").copied().unwrap_or(0) < 1000 {
            return Err("fewer than 1000 accepted headers".into());
        }
        Ok(())
    }
}

pub fn permute(v: &mut Vec<usize>, k: usize, f: &mut dyn FnMut(&[usize])) {
    if k == v.len() {
        f(v);
        return;
    }
    for i in k..v.len() {
        v.swap(k, i);
        permute(v, k + 1, f);
        v.swap(k, i);
    }
}

#[allow(dead_code)]
fn unused(_: MVal) {}
