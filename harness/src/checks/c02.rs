//! C02 - protected-header bytes are kept and reused bit for bit, never re-encoded.

use crate::capi::{self, CVal, Notes};
use crate::gen::{self, GenOpts};
use crate::json::J;
use crate::model::{self, MLabel, MVal, Ty, Verdict};
use coset::iana::EnumI64;
use crate::mon::{guard, scale, Check, Ctx, Phase, Tier};
use crate::rcbor::{self, hex, Item, Style};
use coset::{EncryptionContext, SignatureContext};

pub struct C02;

const CARRIERS: [Ty; 12] = [Ty::Sign1, Ty::Sign, Ty::Signature, Ty::Mac, Ty::Mac0, Ty::Encrypt, Ty::Encrypt0, Ty::Recipient, Ty::Header, Ty::SuppPub, Ty::Kdf, Ty::ProtMap];

fn positions_of(c: &CVal) -> Option<Vec<(String, Option<Vec<u8>>)>> {
    let mut n = Notes(vec![]);
    capi::view(c, &mut n).map(|v| model::prot_positions(&v))
}

/// slot `i` of a structure (array of text + bstrs) read by the independent parser
fn slot(data: &[u8], i: usize) -> Option<Vec<u8>> {
    match rcbor::decode(data).ok()? {
        Item::Array(a) => match a.get(i)? {
            Item::Bytes(b) => Some(b.clone()),
            _ => None,
        },
        _ => None,
    }
}

fn expect_slot(ctx: &mut Ctx, helper: &str, pos: &str, data: Option<Vec<u8>>, i: usize, want: &[u8]) {
    ctx.eval();
    ctx.count(&format!("helper:{}", helper));
    let got = data.as_ref().and_then(|d| slot(d, i));
    if got.as_deref() != Some(want) {
        ctx.violation(
            &format!("C02/structure-slot/{}", helper),
            format!("{} at {}: slot {} of the structure is {} but the received protected bytes are {}", helper, pos, i, got.map(|g| hex(&g)).unwrap_or_else(|| "<unreadable>".into()), hex(want)),
            J::obj(vec![("helper", J::s(helper)), ("position", J::s(pos)), ("wire_protected", J::Str(hex(want)))]),
        );
    }
}

fn recipient_helpers(ctx: &mut Ctx, path: &str, r: &coset::CoseRecipient, aad: &[u8]) {
    if let (Some(p), Some(_)) = (&r.protected.original_data, &r.ciphertext) {
        let mut seen = None;
        let _ = guard(|| r.decrypt(EncryptionContext::EncRecipient, aad, |_c, d| -> Result<Vec<u8>, ()> {
            seen = Some(d.to_vec());
            Ok(vec![])
        }));
        expect_slot(ctx, "CoseRecipient::decrypt", path, seen, 1, p);
    }
    for (i, x) in r.recipients.iter().enumerate() {
        recipient_helpers(ctx, &format!("{}.recipients[{}]", path, i), x, aad);
    }
}

fn counter_sig_helpers(ctx: &mut Ctx, path: &str, body: &coset::ProtectedHeader, h: &coset::Header, aad: &[u8]) {
    for (i, cs) in h.counter_signatures.iter().enumerate() {
        if let (Some(pb), Some(ps)) = (&body.original_data, &cs.protected.original_data) {
            let (b2, s2) = (body.clone(), cs.protected.clone());
            let data = guard(|| coset::sig_structure_data(SignatureContext::CounterSignature, b2, Some(s2), aad, &[1, 2])).ok();
            expect_slot(ctx, "sig_structure_data(CounterSignature)", &format!("{}.csig[{}]", path, i), data.clone(), 1, pb);
            expect_slot(ctx, "sig_structure_data(CounterSignature)", &format!("{}.csig[{}]", path, i), data, 2, ps);
        }
    }
}

fn helpers(ctx: &mut Ctx, c: &CVal, aad: &[u8]) {
    match c {
        CVal::Sign1(m) => {
            if let Some(p) = &m.protected.original_data {
                let d = if m.payload.is_some() { guard(|| m.tbs_data(aad)).ok() } else { guard(|| m.tbs_detached_data(&[9, 9], aad)).ok() };
                expect_slot(ctx, if m.payload.is_some() { "CoseSign1::tbs_data" } else { "CoseSign1::tbs_detached_data" }, "body.protected", d, 1, p);
                let mut seen = None;
                let _ = if m.payload.is_some() {
                    guard(|| m.verify_signature(aad, |_s, d| -> Result<(), ()> {
                        seen = Some(d.to_vec());
                        Ok(())
                    }))
                } else {
                    guard(|| m.verify_detached_signature(&[9, 9], aad, |_s, d| -> Result<(), ()> {
                        seen = Some(d.to_vec());
                        Ok(())
                    }))
                };
                expect_slot(ctx, if m.payload.is_some() { "CoseSign1::verify_signature" } else { "CoseSign1::verify_detached_signature" }, "body.protected", seen, 1, p);
            }
            counter_sig_helpers(ctx, "body.unprotected", &m.protected, &m.unprotected, aad);
            counter_sig_helpers(ctx, "body.protected.header", &m.protected, &m.protected.header, aad);
        }
        CVal::Sign(m) => {
            for (i, s) in m.signatures.iter().enumerate() {
                if let (Some(pb), Some(ps)) = (&m.protected.original_data, &s.protected.original_data) {
                    let mut seen = None;
                    let _ = if m.payload.is_some() {
                        guard(|| m.verify_signature(i, aad, |_s, d| -> Result<(), ()> {
                            seen = Some(d.to_vec());
                            Ok(())
                        }))
                    } else {
                        guard(|| m.verify_detached_signature(i, &[7], aad, |_s, d| -> Result<(), ()> {
                            seen = Some(d.to_vec());
                            Ok(())
                        }))
                    };
                    let name = if m.payload.is_some() { "CoseSign::verify_signature" } else { "CoseSign::verify_detached_signature" };
                    expect_slot(ctx, name, &format!("signatures[{}]", i), seen.clone(), 1, pb);
                    expect_slot(ctx, name, &format!("signatures[{}]", i), seen, 2, ps);
                    let d = if m.payload.is_some() { guard(|| m.tbs_data(aad, s)).ok() } else { guard(|| m.tbs_detached_data(&[7], aad, s)).ok() };
                    expect_slot(ctx, "CoseSign::tbs_*", &format!("signatures[{}]", i), d, 2, ps);
                }
            }
        }
        CVal::Mac(m) => {
            if let (Some(p), Some(_)) = (&m.protected.original_data, &m.payload) {
                let mut seen = None;
                let _ = guard(|| m.verify_tag(aad, |_t, d| -> Result<(), ()> {
                    seen = Some(d.to_vec());
                    Ok(())
                }));
                expect_slot(ctx, "CoseMac::verify_tag", "body.protected", seen, 1, p);
            }
            for (i, r) in m.recipients.iter().enumerate() {
                recipient_helpers(ctx, &format!("recipients[{}]", i), r, aad);
            }
        }
        CVal::Mac0(m) => {
            if let (Some(p), Some(_)) = (&m.protected.original_data, &m.payload) {
                let mut seen = None;
                let _ = guard(|| m.verify_tag(aad, |_t, d| -> Result<(), ()> {
                    seen = Some(d.to_vec());
                    Ok(())
                }));
                expect_slot(ctx, "CoseMac0::verify_tag", "body.protected", seen, 1, p);
            }
        }
        CVal::Encrypt(m) => {
            if let (Some(p), Some(_)) = (&m.protected.original_data, &m.ciphertext) {
                let mut seen = None;
                let _ = guard(|| m.decrypt(aad, |_c, d| -> Result<Vec<u8>, ()> {
                    seen = Some(d.to_vec());
                    Ok(vec![])
                }));
                expect_slot(ctx, "CoseEncrypt::decrypt", "body.protected", seen, 1, p);
            }
            for (i, r) in m.recipients.iter().enumerate() {
                recipient_helpers(ctx, &format!("recipients[{}]", i), r, aad);
            }
        }
        CVal::Encrypt0(m) => {
            if let (Some(p), Some(_)) = (&m.protected.original_data, &m.ciphertext) {
                let mut seen = None;
                let _ = guard(|| m.decrypt(aad, |_c, d| -> Result<Vec<u8>, ()> {
                    seen = Some(d.to_vec());
                    Ok(vec![])
                }));
                expect_slot(ctx, "CoseEncrypt0::decrypt", "body.protected", seen, 1, p);
            }
        }
        CVal::Recipient(r) => recipient_helpers(ctx, "recipient", r, aad),
        _ => {}
    }
}

fn c02_case(ctx: &mut Ctx, ty: Ty, v: &MVal) {
    let wire = model::encode(v);
    let expected = model::prot_positions(v);
    for framing in 0..2 {
        let bytes = if framing == 0 { rcbor::det(&wire) } else { rcbor::encode(&wire, &mut Style::random(ctx.rng.next())) };
        ctx.eval();
        let c = match capi::from_slice(ty, &bytes) {
            Ok(c) => c,
            Err(k) => {
                if let Verdict::Accept(_) = model::decode_bytes(ty, &bytes) {
                    ctx.violation(
                        &format!("C02/valid-encoding-rejected/{}", ty.name()),
                        format!("a {} whose protected headers use a valid non-canonical encoding is rejected with {}", ty.name(), k.name()),
                        J::obj(vec![("type", J::Str(ty.name())), ("hex", J::Str(hex(&bytes)))]),
                    );
                }
                continue;
            }
        };
        // (a) retained bytes at every position; (e) clone
        for (which, val) in [("decode", c.clone()), ("clone", c.clone().clone())] {
            ctx.eval();
            match positions_of(&val) {
                Some(got) if got == expected => {}
                Some(got) => {
                    let diff = expected.iter().zip(got.iter()).find(|(a, b)| a != b).map(|(a, b)| format!("{}: want {:?} got {:?}", a.0, a.1.as_ref().map(|x| hex(x)), b.1.as_ref().map(|x| hex(x)))).unwrap_or_else(|| format!("{} positions expected, {} found", expected.len(), got.len()));
                    ctx.violation(&format!("C02/retained-bytes/{}/{}", which, ty.name()), format!("retained protected bytes differ from the wire: {}", diff), J::obj(vec![("type", J::Str(ty.name())), ("hex", J::Str(hex(&bytes)))]));
                }
                None => {}
            }
        }
        // (d) the parsed view is the same for every encoding of the header content
        ctx.eval();
        let mut n = Notes(vec![]);
        if let Some(view) = capi::view(&c, &mut n) {
            if &view != v {
                ctx.violation(&format!("C02/parsed-view-depends-on-encoding/{}", ty.name()), format!("parsed view differs from the header content: {}", super::common::diff_summary(&view, v)), J::obj(vec![("type", J::Str(ty.name())), ("hex", J::Str(hex(&bytes)))]));
            }
        }
        // (b) re-encoding writes the very same bytes at every position (untagged and tagged)
        for tagged in [false, true] {
            if tagged && ty.tag().is_none() {
                continue;
            }
            ctx.eval();
            let out = if tagged { capi::to_tagged_vec(c.clone()) } else { capi::to_vec(c.clone()) };
            match out {
                Ok(b2) => {
                    let inner = match rcbor::decode(&b2) {
                        Ok(Item::Tag(_, x)) if tagged => *x,
                        Ok(x) => x,
                        Err(_) => Item::Null,
                    };
                    match model::decode(ty, &inner.normalize()) {
                        Verdict::Accept(m2) => {
                            let got = model::prot_positions(&m2);
                            if got != expected {
                                let diff = expected.iter().zip(got.iter()).find(|(a, b)| a != b).map(|(a, b)| format!("{}: wire {:?} re-encoded {:?}", a.0, a.1.as_ref().map(|x| hex(x)), b.1.as_ref().map(|x| hex(x)))).unwrap_or_default();
                                ctx.violation(&format!("C02/reencoded-bytes/{}", ty.name()), format!("to_vec does not write the received protected bytes: {}", diff), J::obj(vec![("type", J::Str(ty.name())), ("input", J::Str(hex(&bytes))), ("output", J::Str(hex(&b2)))]));
                            }
                        }
                        _ => ctx.violation(&format!("C02/reencoding-unreadable/{}", ty.name()), "the re-encoding is not a well-formed value of the type".into(), J::obj(vec![("input", J::Str(hex(&bytes))), ("output", J::Str(hex(&b2)))])),
                    }
                }
                Err(k) => ctx.violation(&format!("C02/reencode-failed/{}", ty.name()), format!("to_vec failed with {}", k.name()), J::obj(vec![("input", J::Str(hex(&bytes)))])),
            }
        }
        // (c) the structures handed to the caller carry the same bytes
        let n = ctx.rng.below(20);
        let aad = ctx.rng.bytes(n);
        helpers(ctx, &c, &aad);
    }
    // coverage: positions whose bytes are not the deterministic encoding of their header
    let mut canon = v.clone();
    fn clear(v: &mut MVal) {
        use crate::model::*;
        fn p(p: &mut MProt) {
            p.bytes = None;
            h(&mut p.header);
        }
        fn h(h: &mut MHeader) {
            for s in h.csigs.iter_mut() {
                p(&mut s.prot);
                hh(&mut s.unprot);
            }
        }
        fn hh(x: &mut MHeader) {
            h(x)
        }
        fn r(x: &mut MRecipient) {
            p(&mut x.prot);
            h(&mut x.unprot);
            for y in x.recipients.iter_mut() {
                r(y);
            }
        }
        match v {
            MVal::Header(x) => h(x),
            MVal::ProtMap(x) => h(&mut x.header),
            MVal::Signature(s) => {
                p(&mut s.prot);
                h(&mut s.unprot)
            }
            MVal::Sign(s) => {
                p(&mut s.prot);
                h(&mut s.unprot);
                for x in s.sigs.iter_mut() {
                    p(&mut x.prot);
                    h(&mut x.unprot);
                }
            }
            MVal::Sign1(s) => {
                p(&mut s.prot);
                h(&mut s.unprot)
            }
            MVal::Mac(s) => {
                p(&mut s.prot);
                h(&mut s.unprot);
                for x in s.recipients.iter_mut() {
                    r(x);
                }
            }
            MVal::Mac0(s) => {
                p(&mut s.prot);
                h(&mut s.unprot)
            }
            MVal::Encrypt(s) => {
                p(&mut s.prot);
                h(&mut s.unprot);
                for x in s.recipients.iter_mut() {
                    r(x);
                }
            }
            MVal::Encrypt0(s) => {
                p(&mut s.prot);
                h(&mut s.unprot)
            }
            MVal::Recipient(x) => r(x),
            MVal::SuppPub(s) => p(&mut s.prot),
            MVal::Kdf(k) => p(&mut k.supp.prot),
            _ => {}
        }
    }
    clear(&mut canon);
    model::assign_prot_bytes(&mut canon);
    let canon_pos = model::prot_positions(&canon);
    for (e, c) in expected.iter().zip(canon_pos.iter()) {
        ctx.count("positions");
        if e.1 != c.1 {
            ctx.count("positions-noncanonical");
            if let Some(b) = &e.1 {
                ctx.nontrivial(crate::rng::mix(crate::rng::hash_bytes(b), crate::rng::hash_bytes(e.0.as_bytes())));
            }
        }
        let class = if e.0.contains("csig") { "counter-signature" } else if e.0.contains("recipients[") && e.0.matches("recipients[").count() >= 2 { "nested-recipient" } else if e.0.contains("recipients[") { "recipient" } else if e.0.contains("signatures[") { "signer" } else if e.0.contains("supp") { "kdf-supp-pub-info" } else { "body" };
        ctx.count(&format!("position-class:{}", class));
    }
}

// ---------------------------------------------------------------------------------------------
// phase 3: decoded parts handed to the builders of an enclosing structure

/// the counter signatures of a decoded header, pushed through `HeaderBuilder::add_counter_signature`
fn rehead(h: &coset::Header) -> coset::Header {
    let mut b = coset::HeaderBuilder::new();
    for s in &h.counter_signatures {
        b = b.add_counter_signature(resig(s));
    }
    let mut out = h.clone();
    out.counter_signatures = b.build().counter_signatures;
    out
}

fn reprot(p: &coset::ProtectedHeader) -> coset::ProtectedHeader {
    // the retained bytes stay; only the parsed view's nested signatures travel through the builder
    coset::ProtectedHeader { original_data: p.original_data.clone(), header: rehead(&p.header) }
}

fn resig(s: &coset::CoseSignature) -> coset::CoseSignature {
    let mut out = coset::CoseSignatureBuilder::new().unprotected(rehead(&s.unprotected)).signature(s.signature.clone()).build();
    out.protected = reprot(&s.protected);
    out
}

fn rercp(r: &coset::CoseRecipient) -> coset::CoseRecipient {
    let mut b = coset::CoseRecipientBuilder::new().unprotected(rehead(&r.unprotected));
    if let Some(c) = &r.ciphertext {
        b = b.ciphertext(c.clone());
    }
    for x in &r.recipients {
        b = b.add_recipient(rercp(x));
    }
    let mut out = b.build();
    out.protected = reprot(&r.protected);
    out
}

/// Re-assemble a decoded value: every nested signature, recipient, counter signature and
/// supplementary-information structure is taken out and handed to the adder / setter of the
/// enclosing structure's builder.  None if the type has nothing to re-assemble.
fn reassemble(c: &CVal, v: &MVal, mode: u64, problems: &mut Vec<String>) -> Option<CVal> {
    Some(match c {
        CVal::Header(h) => CVal::Header(rehead(h)),
        CVal::Signature(s) => CVal::Signature(resig(s)),
        CVal::Recipient(r) => CVal::Recipient(rercp(r)),
        CVal::Sign(m) => {
            let mut b = coset::CoseSignBuilder::new().unprotected(rehead(&m.unprotected));
            if let Some(p) = &m.payload {
                b = b.payload(p.clone());
            }
            for (i, s) in m.signatures.iter().enumerate() {
                // the decoded signer as it is, or as the template of one of the signature-creating
                // helpers: the bytes handed to the caller's function and the entry stored in the
                // message must carry the signer's received protected bytes
                let template = resig(s);
                let want = s.protected.original_data.clone();
                let sigbytes = s.signature.clone();
                let mut seen: Option<Vec<u8>> = None;
                let which = (mode >> (3 * (i % 16))) & 7;
                b = match which {
                    0 | 1 | 2 => b.add_signature(template),
                    3 => b.add_created_signature(template, &[1, 2], |d| {
                        seen = Some(d.to_vec());
                        sigbytes
                    }),
                    4 => match b.try_add_created_signature(template, &[], |d| -> Result<Vec<u8>, ()> {
                        seen = Some(d.to_vec());
                        Ok(sigbytes)
                    }) {
                        Ok(nb) => nb,
                        Err(()) => return None,
                    },
                    5 if m.payload.is_none() => b.add_detached_signature(template, &[9], &[3], |d| {
                        seen = Some(d.to_vec());
                        sigbytes
                    }),
                    6 if m.payload.is_none() => match b.try_add_detached_signature(template, &[9, 9], &[], |d| -> Result<Vec<u8>, ()> {
                        seen = Some(d.to_vec());
                        Ok(sigbytes)
                    }) {
                        Ok(nb) => nb,
                        Err(()) => return None,
                    },
                    _ => b.add_signature(template),
                };
                if let (Some(d), Some(w)) = (&seen, &want) {
                    if slot(d, 2).as_deref() != Some(&w[..]) {
                        problems.push(format!("signer {}: the signature-creating helper (variant {}) handed over a Sig_structure whose sign_protected slot is {} but the signer was received with {}", i, which, slot(d, 2).map(|x| hex(&x)).unwrap_or_else(|| "<unreadable>".into()), hex(w)));
                    }
                }
            }
            let mut out = b.build();
            out.protected = reprot(&m.protected);
            CVal::Sign(out)
        }
        CVal::Sign1(m) => {
            let mut out = m.clone();
            out.unprotected = rehead(&m.unprotected);
            out.protected = reprot(&m.protected);
            CVal::Sign1(out)
        }
        CVal::Mac0(m) => {
            let mut out = m.clone();
            out.unprotected = rehead(&m.unprotected);
            out.protected = reprot(&m.protected);
            CVal::Mac0(out)
        }
        CVal::Encrypt0(m) => {
            let mut out = m.clone();
            out.unprotected = rehead(&m.unprotected);
            out.protected = reprot(&m.protected);
            CVal::Encrypt0(out)
        }
        CVal::Mac(m) => {
            let mut b = coset::CoseMacBuilder::new().unprotected(rehead(&m.unprotected)).tag(m.tag.clone());
            if let Some(p) = &m.payload {
                b = b.payload(p.clone());
            }
            for r in &m.recipients {
                b = b.add_recipient(rercp(r));
            }
            let mut out = b.build();
            out.protected = reprot(&m.protected);
            CVal::Mac(out)
        }
        CVal::Encrypt(m) => {
            let mut b = coset::CoseEncryptBuilder::new().unprotected(rehead(&m.unprotected));
            if let Some(p) = &m.ciphertext {
                b = b.ciphertext(p.clone());
            }
            for r in &m.recipients {
                b = b.add_recipient(rercp(r));
            }
            let mut out = b.build();
            out.protected = reprot(&m.protected);
            CVal::Encrypt(out)
        }
        CVal::Kdf(_) => {
            // the context's fields are private: its parts are decoded on their own from the wire
            // and handed to the context builder
            let k = match v {
                MVal::Kdf(k) => k,
                _ => return None,
            };
            let alg = match &k.alg {
                MLabel::Int(i) => coset::iana::Algorithm::from_i64(*i)?,
                _ => return None,
            };
            let part = |ty: Ty, m: MVal| capi::from_slice(ty, &rcbor::det(&model::encode(&m))).ok();
            let supp = match part(Ty::SuppPub, MVal::SuppPub(k.supp.clone()))? {
                CVal::SuppPub(s) => s,
                _ => return None,
            };
            let (u, w) = match (part(Ty::Party, MVal::Party(k.u.clone()))?, part(Ty::Party, MVal::Party(k.v.clone()))?) {
                (CVal::Party(u), CVal::Party(w)) => (u, w),
                _ => return None,
            };
            let mut b = coset::CoseKdfContextBuilder::new().algorithm(alg).party_u_info(u).party_v_info(w).supp_pub_info(supp);
            for x in &k.priv_info {
                b = b.add_supp_priv_info(x.clone());
            }
            CVal::Kdf(b.build())
        }
        _ => return None,
    })
}

fn reassembly_case(ctx: &mut Ctx, ty: Ty, v: &MVal) {
    let bytes = rcbor::encode(&model::encode(v), &mut Style::random(ctx.rng.next()));
    let expected = model::prot_positions(v);
    let c = match capi::from_slice(ty, &bytes) {
        Ok(c) => c,
        Err(_) => return,
    };
    let (c2, v2) = (c.clone(), v.clone());
    let mode = ctx.rng.next();
    let mut problems: Vec<String> = Vec::new();
    let re = match guard(|| reassemble(&c2, &v2, mode, &mut problems)) {
        Ok(Some(x)) => {
            for pr in problems.drain(..) {
                ctx.violation(&format!("C02/reassembled-structure-slot/{}", ty.name()), pr, J::obj(vec![("type", J::Str(ty.name())), ("hex", J::Str(hex(&bytes)))]));
            }
            x
        }
        Ok(None) => {
            ctx.count("reassembly-not-applicable");
            return;
        }
        Err(p) => {
            ctx.violation(&format!("C02/reassembly-panicked/{}", ty.name()), format!("handing decoded parts to the builders panicked at {}", p.site()), J::obj(vec![("type", J::Str(ty.name())), ("hex", J::Str(hex(&bytes)))]));
            return;
        }
    };
    ctx.eval();
    ctx.count("reassembled");
    // (a) the re-assembled value still holds the received bytes at every position
    if let Some(got) = positions_of(&re) {
        if got != expected {
            let diff = expected.iter().zip(got.iter()).find(|(a, b)| a != b).map(|(a, b)| format!("{}: wire {:?} after re-assembly {:?}", a.0, a.1.as_ref().map(|x| hex(x)), b.1.as_ref().map(|x| hex(x)))).unwrap_or_else(|| format!("{} positions expected, {} found", expected.len(), got.len()));
            ctx.violation(&format!("C02/reassembled-retained-bytes/{}", ty.name()), format!("a decoded part handed to the enclosing builder no longer holds its received protected bytes: {}", diff), J::obj(vec![("type", J::Str(ty.name())), ("hex", J::Str(hex(&bytes)))]));
            return;
        }
    }
    // (b) and writes them
    ctx.eval();
    match capi::to_vec(re) {
        Ok(b2) => match rcbor::decode(&b2).map(|x| model::decode(ty, &x.normalize())) {
            Ok(Verdict::Accept(m2)) => {
                let got = model::prot_positions(&m2);
                if got != expected {
                    let diff = expected.iter().zip(got.iter()).find(|(a, b)| a != b).map(|(a, b)| format!("{}: wire {:?} written {:?}", a.0, a.1.as_ref().map(|x| hex(x)), b.1.as_ref().map(|x| hex(x)))).unwrap_or_default();
                    ctx.violation(&format!("C02/reassembled-reencoded-bytes/{}", ty.name()), format!("a decoded part handed to the enclosing builder is written with other protected bytes than it was received with: {}", diff), J::obj(vec![("type", J::Str(ty.name())), ("input", J::Str(hex(&bytes))), ("output", J::Str(hex(&b2)))]));
                }
                for (e, _) in expected.iter().filter(|(p, _)| p.contains("signatures[") || p.contains("recipients[") || p.contains("csig[") || p.contains("supp")) {
                    let _ = e;
                    ctx.count("reassembled-nested-positions");
                }
            }
            _ => ctx.violation(&format!("C02/reassembled-unreadable/{}", ty.name()), "the encoding of the re-assembled value is not a well-formed value of the type".into(), J::obj(vec![("input", J::Str(hex(&bytes))), ("output", J::Str(hex(&b2)))])),
        },
        Err(k) => ctx.violation(&format!("C02/reassembled-encode-failed/{}", ty.name()), format!("to_vec of the re-assembled value failed with {}", k.name()), J::obj(vec![("input", J::Str(hex(&bytes)))])),
    }
}

// ---------------------------------------------------------------------------------------------
// phase 4: protected byte strings whose content is *not* (just) a header map

/// Whatever a decoder decides about such a byte string - that is C08 / C09's subject - if it accepts
/// the structure, the bytes it retains and writes are the bytes it received.
fn odd_protected_case(ctx: &mut Ctx, ty: Ty, v: &MVal) {
    let mut v = v.clone();
    let n = model::prot_positions(&v).iter().filter(|(_, b)| b.is_some()).count();
    if n == 0 {
        return;
    }
    // only top-level positions of a carrier are rewritten (nested ones live inside other retained
    // byte strings, whose content would have to change with them)
    let mut k = 0usize;
    let target = ctx.rng.below(n);
    let form = ctx.rng.below(9);
    let mut planted: Option<(Vec<u8>, &'static str)> = None;
    let mut depth_guard = 0usize;
    let extra = ctx.rng.bytes(2);
    model::for_each_prot(&mut v, &mut |p: &mut crate::model::MProt| {
        depth_guard += 1;
        if let Some(b) = &p.bytes {
            if k == target && planted.is_none() {
                let map = if b.is_empty() { vec![0xa0] } else { b.clone() };
                let wrap = |head: &[u8], inner: &[u8]| -> Vec<u8> {
                    let mut o = head.to_vec();
                    o.extend_from_slice(inner);
                    o
                };
                let bstr = |inner: &[u8]| -> Vec<u8> {
                    let mut o = Vec::new();
                    rcbor::put_head(&mut o, 2, inner.len() as u64, &mut Style::canonical());
                    o.extend_from_slice(inner);
                    o
                };
                let (nb, name): (Vec<u8>, &'static str) = match form {
                    0 => (wrap(&[0xd9, 0xd9, 0xf7], &map), "55799(map)"),
                    1 => (wrap(&[0xd8, 0x18], &bstr(&map)), "24(bstr(map))"),
                    2 => (bstr(&map), "bstr(map)"),
                    3 => (wrap(&[0xc6], &map), "6(map)"),
                    4 => (wrap(&map, &extra), "map followed by two bytes"),
                    5 => (wrap(&[0x81], &map), "[map]"),
                    6 => (wrap(&[0xd9, 0xd9, 0xf7, 0xd9, 0xd9, 0xf7], &map), "55799(55799(map))"),
                    7 => (wrap(&[0xda, 0x00, 0x00, 0xd9, 0xf7], &map), "55799 in a 4-byte head (map)"),
                    _ => (wrap(&[0xd8, 0x3d], &map), "61(map)"),
                };
                p.bytes = Some(nb.clone());
                planted = Some((nb, name));
            }
            k += 1;
        }
    });
    let (nb, name) = match planted {
        Some(x) => x,
        None => return,
    };
    let bytes = rcbor::det(&model::encode(&v));
    // a position nested inside another retained byte string does not reach the wire (the outer bytes
    // are emitted as they are): only positions that do are judged
    let mut needle0 = Vec::new();
    rcbor::put_head(&mut needle0, 2, nb.len() as u64, &mut Style::canonical());
    needle0.extend_from_slice(&nb);
    if !bytes.windows(needle0.len()).any(|w| w == &needle0[..]) {
        ctx.count("odd-protected-not-on-the-wire");
        return;
    }
    ctx.eval();
    ctx.count(&format!("odd-protected:{}", name));
    let c = match capi::from_slice(ty, &bytes) {
        Ok(c) => c,
        Err(_) => {
            ctx.count("odd-protected-rejected");
            return;
        }
    };
    ctx.count("odd-protected-accepted");
    let wit = || J::obj(vec![("type", J::Str(ty.name())), ("form", J::s(name)), ("hex", J::Str(hex(&bytes)))]);
    // retained: some position of the decoded value must hold exactly the planted bytes
    let held = positions_of(&c).map(|ps| ps.iter().any(|(_, b)| b.as_deref() == Some(&nb[..]))).unwrap_or(true);
    if !held {
        ctx.violation(&format!("C02/odd-protected-not-retained/{}", ty.name()), format!("a {} whose protected byte string holds {} is accepted, but the retained bytes are not the received ones", ty.name(), name), wit());
        return;
    }
    // written back: the encoding contains the planted bytes as a byte string
    if let Ok(out) = capi::to_vec(c) {
        let mut needle = Vec::new();
        rcbor::put_head(&mut needle, 2, nb.len() as u64, &mut Style::canonical());
        needle.extend_from_slice(&nb);
        if !out.windows(needle.len()).any(|w| w == &needle[..]) {
            ctx.violation(&format!("C02/odd-protected-not-reemitted/{}", ty.name()), format!("a {} whose protected byte string holds {} is accepted, but re-encoding does not write the received bytes", ty.name(), name), wit());
        }
    }
}

impl Check for C02 {
    fn id(&self) -> &'static str {
        "C02"
    }
    fn phases(&self, tier: Tier, b: f64) -> Vec<Phase> {
        let q = tier == Tier::Quick;
        vec![
            Phase { name: "carriers of every type with independently styled protected headers at every position (nesting <= 3)", cases: scale(if q { 96000 } else { 500000 }, b), exhaustive: false },
            Phase { name: "the five empty-header forms (40, 41a0, 42bfff, 42b800, built-canonical) x every position class", cases: 12 * 5, exhaustive: true },
            Phase { name: "the same header content at every position of a carrier, each position in its own encoding (equal views, different bytes)", cases: scale(if q { 4000 } else { 100000 }, b), exhaustive: false },
            Phase { name: "protected byte strings whose content is a tagged map, a wrapped map, a map with trailing bytes ...: if the structure is accepted at all, the received bytes are retained and re-emitted", cases: scale(if q { 12000 } else { 100000 }, b), exhaustive: false },
            Phase { name: "decoded signatures, recipients, counter signatures and supplementary information handed to the adders / setters of the enclosing structure's builder, then encoded", cases: scale(if q { 12000 } else { 100000 }, b), exhaustive: false },
            Phase { name: "birthday: a COSE_Sign with 2^17 signers (and a COSE_Encrypt with 2^17 recipients) whose protected headers are pairwise different byte strings of equal length: each keeps its own bytes", cases: 2, exhaustive: true },
            Phase { name: "recipient layers (0-13) x counter-signature chain length (0-10) x form: a message whose innermost recipient carries such a chain is accepted exactly when the chain is accepted on its own (an encoding that is refused retains nothing)", cases: 11 * 5, exhaustive: true },
        ]
    }
    fn run_case(&self, ctx: &mut Ctx, phase: usize, idx: u64) {
        let ty = CARRIERS[(idx % 12) as usize];
        let o = GenOpts { styled_prot: 255, built: false, max_depth: 3, mixed: false };
        match phase {
            6 => super::common::layering_relation_case(ctx, idx),
            5 => {
                // a decoder that shares parsed headers between positions by a fingerprint of their bytes
                // (anything shorter than the bytes) hands one position another position's header
                use crate::model::{MEncrypt, MHeader, MProt, MRecipient, MSign, MSignature};
                let n = 1usize << 17;
                let mut seen = std::collections::HashSet::new();
                let mut prots: Vec<MProt> = Vec::with_capacity(n);
                while prots.len() < n {
                    let kid = ctx.rng.bytes(8);
                    if !seen.insert(kid.clone()) {
                        continue;
                    }
                    let header = MHeader { kid, ..Default::default() };
                    let bytes = rcbor::det(&model::enc_header(&header));
                    prots.push(MProt { bytes: Some(bytes), header });
                }
                let v = if idx == 0 {
                    MVal::Sign(MSign { prot: MProt { bytes: Some(vec![]), header: MHeader::default() }, unprot: MHeader::default(), payload: None, sigs: prots.into_iter().map(|p| MSignature { prot: p, unprot: MHeader::default(), sig: vec![1] }).collect() })
                } else {
                    MVal::Encrypt(MEncrypt { prot: MProt { bytes: Some(vec![]), header: MHeader::default() }, unprot: MHeader::default(), ct: None, recipients: prots.into_iter().map(|p| MRecipient { prot: p, unprot: MHeader::default(), ct: None, recipients: vec![] }).collect() })
                };
                let ty = v.ty();
                let bytes = rcbor::det(&model::encode(&v));
                ctx.eval();
                ctx.count("birthday-cases");
                match capi::from_slice(ty, &bytes) {
                    Ok(c) => {
                        let expected = model::prot_positions(&v);
                        match positions_of(&c) {
                            Some(got) if got == expected => {
                                ctx.nontrivial_bytes(&bytes[..4096]);
                                let mut n2 = Notes(vec![]);
                                if capi::view(&c, &mut n2).as_ref() != Some(&v) {
                                    ctx.violation(&format!("C02/birthday-parsed-view/{}", ty.name()), "with 2^17 pairwise different protected headers, some position's parsed view is not the content of its own bytes".into(), J::Null);
                                }
                            }
                            Some(got) => {
                                let d = expected.iter().zip(got.iter()).find(|(a, b)| a != b).map(|(a, b)| format!("{}: wire {:?} retained {:?}", a.0, a.1.as_ref().map(|x| hex(x)), b.1.as_ref().map(|x| hex(x)))).unwrap_or_default();
                                ctx.violation(&format!("C02/birthday-retained-bytes/{}", ty.name()), format!("with 2^17 pairwise different protected headers of equal length, a position does not retain its own bytes: {}", d), J::Null);
                            }
                            None => {}
                        }
                    }
                    Err(k) => ctx.violation(&format!("C02/birthday-rejected/{}", ty.name()), format!("a well-formed {} with 2^17 signers / recipients is rejected with {}", ty.name(), k.name()), J::Null),
                }
            }
            0 => {
                let v = gen::gen_mval(&mut ctx.rng, ty, &o);
                c02_case(ctx, ty, &v);
                ctx.sample(|| J::obj(vec![("type", J::Str(ty.name())), ("positions", J::Arr(model::prot_positions(&v).iter().take(6).map(|(p, b)| J::Str(format!("{} = {}", p, b.as_ref().map(|x| hex(x)).unwrap_or_default()))).collect())), ("outcome", J::s("retained, re-emitted and placed into structures bit for bit"))]));
            }
            3 => {
                const TOP: [Ty; 9] = [Ty::Sign1, Ty::Sign, Ty::Signature, Ty::Mac, Ty::Mac0, Ty::Encrypt, Ty::Encrypt0, Ty::Recipient, Ty::SuppPub];
                let ty = TOP[(idx % 9) as usize];
                let v = gen::gen_mval(&mut ctx.rng, ty, &GenOpts { max_depth: 1, ..GenOpts::wire() });
                odd_protected_case(ctx, ty, &v);
            }
            4 => {
                const RE: [Ty; 10] = [Ty::Sign, Ty::Mac, Ty::Encrypt, Ty::Recipient, Ty::Kdf, Ty::Header, Ty::Signature, Ty::Sign1, Ty::Mac0, Ty::Encrypt0];
                let ty = RE[(idx % 10) as usize];
                let v = gen::gen_mval(&mut ctx.rng, ty, &o);
                reassembly_case(ctx, ty, &v);
            }
            2 => {
                let mut v = gen::gen_mval(&mut ctx.rng, ty, &o);
                let h = gen::gen_header(&mut ctx.rng, &GenOpts { styled_prot: 0, built: false, max_depth: 1, mixed: false }, 1);
                force_same_content(ctx, &mut v, &h);
                c02_case(ctx, ty, &v);
            }
            _ => {
                let form = idx / 12;
                let mut v = gen::gen_mval(&mut ctx.rng, ty, &o);
                // force every protected header to be the chosen empty form
                let bytes: Vec<u8> = match form {
                    0 => vec![],
                    1 => vec![0xa0],
                    2 => vec![0xbf, 0xff],
                    3 => vec![0xb8, 0x00],
                    _ => vec![0xb9, 0x00, 0x00],
                };
                force_empty(&mut v, &bytes);
                c02_case(ctx, ty, &v);
            }
        }
    }
    fn rule(&self) -> String {
        "carriers: the six message types, COSE_Signature, COSE_recipient (nesting <= 3), headers with counter-signatures (in protected and unprotected headers), SuppPubInfo and COSE_KDF_Context; every protected header position is given an independently styled encoding of its content (head widths, indefinite strings/maps/arrays, bignum integers, shuffled typed entries, the empty forms 40 / 41a0 / 42bfff / 42b800 / 43b90000), and the carrier's own framing is styled too. Oracle, by a path-indexed walk: original_data equals the planted bytes at every position (also after clone); to_vec / to_tagged_vec write the same bytes at every position (read back by the independent parser); tbs/verify/MAC/decrypt helpers and sig_structure_data(CounterSignature) carry them in slots 1 (and 2); the parsed view equals the header content for every encoding. Re-assembly: the nested signatures, recipients, counter signatures and SuppPubInfo of a decoded value are handed to add_signature / add_created_signature / add_detached_signature (and the try_ variants) / add_recipient / add_counter_signature / supp_pub_info of a fresh builder of the enclosing structure; the data handed to the caller's signing function, the built value and its encoding must carry the received bytes at every position. Non-trivial = distinct (position, bytes) whose bytes differ from the deterministic encoding of their header.".into()
    }
    fn assumptions(&self) -> Vec<String> {
        super::std_assumptions()
    }
    fn finish(&self, m: &mut Ctx) -> Result<(), String> {
        for c in ["body", "signer", "recipient", "nested-recipient", "counter-signature", "kdf-supp-pub-info"] {
            if m.counters.get(&format!("position-class:{}", c)).copied().unwrap_or(0) < 200 {
                return Err(format!("position class {} seen fewer than 200 times", c));
            }
        }
        if m.counters.get("reassembled-nested-positions").copied().unwrap_or(0) < 1000 {
            return Err("fewer than 1000 nested positions went through a builder re-assembly".into());
        }
        if m.counters.get("positions-noncanonical").copied().unwrap_or(0) < 1000 {
            return Err("fewer than 1000 non-canonical positions".into());
        }
        Ok(())
    }
}

fn force_empty(v: &mut MVal, bytes: &[u8]) {
    use crate::model::*;
    fn p(p: &mut MProt, b: &[u8]) {
        p.bytes = Some(b.to_vec());
        p.header = MHeader::default();
    }
    fn h(h: &mut MHeader, b: &[u8]) {
        for s in h.csigs.iter_mut() {
            p(&mut s.prot, b);
            h2(&mut s.unprot, b);
        }
    }
    fn h2(x: &mut MHeader, b: &[u8]) {
        h(x, b)
    }
    fn r(x: &mut MRecipient, b: &[u8]) {
        p(&mut x.prot, b);
        h(&mut x.unprot, b);
        for y in x.recipients.iter_mut() {
            r(y, b);
        }
    }
    match v {
        MVal::Header(x) => h(x, bytes),
        MVal::ProtMap(x) => h(&mut x.header, bytes),
        MVal::Signature(s) => {
            p(&mut s.prot, bytes);
            h(&mut s.unprot, bytes)
        }
        MVal::Sign(s) => {
            p(&mut s.prot, bytes);
            h(&mut s.unprot, bytes);
            for x in s.sigs.iter_mut() {
                p(&mut x.prot, bytes);
                h(&mut x.unprot, bytes);
            }
        }
        MVal::Sign1(s) => {
            p(&mut s.prot, bytes);
            h(&mut s.unprot, bytes)
        }
        MVal::Mac(s) => {
            p(&mut s.prot, bytes);
            h(&mut s.unprot, bytes);
            for x in s.recipients.iter_mut() {
                r(x, bytes);
            }
        }
        MVal::Mac0(s) => {
            p(&mut s.prot, bytes);
            h(&mut s.unprot, bytes)
        }
        MVal::Encrypt(s) => {
            p(&mut s.prot, bytes);
            h(&mut s.unprot, bytes);
            for x in s.recipients.iter_mut() {
                r(x, bytes);
            }
        }
        MVal::Encrypt0(s) => {
            p(&mut s.prot, bytes);
            h(&mut s.unprot, bytes)
        }
        MVal::Recipient(x) => r(x, bytes),
        MVal::SuppPub(s) => p(&mut s.prot, bytes),
        MVal::Kdf(k) => p(&mut k.supp.prot, bytes),
        _ => {}
    }
}

/// every protected header of the value gets the content `h`, each in a freshly styled encoding
fn force_same_content(ctx: &mut Ctx, v: &mut MVal, h: &crate::model::MHeader) {
    use crate::model::*;
    fn p(ctx: &mut Ctx, p: &mut MProt, h: &MHeader) {
        p.header = h.clone();
        p.bytes = Some(if h.is_empty() { [vec![], vec![0xa0], vec![0xbf, 0xff]][ctx.rng.below(3)].clone() } else { gen::prot_bytes(&mut ctx.rng, h, 230) });
    }
    fn r(ctx: &mut Ctx, x: &mut MRecipient, h: &MHeader) {
        p(ctx, &mut x.prot, h);
        for y in x.recipients.iter_mut() {
            r(ctx, y, h);
        }
    }
    match v {
        MVal::Signature(s) => p(ctx, &mut s.prot, h),
        MVal::Sign(s) => {
            p(ctx, &mut s.prot, h);
            for x in s.sigs.iter_mut() {
                p(ctx, &mut x.prot, h);
            }
        }
        MVal::Sign1(s) => p(ctx, &mut s.prot, h),
        MVal::Mac(s) => {
            p(ctx, &mut s.prot, h);
            for x in s.recipients.iter_mut() {
                r(ctx, x, h);
            }
        }
        MVal::Mac0(s) => p(ctx, &mut s.prot, h),
        MVal::Encrypt(s) => {
            p(ctx, &mut s.prot, h);
            for x in s.recipients.iter_mut() {
                r(ctx, x, h);
            }
        }
        MVal::Encrypt0(s) => p(ctx, &mut s.prot, h),
        MVal::Recipient(x) => r(ctx, x, h),
        MVal::SuppPub(s) => p(ctx, &mut s.prot, h),
        MVal::Kdf(k) => p(ctx, &mut k.supp.prot, h),
        _ => {}
    }
}
