pub mod c01;
pub mod c02;
pub mod c03;
pub mod c04;
pub mod c05;
pub mod c06;
pub mod c07;
pub mod c08;
pub mod c09;
pub mod c10;
pub mod c11;
pub mod c12;
pub mod c13;
pub mod c14;
pub mod c15;
pub mod c16;
pub mod c17;
pub mod c18;
pub mod c19;
pub mod c20;
pub mod common;
pub mod iff;
pub mod structs;

use crate::mon::Check;

pub fn std_assumptions() -> Vec<String> {
    vec![
        "N1: tag 2/3 over a definite byte string of <= 16 bytes whose value lies in [-2^64, 2^64-1] is that integer (CBOR layer normalisation)".into(),
        "N2: definite and indefinite strings/arrays/maps are the same value".into(),
        "N3: f16/f32/f64 encodings of the same number are the same value; all NaNs are one value".into(),
        "N4: `undefined` and unassigned simple values are outside the verdict alphabet (counted only)".into(),
        "reference model, strict CBOR codec (rcbor) and IANA registry snapshot are written independently of coset and ciborium and are part of the trusted base".into(),
    ]
}

pub fn get(id: &str) -> Option<Box<dyn Check>> {
    match id {
        "C01" => Some(Box::new(c01::C01)),
        "C02" => Some(Box::new(c02::C02)),
        "C03" => Some(Box::new(c03::C03)),
        "C04" => Some(Box::new(c04::C04)),
        "C05" => Some(Box::new(c05::C05)),
        "C06" => Some(Box::new(c06::C06)),
        "C07" => Some(Box::new(c07::C07)),
        "C08" => Some(Box::new(c08::C08)),
        "C09" => Some(Box::new(c09::C09)),
        "C10" => Some(Box::new(c10::C10)),
        "C11" => Some(Box::new(c11::C11)),
        "C12" => Some(Box::new(c12::C12)),
        "C13" => Some(Box::new(c13::C13)),
        "C14" => Some(Box::new(c14::C14)),
        "C15" => Some(Box::new(c15::C15)),
        "C16" => Some(Box::new(c16::C16)),
        "C17" => Some(Box::new(c17::C17)),
        "C18" => Some(Box::new(c18::C18)),
        "C19" => Some(Box::new(c19::C19)),
        "C20" => Some(Box::new(c20::C20)),
        _ => None,
    }
}

pub const ALL: [&str; 20] = [
    "C01", "C02", "C03", "C04", "C05", "C06", "C07", "C08", "C09", "C10", "C11", "C12", "C13", "C14", "C15", "C16", "C17", "C18", "C19", "C20",
];
