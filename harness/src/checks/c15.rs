//! C15 - integers are decoded exactly or rejected as out of range, never wrapped.

use super::common::{decode_oracle, Outcome};
use crate::capi;
use crate::gen;
use crate::json::J;
use crate::model::{self, Ty, Verdict};
use crate::mon::{scale, Check, Ctx, Phase, Tier};
use crate::rcbor::{self, hex, Item};
use crate::registry::Reg;

pub struct C15;

const PLACEHOLDER: u64 = 0x0000_ffff_ffff_fff1;

fn ph() -> Item {
    Item::Tag(PLACEHOLDER, Box::new(Item::Null))
}
/// stands for n + 1 (skipped when n + 1 leaves CBOR's range)
fn ph_next() -> Item {
    Item::Tag(PLACEHOLDER + 2, Box::new(Item::Null))
}

/// every encoding of n: each head width >= minimal, and bignum with 0-3 leading zeros
pub fn int_encodings(n: i128) -> Vec<Vec<u8>> {
    let (major, mag): (u8, u64) = if n >= 0 { (0, n as u64) } else { (1, (-1 - n) as u64) };
    let mut out = Vec::new();
    let m = major << 5;
    if mag < 24 {
        out.push(vec![m | mag as u8]);
    }
    if mag < 256 {
        out.push(vec![m | 24, mag as u8]);
    }
    if mag < 65536 {
        let mut v = vec![m | 25];
        v.extend_from_slice(&(mag as u16).to_be_bytes());
        out.push(v);
    }
    if mag <= u32::MAX as u64 {
        let mut v = vec![m | 26];
        v.extend_from_slice(&(mag as u32).to_be_bytes());
        out.push(v);
    }
    let mut v = vec![m | 27];
    v.extend_from_slice(&mag.to_be_bytes());
    out.push(v);
    let raw = mag.to_be_bytes();
    let first = raw.iter().position(|b| *b != 0).unwrap_or(8);
    for zeros in 0..4 {
        let mut v = vec![if n >= 0 { 0xc2 } else { 0xc3 }];
        let len = zeros + (8 - first);
        v.push(0x40 | len as u8);
        v.extend(std::iter::repeat(0).take(zeros));
        v.extend_from_slice(&raw[first..]);
        out.push(v);
    }
    out
}

struct Pos {
    name: &'static str,
    ty: Ty,
    /// template with the placeholder where the integer goes
    template: Item,
    interpreting: bool,
}

fn positions() -> Vec<Pos> {
    let party = |x: Item| Item::Array(vec![Item::Null, x, Item::Null]);
    let supp = |x: Item| Item::Array(vec![x, Item::Bytes(vec![])]);
    let kdf = |alg: Item, u: Item, v: Item, s: Item| Item::Array(vec![alg, u, v, s]);
    let pn = party(Item::Null);
    let s16 = supp(Item::int(16));
    let m = |v: Vec<(Item, Item)>| Item::Map(v);
    let mut out = vec![
        Pos { name: "bare Label", ty: Ty::Label, template: ph(), interpreting: true },
        Pos { name: "header map label", ty: Ty::Header, template: m(vec![(ph(), Item::int(0))]), interpreting: true },
        Pos { name: "header map label (second of two)", ty: Ty::Header, template: m(vec![(Item::int(1), Item::int(-7)), (ph(), Item::Bytes(vec![1]))]), interpreting: true },
        Pos { name: "key map label", ty: Ty::Key, template: m(vec![(Item::int(1), Item::int(2)), (ph(), Item::int(0))]), interpreting: true },
        Pos { name: "claim key", ty: Ty::Claims, template: m(vec![(ph(), Item::int(0))]), interpreting: true },
        Pos { name: "header alg", ty: Ty::Header, template: m(vec![(Item::int(1), ph())]), interpreting: true },
        Pos { name: "header alg inside protected", ty: Ty::Sign1, template: Item::Array(vec![Item::Tag(PLACEHOLDER + 1, Box::new(Item::Null)), Item::Map(vec![]), Item::Null, Item::Bytes(vec![])]), interpreting: true },
        Pos { name: "key alg", ty: Ty::Key, template: m(vec![(Item::int(1), Item::int(2)), (Item::int(3), ph())]), interpreting: true },
        Pos { name: "kdf alg", ty: Ty::Kdf, template: kdf(ph(), pn.clone(), pn.clone(), s16.clone()), interpreting: true },
        Pos { name: "kty", ty: Ty::Key, template: m(vec![(Item::int(1), ph())]), interpreting: true },
        Pos { name: "content type", ty: Ty::Header, template: m(vec![(Item::int(3), ph())]), interpreting: true },
        Pos { name: "crit element", ty: Ty::Header, template: m(vec![(Item::int(2), Item::Array(vec![Item::int(4), ph()]))]), interpreting: true },
        Pos { name: "key_ops element", ty: Ty::Key, template: m(vec![(Item::int(1), Item::int(2)), (Item::int(4), Item::Array(vec![ph(), Item::text("x")]))]), interpreting: true },
        Pos { name: "party nonce", ty: Ty::Party, template: party(ph()), interpreting: true },
        Pos { name: "kdf party U nonce", ty: Ty::Kdf, template: kdf(Item::int(-25), party(ph()), pn.clone(), s16.clone()), interpreting: true },
        Pos { name: "kdf party V nonce", ty: Ty::Kdf, template: kdf(Item::int(-25), pn.clone(), party(ph()), s16.clone()), interpreting: true },
        Pos { name: "exp", ty: Ty::Claims, template: m(vec![(Item::int(4), ph())]), interpreting: true },
        Pos { name: "nbf", ty: Ty::Claims, template: m(vec![(Item::int(1), Item::text("i")), (Item::int(5), ph())]), interpreting: true },
        Pos { name: "iat", ty: Ty::Claims, template: m(vec![(Item::int(6), ph()), (Item::int(7), Item::Bytes(vec![]))]), interpreting: true },
        Pos { name: "key data length", ty: Ty::SuppPub, template: supp(ph()), interpreting: true },
        Pos { name: "kdf key data length", ty: Ty::Kdf, template: kdf(Item::int(-25), pn.clone(), pn.clone(), supp(ph())), interpreting: true },
        // positions the crate does not interpret
        Pos { name: "header extra value", ty: Ty::Header, template: m(vec![(Item::int(10), ph())]), interpreting: false },
        Pos { name: "header extra nested", ty: Ty::Header, template: m(vec![(Item::int(10), Item::Array(vec![ph(), Item::Map(vec![(ph(), ph())]), Item::Tag(5, Box::new(ph()))]))]), interpreting: false },
        Pos { name: "key extra value", ty: Ty::Key, template: m(vec![(Item::int(1), Item::int(2)), (Item::int(-1), ph())]), interpreting: false },
        Pos { name: "claims extra value", ty: Ty::Claims, template: m(vec![(Item::int(8), ph()), (Item::text("t"), Item::Array(vec![ph()]))]), interpreting: false },
    ];
    // uninterpreted values under every registered-but-untyped label, private labels and text labels
    for l in [0i64, 8, 9, 10, 32, 33, 34, 35, 256, 257, -1, -65537] {
        out.push(Pos { name: "header extra under a registered / private label", ty: Ty::Header, template: m(vec![(Item::int(l), ph())]), interpreting: false });
    }
    for l in [0i64, 8, 9, 38, 39, 40, -257, -258, -259, -260, -65537, -70000] {
        out.push(Pos { name: "claims extra under a registered / private claim key", ty: Ty::Claims, template: m(vec![(Item::int(1), Item::text("i")), (Item::int(l), ph())]), interpreting: false });
    }
    for l in [0i64, 6, 7, -1, -2, -3, -4, -5, -12, -70000] {
        out.push(Pos { name: "key extra under a key-type-specific / unknown label", ty: Ty::Key, template: m(vec![(Item::int(1), Item::int(2)), (Item::int(l), ph())]), interpreting: false });
    }
    // the key data length beside a protected header naming each registered algorithm (the integer must
    // not depend on its neighbour); run for small n and the extremes only
    for a in crate::registry::values(Reg::Algorithm) {
        let prot = Item::Bytes(rcbor::det(&m(vec![(Item::int(1), Item::int(a))])));
        out.push(Pos { name: "key data length beside a protected algorithm", ty: Ty::SuppPub, template: Item::Array(vec![ph(), prot.clone()]), interpreting: true });
        out.push(Pos { name: "key data length beside a protected algorithm (KDF context)", ty: Ty::Kdf, template: kdf(Item::int(a), pn.clone(), pn.clone(), Item::Array(vec![ph(), prot, Item::Bytes(vec![1])])), interpreting: true });
    }
    // the same identity and the same nonce in both party-info triples (two parties may well agree on them)
    let party_id = |x: Item| Item::Array(vec![Item::Bytes(vec![0x1d]), x, Item::Null]);
    out.push(Pos { name: "kdf party U and V with the same identity and nonce", ty: Ty::Kdf, template: kdf(Item::int(-25), party_id(ph()), party_id(ph()), s16.clone()), interpreting: true });
    // a timestamp under the epoch-time tag is not an integer any more (tag 1 is not looked through)
    out.push(Pos { name: "exp under tag 1", ty: Ty::Claims, template: m(vec![(Item::int(4), Item::Tag(1, Box::new(ph())))]), interpreting: true });
    out.push(Pos { name: "iat under tag 1", ty: Ty::Claims, template: m(vec![(Item::int(6), Item::Tag(1, Box::new(ph()))), (Item::int(7), Item::Bytes(vec![]))]), interpreting: true });
    // two different integers as keys of one map (n and n + 1): neither may shadow the other
    out.push(Pos { name: "header labels n and n+1", ty: Ty::Header, template: m(vec![(ph(), Item::Null), (ph_next(), Item::Null)]), interpreting: true });
    out.push(Pos { name: "key labels n and n+1", ty: Ty::Key, template: m(vec![(ph(), Item::Null), (Item::int(1), Item::int(2)), (ph_next(), Item::Null)]), interpreting: true });
    out.push(Pos { name: "claim keys n and n+1", ty: Ty::Claims, template: m(vec![(ph_next(), Item::Null), (ph(), Item::Null)]), interpreting: true });
    out.push(Pos { name: "header extra under a text label", ty: Ty::Header, template: m(vec![(Item::text("x"), ph())]), interpreting: false });
    out.push(Pos { name: "claims extra under a text key", ty: Ty::Claims, template: m(vec![(Item::text("x"), ph())]), interpreting: false });
    out.push(Pos { name: "extra inside a counter signature's unprotected header", ty: Ty::Header, template: m(vec![(Item::int(7), Item::Array(vec![Item::Bytes(vec![]), m(vec![(Item::int(10), ph())]), Item::Bytes(vec![])]))]), interpreting: false });
    for r in [Reg::CoapContentFormat, Reg::HeaderParameter, Reg::KeyType, Reg::KeyOperation] {
        out.push(Pos { name: "RegisteredLabel", ty: Ty::RegLabel(r), template: ph(), interpreting: true });
    }
    for r in [Reg::Algorithm, Reg::CwtClaimName, Reg::HeaderParameter, Reg::EllipticCurve] {
        out.push(Pos { name: "RegisteredLabelWithPrivate", ty: Ty::RegLabelPriv(r), template: ph(), interpreting: true });
    }
    out
}

fn subst(template_bytes: &[u8], pat: &[u8], with: &[u8]) -> Vec<u8> {
    let mut out = Vec::new();
    let mut i = 0;
    while i < template_bytes.len() {
        if template_bytes[i..].starts_with(pat) {
            out.extend_from_slice(with);
            i += pat.len();
        } else {
            out.push(template_bytes[i]);
            i += 1;
        }
    }
    out
}

fn check_n(ctx: &mut Ctx, n: i128, positions: &[Pos], all_carriers: bool) {
    let pat = rcbor::det(&ph());
    let pat2 = rcbor::det(&Item::Tag(PLACEHOLDER + 1, Box::new(Item::Null)));
    let pat3 = rcbor::det(&ph_next());
    let encs = int_encodings(n);
    for p in positions {
        if p.name.starts_with("key data length beside") && !(0..=256).contains(&n) && n != 65535 && n != 65536 && n != u64::MAX as i128 && n != -1 {
            continue;
        }
        let mut tb = rcbor::det(&p.template);
        if tb.windows(pat3.len()).any(|w| w == &pat3[..]) {
            if n + 1 > gen::CBOR_MAX || (1..=7).contains(&n) || (0..=6).contains(&n) {
                // n + 1 unrepresentable, or one of the two would be a typed label with a null value
                continue;
            }
            tb = subst(&tb, &pat3, &rcbor::det(&Item::Int(n + 1)));
        }
        for (ei, e) in encs.iter().enumerate() {
            let bytes = if tb.windows(pat2.len()).any(|w| w == &pat2[..]) {
                // the integer sits inside a protected header: build the bstr around the encoded map
                let mut inner = vec![0xa1, 0x01];
                inner.extend_from_slice(e);
                let mut bs = Vec::new();
                rcbor::put_head(&mut bs, 2, inner.len() as u64, &mut rcbor::Style::canonical());
                bs.extend_from_slice(&inner);
                subst(&tb, &pat2, &bs)
            } else {
                subst(&tb, &pat, e)
            };
            ctx.nontrivial(crate::rng::mix(crate::rng::hash_bytes(p.name.as_bytes()) ^ (n as u64), (n >> 64) as u64 ^ crate::rng::hash_bytes(p.ty.name().as_bytes())));
            ctx.count(&format!("position:{}", p.name));
            let in_i64 = n >= i64::MIN as i128 && n <= i64::MAX as i128;
            ctx.count(if in_i64 { "n-in-i64" } else { "n-outside-i64" });
            let out = decode_oracle(ctx, p.ty, &bytes, p.name, true);
            // the same map wherever such a map can occur: every carrier root, counter signatures
            // (bare / array forms, later elements, two levels), later signers / recipients, key sets
            if (p.ty == Ty::Header || p.ty == Ty::Key) && (all_carriers || ei == 0) && (p.interpreting || ei == 0) {
                let carriers = if p.ty == Ty::Header { crate::hostile::header_carriers(&bytes) } else { crate::hostile::key_carriers(&bytes) };
                let pick = if all_carriers { usize::MAX } else { ctx.rng.below(carriers.len()) };
                for (ci, (cty, cb, cname)) in carriers.into_iter().enumerate().skip(1) {
                    if pick != usize::MAX && ci != pick {
                        continue;
                    }
                    ctx.count("carried");
                    ctx.count(&format!("carrier:{}", cname));
                    decode_oracle(ctx, cty, &cb, cname, false);
                }
            }
            if let Outcome::Accepted(c, m) = out {
                // the same value rebuilt in memory (no retained protected bytes) must encode the
                // integer too
                if ei == 0 && !model::prot_positions(&m).is_empty() {
                    let mut rebuilt = m.clone();
                    model::clear_prot_bytes(&mut rebuilt);
                    super::common::encode_oracle(ctx, &rebuilt, "decoded, then rebuilt without retained bytes");
                }
                // the value encodes back to a CBOR integer of the same value
                ctx.eval();
                match capi::to_vec(c) {
                    Ok(b2) => match model::decode_bytes(p.ty, &b2) {
                        Verdict::Accept(m2) if m2 == m => {
                            if ei == 0 && p.interpreting {
                                ctx.sample(|| J::obj(vec![("position", J::s(p.name)), ("n", J::Str(n.to_string())), ("input", J::Str(hex(&bytes))), ("reencoded", J::Str(hex(&b2))), ("outcome", J::s("decoded to exactly n; re-encoded integer reads back as n"))]));
                            }
                        }
                        _ => ctx.violation(
                            &format!("C15/reencoded-integer-differs/{}", p.name),
                            format!("value {} at position '{}' does not read back as the same integer after to_vec", n, p.name),
                            J::obj(vec![("input", J::Str(hex(&bytes))), ("reencoded", J::Str(hex(&b2)))]),
                        ),
                    },
                    Err(k) => ctx.violation(&format!("C15/reencode-failed/{}", p.name), format!("to_vec failed with {}", k.name()), J::obj(vec![("input", J::Str(hex(&bytes)))])),
                }
            }
        }
    }
}

fn lattice() -> Vec<i128> {
    let mut v: Vec<i128> = Vec::new();
    for b in gen::INT_LATTICE {
        for d in -2i128..=2 {
            v.push((b + d).clamp(gen::CBOR_MIN, gen::CBOR_MAX));
        }
    }
    // powers of two and their neighbours, both signs (truncation and sign-flip aliases)
    for k in 0..=64u32 {
        let p: i128 = 1i128 << k;
        for d in -1i128..=1 {
            v.push((p + d).clamp(gen::CBOR_MIN, gen::CBOR_MAX));
            v.push((-p + d).clamp(gen::CBOR_MIN, gen::CBOR_MAX));
        }
    }
    // registered identifiers shifted by 2^8, 2^16, 2^32, 2^63, 2^64 (wrap-around aliases of valid values)
    for base in [-7i128, -8, -257, -65535, -65537, 1, 2, 4, 10, 60, -1, -25, 38] {
        for m in [1i128 << 8, 1 << 16, 1 << 32, 1 << 63, 1 << 64] {
            for cand in [base + m, base - m, -base, base + 2 * m] {
                if cand >= gen::CBOR_MIN && cand <= gen::CBOR_MAX {
                    v.push(cand);
                }
            }
        }
    }
    v.sort();
    v.dedup();
    v
}

impl Check for C15 {
    fn id(&self) -> &'static str {
        "C15"
    }
    fn phases(&self, tier: Tier, b: f64) -> Vec<Phase> {
        let q = tier == Tier::Quick;
        vec![
            Phase { name: "boundary lattice (every listed integer x every position x every encoding)", cases: lattice().len() as u64, exhaustive: true },
            Phase { name: "log-uniform samples over [-2^64, 2^64-1] x every position x every encoding", cases: scale(if q { 16000 } else { 400000 }, b), exhaustive: false },
            Phase { name: "birthday: 2^18 pairwise distinct 64-bit integer labels in a header / key / claims map (decode), header / key (encode; also with text labels, which share the duplicate detector)", cases: 7, exhaustive: true },
        ]
    }
    fn run_case(&self, ctx: &mut Ctx, phase: usize, idx: u64) {
        let pos = positions();
        match phase {
            2 => {
                let w = [1u64, 3, 5, 8, 10, 7, 9][idx as usize];
                super::common::birthday_case(ctx, w);
            }
            0 => {
                let n = lattice()[idx as usize];
                check_n(ctx, n, &pos, true);
            }
            _ => {
                let bits = ctx.rng.below(66) as u32;
                let mag: u128 = if bits == 0 { 0 } else { ((ctx.rng.next() as u128) | ((ctx.rng.next() as u128 & 1) << 64)) & ((1u128 << bits.min(65)) - 1) };
                let n: i128 = if ctx.rng.coin() { mag as i128 } else { -1 - (mag as i128) };
                let n = n.clamp(gen::CBOR_MIN, gen::CBOR_MAX);
                check_n(ctx, n, &pos, false);
            }
        }
    }
    fn rule(&self) -> String {
        "integers n from a boundary lattice (0, +-1, 23/24, 2^8, 2^16, 2^32, 2^63, 2^64 boundaries +-2; every power of two +-1 of both signs; registered identifiers shifted by 2^8, 2^16, 2^32, 2^63, 2^64 and sign-flipped: the aliases a truncating or wrapping conversion would create) plus log-uniform samples over [-2^64, 2^64-1], each planted at 70 positions (bare and registry label types, header/key/claims labels, alg in header (also inside a protected bstr), key and KDF context, kty, content type, crit and key_ops elements, party nonces, exp/nbf/iat, key data length (also beside a protected header naming each registered algorithm, for small n and the extremes), and uninterpreted extra values incl. nested) in every encoding (all head widths >= minimal, bignum with 0-3 leading zeros); every header-map and key-map case is repeated inside 28 header carriers (the protected / unprotected buckets of every structure, counter signatures in bare and array form at first and later positions and two levels deep, later signers and recipients) and 4 key-set positions. Oracle: the reference model's verdict for that position (exact value, or out-of-range error when n is the only fault, or another stated reason such as unregistered), extras preserved exactly, accepted values re-encode to an integer that reads back as n. Birthday workload: 2^18 pairwise distinct labels (8-character texts / 64-bit integers / private-use integers) in one map must all be accepted and come back in order (a duplicate detector keyed on anything shorter than the label would report a duplicate that is not there). Non-trivial = distinct (position, n).".into()
    }
    fn assumptions(&self) -> Vec<String> {
        super::std_assumptions()
    }
    fn finish(&self, m: &mut Ctx) -> Result<(), String> {
        if m.counters.get("errkind:OutOfRange").copied().unwrap_or(0) < 1000 || m.counters.get("accept").copied().unwrap_or(0) < 1000 {
            return Err("too few out-of-range rejections or acceptances observed".into());
        }
        Ok(())
    }
}
