//! C11 - encoding emits exactly the modelled content in the documented CBOR shape.

use super::common::encode_oracle;
use crate::gen::{self, GenOpts};
use crate::json::J;
use crate::model::*;
use crate::mon::{scale, Check, Ctx, Phase, Tier};
use crate::rcbor::{hex, Item};

pub struct C11;

const ALL_TYPES: [Ty; 16] = STRUCT_TYPES;

fn header_subset(bits: u64, ctx: &mut Ctx) -> MHeader {
    let mut h = MHeader::default();
    if bits & 1 != 0 {
        h.alg = Some(gen::gen_alg(&mut ctx.rng));
    }
    if bits & 2 != 0 {
        h.crit = vec![MLabel::Int(4), MLabel::Text("c".into())];
    }
    if bits & 4 != 0 {
        h.ct = Some(if ctx.rng.coin() { MLabel::Int(60) } else { MLabel::Text("a/b".into()) });
    }
    if bits & 8 != 0 {
        h.kid = gen::pal_bytes_nonempty(&mut ctx.rng);
    }
    if bits & 16 != 0 {
        h.iv = vec![1, 2, 3];
    }
    if bits & 32 != 0 && bits & 16 == 0 {
        h.piv = vec![4];
    }
    if bits & 64 != 0 {
        let o = GenOpts::built();
        let n = 1 + ctx.rng.below(3);
        h.csigs = (0..n).map(|_| gen::gen_signature(&mut ctx.rng, &o, 2)).collect();
    }
    if bits & 128 != 0 {
        h.rest = vec![(MLabel::Int(99), Item::int(1)), (MLabel::Text("t".into()), Item::Null), (MLabel::Int(-70000), Item::bytes(&[1]))];
    }
    h
}

impl Check for C11 {
    fn id(&self) -> &'static str {
        "C11"
    }
    fn phases(&self, tier: Tier, b: f64) -> Vec<Phase> {
        let q = tier == Tier::Quick;
        vec![
            Phase { name: "well-formed values of all 16 structured types + 9 label types, built from struct literals", cases: scale(if q { 240000 } else { 1500000 }, b), exhaustive: false },
            Phase { name: "all 256 header field subsets as Header / built protected header / unprotected header of each message type", cases: 256, exhaustive: true },
            Phase { name: "protected header holding a single field only (the is_empty interaction), in every carrier", cases: 8 * 9, exhaustive: true },
            Phase { name: "0/1/2/3 counter-signatures; recipient trees of depth <= 3 with empty and non-empty lists", cases: scale(if q { 18000 } else { 100000 }, b), exhaustive: false },
            Phase { name: "values decoded from styled wire forms (retained protected bytes must be re-emitted)", cases: scale(if q { 30000 } else { 200000 }, b), exhaustive: false },
            Phase { name: "built counter-signature chains of depth 1-10 through protected / unprotected / mixed headers: whether the encoding decodes may depend on the depth only", cases: 10, exhaustive: true },
        ]
    }
    fn run_case(&self, ctx: &mut Ctx, phase: usize, idx: u64) {
        match phase {
            0 => {
                let k = (idx % 25) as usize;
                let ty = if k < 16 { ALL_TYPES[k] } else { LABEL_TYPES[k - 16] };
                let v = gen::gen_mval(&mut ctx.rng, ty, &GenOpts::built());
                if let Some(b) = encode_oracle(ctx, &v, "struct literal") {
                    ctx.nontrivial_bytes(&b);
                    ctx.sample(|| J::obj(vec![("type", J::Str(ty.name())), ("encoded", J::Str(hex(&b))), ("outcome", J::s("parsed tree equals the CDDL shape of the value; decodes back"))]));
                }
            }
            1 => {
                let h = header_subset(idx, ctx);
                carriers(ctx, &h);
            }
            2 => {
                let field = idx % 8;
                let h = header_subset(1 << field, ctx);
                carriers(ctx, &h);
            }
            3 => {
                let o = GenOpts::built();
                let mut h = gen::gen_header(&mut ctx.rng, &o, 2);
                let n = (idx % 4) as usize;
                h.csigs = (0..n).map(|_| gen::gen_signature(&mut ctx.rng, &o, 2)).collect();
                carriers(ctx, &h);
                // recipient tree
                let o3 = GenOpts { styled_prot: 0, built: true, max_depth: 3 };
                let mut r = gen::gen_recipient(&mut ctx.rng, &o3, 0);
                if idx % 2 == 0 {
                    // force a chain of depth 3
                    let mut leaf = gen::gen_recipient(&mut ctx.rng, &o3, 3);
                    leaf.recipients.clear();
                    let mut mid = gen::gen_recipient(&mut ctx.rng, &o3, 3);
                    mid.recipients = vec![leaf.clone(), leaf];
                    r.recipients = vec![mid];
                }
                for v in [
                    MVal::Recipient(r.clone()),
                    MVal::Encrypt(MEncrypt { prot: MProt::default(), unprot: MHeader::default(), ct: None, recipients: vec![r.clone()] }),
                    MVal::Mac(MMac { prot: MProt::default(), unprot: MHeader::default(), payload: Some(vec![1]), tag: vec![2], recipients: vec![r.clone(), r] }),
                ] {
                    if let Some(b) = encode_oracle(ctx, &v, "struct literal") {
                        ctx.nontrivial_bytes(&b);
                    }
                }
            }
            5 => {
                let depth = idx as usize + 1;
                let mut outcomes: Vec<(String, bool)> = Vec::new();
                for pattern in 0..4u32 {
                    let mut h = MHeader { kid: vec![7], ..Default::default() };
                    for level in 0..depth {
                        let via_prot = match pattern {
                            0 => true,
                            1 => false,
                            2 => level % 2 == 0,
                            _ => level % 2 == 1,
                        };
                        let sig = if via_prot { MSignature { prot: MProt { bytes: None, header: h.clone() }, unprot: MHeader::default(), sig: vec![1] } } else { MSignature { prot: MProt::default(), unprot: h.clone(), sig: vec![2] } };
                        h = MHeader { csigs: vec![sig], ..Default::default() };
                    }
                    ctx.eval();
                    let v = MVal::Header(h);
                    let c = match crate::capi::build(&v) {
                        Some(c) => c,
                        None => continue,
                    };
                    match crate::capi::to_vec(c) {
                        Ok(b) => {
                            ctx.nontrivial_bytes(&b);
                            let ok = crate::capi::from_slice(Ty::Header, &b).is_ok();
                            outcomes.push((["protected", "unprotected", "alternating (protected first)", "alternating (unprotected first)"][pattern as usize].to_string(), ok));
                            if ok || depth <= 3 {
                                // within the modelled depth the full oracle applies
                                if depth <= 3 {
                                    encode_oracle(ctx, &v, "struct literal (chain)");
                                }
                            }
                        }
                        Err(k) => ctx.violation(&format!("C11/encode-failed/chain/{}", k.name()), format!("a counter-signature chain of depth {} does not encode", depth), J::Null),
                    }
                }
                if outcomes.iter().any(|o| o.1) && outcomes.iter().any(|o| !o.1) {
                    ctx.violation("C11/decode-of-encode-depends-on-carrier", format!("at counter-signature depth {} the encoding decodes for some nesting forms but not for others: {:?}", depth, outcomes), J::Null);
                }
            }
            _ => {
                let ty = ALL_TYPES[(idx % 16) as usize];
                let v = gen::gen_mval(&mut ctx.rng, ty, &GenOpts::wire());
                if let Some(b) = encode_oracle(ctx, &v, "struct literal with retained protected bytes") {
                    ctx.nontrivial_bytes(&b);
                }
                let mut rebuilt = v.clone();
                clear_prot_bytes(&mut rebuilt);
                encode_oracle(ctx, &rebuilt, "same content without retained bytes");
            }
        }
    }
    fn rule(&self) -> String {
        "in-memory values generated from the reference model (every field singly and in combination, empty vs non-empty, every label class, counter-signatures 0-3, recipient nesting <= 3, protected headers built without bytes or carrying styled wire bytes), turned into coset values through struct literals; oracle: to_vec succeeds, output is one well-formed definite-length item, the tree read by the independent parser equals the CDDL shape computed by the model (typed entries in the crate's probed order, extras in given order, h'' for an empty protected header, bstr(map) otherwise, single counter-signature inlined, nil payload, empty recipient list omitted), decode(to_vec(v)) == v with assigned protected bytes, to_tagged_vec == tag || to_vec. Non-trivial = distinct encodings.".into()
    }
    fn assumptions(&self) -> Vec<String> {
        let mut v = super::std_assumptions();
        v.push("the order in which typed map entries are emitted is not part of the property; it is probed from the crate once and the model emits in the same order".into());
        v
    }
    fn finish(&self, m: &mut Ctx) -> Result<(), String> {
        if m.evals < 1000 {
            return Err("too few evaluations".into());
        }
        Ok(())
    }
}

/// a header in every carrier: standalone, ProtectedHeader map, built protected and unprotected
/// header of each message type, counter-signature inside a header
fn carriers(ctx: &mut Ctx, h: &MHeader) {
    let p = MProt { bytes: None, header: h.clone() };
    let e = MHeader::default();
    let ep = MProt::default();
    let sig = MSignature { prot: p.clone(), unprot: h.clone(), sig: vec![1] };
    let mut with_csig = MHeader::default();
    with_csig.csigs = vec![sig.clone()];
    let rcp = MRecipient { prot: p.clone(), unprot: e.clone(), ct: Some(vec![]), recipients: vec![] };
    let vals = vec![
        MVal::Header(h.clone()),
        MVal::ProtMap(p.clone()),
        MVal::Signature(sig.clone()),
        MVal::Sign1(MSign1 { prot: p.clone(), unprot: e.clone(), payload: None, sig: vec![] }),
        MVal::Sign1(MSign1 { prot: ep.clone(), unprot: h.clone(), payload: Some(vec![]), sig: vec![1] }),
        MVal::Sign(MSign { prot: p.clone(), unprot: e.clone(), payload: Some(vec![1]), sigs: vec![sig.clone(), MSignature::default()] }),
        MVal::Mac(MMac { prot: p.clone(), unprot: h.clone(), payload: None, tag: vec![], recipients: vec![rcp.clone()] }),
        MVal::Mac0(MMac0 { prot: p.clone(), unprot: e.clone(), payload: Some(vec![2]), tag: vec![3] }),
        MVal::Encrypt(MEncrypt { prot: p.clone(), unprot: e.clone(), ct: None, recipients: vec![rcp.clone()] }),
        MVal::Encrypt0(MEncrypt0 { prot: p.clone(), unprot: h.clone(), ct: Some(vec![9]) }),
        MVal::Recipient(MRecipient { prot: ep.clone(), unprot: e.clone(), ct: None, recipients: vec![rcp] }),
        MVal::Header(with_csig.clone()),
        MVal::ProtMap(MProt { bytes: None, header: with_csig }),
        MVal::SuppPub(MSuppPub { key_data_length: 128, prot: p.clone(), other: None }),
    ];
    for v in vals {
        if let Some(b) = encode_oracle(ctx, &v, "struct literal") {
            ctx.nontrivial_bytes(&b);
        }
    }
}
