//! C11 - encoding emits exactly the modelled content in the documented CBOR shape.

use super::common::encode_oracle;
use crate::gen::{self, GenOpts};
use crate::json::J;
use crate::model::*;
use crate::mon::{scale, Check, Ctx, Phase, Tier};
use crate::rcbor::{hex, Item};

pub struct C11;

const ALL_TYPES: [Ty; 16] = STRUCT_TYPES;

fn header_subset(bits: u64, ctx: &mut Ctx) -> MHeader {
    let mut h = MHeader::default();
    if bits & 1 != 0 {
        h.alg = Some(gen::gen_alg(&mut ctx.rng));
    }
    if bits & 2 != 0 {
        h.crit = vec![MLabel::Int(4), MLabel::Text("c".into())];
    }
    if bits & 4 != 0 {
        h.ct = Some(if ctx.rng.coin() { MLabel::Int(60) } else { MLabel::Text("a/b".into()) });
    }
    if bits & 8 != 0 {
        h.kid = gen::pal_bytes_nonempty(&mut ctx.rng);
    }
    if bits & 16 != 0 {
        h.iv = vec![1, 2, 3];
    }
    if bits & 32 != 0 && bits & 16 == 0 {
        h.piv = vec![4];
    }
    if bits & 64 != 0 {
        let o = GenOpts::built();
        let n = 1 + ctx.rng.below(3);
        h.csigs = (0..n).map(|_| gen::gen_signature(&mut ctx.rng, &o, 2)).collect();
    }
    if bits & 128 != 0 {
        h.rest = vec![(MLabel::Int(99), Item::int(1)), (MLabel::Text("t".into()), Item::Null), (MLabel::Int(-70000), Item::bytes(&[1]))];
    }
    h
}

impl Check for C11 {
    fn id(&self) -> &'static str {
        "C11"
    }
    fn phases(&self, tier: Tier, b: f64) -> Vec<Phase> {
        let q = tier == Tier::Quick;
        vec![
            Phase { name: "well-formed values of all 16 structured types + 9 label types, built from struct literals", cases: scale(if q { 240000 } else { 1500000 }, b), exhaustive: false },
            Phase { name: "all 256 header field subsets as Header / built protected header / unprotected header of each message type", cases: 256, exhaustive: true },
            Phase { name: "protected header holding a single field only (the is_empty interaction), in every carrier", cases: 8 * 9, exhaustive: true },
            Phase { name: "0/1/2/3 counter-signatures; recipient trees of depth <= 3 with empty and non-empty lists", cases: scale(if q { 18000 } else { 100000 }, b), exhaustive: false },
            Phase { name: "values decoded from styled wire forms (retained protected bytes must be re-emitted)", cases: scale(if q { 30000 } else { 200000 }, b), exhaustive: false },
            Phase { name: "built counter-signature chains of depth 1-10 through protected / unprotected / mixed headers: whether the encoding decodes may depend on the depth only", cases: 10, exhaustive: true },
            Phase { name: "messages assembled by the builders with the signature / tag / ciphertext creating helpers, encoded, then edited in place (a protected header at any position) and encoded again: both encodings equal those of the same value written as a struct literal", cases: scale(if q { 14000 } else { 100000 }, b), exhaustive: false },
            Phase { name: "birthday: headers and keys with 2^18 pairwise distinct extra labels encode", cases: 4, exhaustive: true },
        ]
    }
    fn run_case(&self, ctx: &mut Ctx, phase: usize, idx: u64) {
        match phase {
            7 => {
                super::common::birthday_case(ctx, 7 + idx);
            }
            0 => {
                let k = (idx % 25) as usize;
                let ty = if k < 16 { ALL_TYPES[k] } else { LABEL_TYPES[k - 16] };
                let v = gen::gen_mval(&mut ctx.rng, ty, &GenOpts::built());
                if let Some(b) = encode_oracle(ctx, &v, "struct literal") {
                    ctx.nontrivial_bytes(&b);
                    ctx.sample(|| J::obj(vec![("type", J::Str(ty.name())), ("encoded", J::Str(hex(&b))), ("outcome", J::s("parsed tree equals the CDDL shape of the value; decodes back"))]));
                }
            }
            1 => {
                let h = header_subset(idx, ctx);
                carriers(ctx, &h);
            }
            2 => {
                let field = idx % 8;
                let h = header_subset(1 << field, ctx);
                carriers(ctx, &h);
            }
            3 => {
                let o = GenOpts::built();
                let mut h = gen::gen_header(&mut ctx.rng, &o, 2);
                let n = (idx % 4) as usize;
                h.csigs = (0..n).map(|_| gen::gen_signature(&mut ctx.rng, &o, 2)).collect();
                carriers(ctx, &h);
                // recipient tree
                let o3 = GenOpts { styled_prot: 0, built: true, max_depth: 3, mixed: false };
                let mut r = gen::gen_recipient(&mut ctx.rng, &o3, 0);
                if idx % 2 == 0 {
                    // force a chain of depth 3
                    let mut leaf = gen::gen_recipient(&mut ctx.rng, &o3, 3);
                    leaf.recipients.clear();
                    let mut mid = gen::gen_recipient(&mut ctx.rng, &o3, 3);
                    mid.recipients = vec![leaf.clone(), leaf];
                    r.recipients = vec![mid];
                }
                for v in [
                    MVal::Recipient(r.clone()),
                    MVal::Encrypt(MEncrypt { prot: MProt::default(), unprot: MHeader::default(), ct: None, recipients: vec![r.clone()] }),
                    MVal::Mac(MMac { prot: MProt::default(), unprot: MHeader::default(), payload: Some(vec![1]), tag: vec![2], recipients: vec![r.clone(), r] }),
                ] {
                    if let Some(b) = encode_oracle(ctx, &v, "struct literal") {
                        ctx.nontrivial_bytes(&b);
                    }
                }
            }
            6 => builder_then_edit_case(ctx, idx),
            5 => {
                let depth = idx as usize + 1;
                let mut outcomes: Vec<(String, bool)> = Vec::new();
                for pattern in 0..4u32 {
                    let mut h = MHeader { kid: vec![7], ..Default::default() };
                    for level in 0..depth {
                        let via_prot = match pattern {
                            0 => true,
                            1 => false,
                            2 => level % 2 == 0,
                            _ => level % 2 == 1,
                        };
                        let sig = if via_prot { MSignature { prot: MProt { bytes: None, header: h.clone() }, unprot: MHeader::default(), sig: vec![1] } } else { MSignature { prot: MProt::default(), unprot: h.clone(), sig: vec![2] } };
                        h = MHeader { csigs: vec![sig], ..Default::default() };
                    }
                    ctx.eval();
                    let v = MVal::Header(h);
                    let c = match crate::capi::build(&v) {
                        Some(c) => c,
                        None => continue,
                    };
                    match crate::capi::to_vec(c) {
                        Ok(b) => {
                            ctx.nontrivial_bytes(&b);
                            let ok = crate::capi::from_slice(Ty::Header, &b).is_ok();
                            outcomes.push((["protected", "unprotected", "alternating (protected first)", "alternating (unprotected first)"][pattern as usize].to_string(), ok));
                            if ok || depth <= 3 {
                                // within the modelled depth the full oracle applies
                                if depth <= 3 {
                                    encode_oracle(ctx, &v, "struct literal (chain)");
                                }
                            }
                        }
                        Err(k) => ctx.violation(&format!("C11/encode-failed/chain/{}", k.name()), format!("a counter-signature chain of depth {} does not encode", depth), J::Null),
                    }
                }
                if outcomes.iter().any(|o| o.1) && outcomes.iter().any(|o| !o.1) {
                    ctx.violation("C11/decode-of-encode-depends-on-carrier", format!("at counter-signature depth {} the encoding decodes for some nesting forms but not for others: {:?}", depth, outcomes), J::Null);
                }
            }
            _ => {
                let ty = ALL_TYPES[(idx % 16) as usize];
                let v = gen::gen_mval(&mut ctx.rng, ty, &GenOpts { mixed: true, ..GenOpts::wire() });
                if let Some(b) = encode_oracle(ctx, &v, "struct literal with retained protected bytes") {
                    ctx.nontrivial_bytes(&b);
                }
                let mut rebuilt = v.clone();
                clear_prot_bytes(&mut rebuilt);
                encode_oracle(ctx, &rebuilt, "same content without retained bytes");
            }
        }
    }
    fn rule(&self) -> String {
        "in-memory values generated from the reference model (every field singly and in combination, empty vs non-empty, every label class, counter-signatures 0-3, recipient nesting <= 3, protected headers built without bytes or carrying styled wire bytes), turned into coset values through struct literals; oracle: to_vec succeeds, output is one well-formed definite-length item, the tree read by the independent parser equals the CDDL shape computed by the model (typed entries in the crate's probed order, extras in given order, h'' for an empty protected header, bstr(map) otherwise, single counter-signature inlined, nil payload, empty recipient list omitted), decode(to_vec(v)) == v with assigned protected bytes, to_tagged_vec == tag || to_vec; messages assembled by the builders with the creating helpers encode like the same value written as a struct literal, also after a protected header was edited in place. Birthday workload: 2^18 pairwise distinct labels (8-character texts / 64-bit integers / private-use integers) in one map must all be accepted and come back in order (a duplicate detector keyed on anything shorter than the label would report a duplicate that is not there). Non-trivial = distinct encodings.".into()
    }
    fn assumptions(&self) -> Vec<String> {
        let mut v = super::std_assumptions();
        v.push("the order in which typed map entries are emitted is not part of the property; it is probed from the crate once and the model emits in the same order".into());
        v
    }
    fn finish(&self, m: &mut Ctx) -> Result<(), String> {
        if m.evals < 1000 {
            return Err("too few evaluations".into());
        }
        Ok(())
    }
}

/// a header in every carrier: standalone, ProtectedHeader map, built protected and unprotected
/// header of each message type, counter-signature inside a header
fn carriers(ctx: &mut Ctx, h: &MHeader) {
    let p = MProt { bytes: None, header: h.clone() };
    let e = MHeader::default();
    let ep = MProt::default();
    let sig = MSignature { prot: p.clone(), unprot: h.clone(), sig: vec![1] };
    let mut with_csig = MHeader::default();
    with_csig.csigs = vec![sig.clone()];
    let rcp = MRecipient { prot: p.clone(), unprot: e.clone(), ct: Some(vec![]), recipients: vec![] };
    let vals = vec![
        MVal::Header(h.clone()),
        MVal::ProtMap(p.clone()),
        MVal::Signature(sig.clone()),
        MVal::Sign1(MSign1 { prot: p.clone(), unprot: e.clone(), payload: None, sig: vec![] }),
        MVal::Sign1(MSign1 { prot: ep.clone(), unprot: h.clone(), payload: Some(vec![]), sig: vec![1] }),
        MVal::Sign(MSign { prot: p.clone(), unprot: e.clone(), payload: Some(vec![1]), sigs: vec![sig.clone(), MSignature::default()] }),
        MVal::Mac(MMac { prot: p.clone(), unprot: h.clone(), payload: None, tag: vec![], recipients: vec![rcp.clone()] }),
        MVal::Mac0(MMac0 { prot: p.clone(), unprot: e.clone(), payload: Some(vec![2]), tag: vec![3] }),
        MVal::Encrypt(MEncrypt { prot: p.clone(), unprot: e.clone(), ct: None, recipients: vec![rcp.clone()] }),
        MVal::Encrypt0(MEncrypt0 { prot: p.clone(), unprot: h.clone(), ct: Some(vec![9]) }),
        MVal::Recipient(MRecipient { prot: ep.clone(), unprot: e.clone(), ct: None, recipients: vec![rcp] }),
        MVal::Header(with_csig.clone()),
        MVal::ProtMap(MProt { bytes: None, header: with_csig }),
        MVal::SuppPub(MSuppPub { key_data_length: 128, prot: p.clone(), other: None }),
    ];
    for v in vals {
        if let Some(b) = encode_oracle(ctx, &v, "struct literal") {
            ctx.nontrivial_bytes(&b);
        }
    }
}


/// Build `v` with the crate's builders, using the signature / tag / ciphertext creating helpers where
/// the type has them (the creating function returns the value the model holds).  None when the model
/// value cannot be expressed through the builder API.
fn via_builders(v: &MVal) -> Option<crate::capi::CVal> {
    use crate::capi::{self, CVal};
    use crate::mon::guard;
    let aad: &[u8] = &[0xaa, 1];
    let r = guard(|| -> Option<CVal> {
        Some(match v {
            MVal::Sign1(m) => {
                let mut b = coset::CoseSign1Builder::new().protected(capi::b_header(&m.prot.header)?).unprotected(capi::b_header(&m.unprot)?);
                let sig = m.sig.clone();
                b = match &m.payload {
                    Some(p) => b.payload(p.clone()).create_signature(aad, |_| sig),
                    None => b.create_detached_signature(&[1, 2, 3], aad, |_| sig),
                };
                CVal::Sign1(b.build())
            }
            MVal::Sign(m) => {
                let mut b = coset::CoseSignBuilder::new().protected(capi::b_header(&m.prot.header)?).unprotected(capi::b_header(&m.unprot)?);
                if let Some(p) = &m.payload {
                    b = b.payload(p.clone());
                }
                for (i, s) in m.sigs.iter().enumerate() {
                    let template = coset::CoseSignatureBuilder::new().protected(capi::b_header(&s.prot.header)?).unprotected(capi::b_header(&s.unprot)?).build();
                    let sig = s.sig.clone();
                    b = match (m.payload.is_some(), i % 2) {
                        (true, 0) => b.add_created_signature(template, aad, |_| sig),
                        (true, _) => b.try_add_created_signature(template, aad, |_| -> Result<Vec<u8>, ()> { Ok(sig) }).ok()?,
                        (false, 0) => b.add_detached_signature(template, &[4], aad, |_| sig),
                        (false, _) => b.try_add_detached_signature(template, &[4], aad, |_| -> Result<Vec<u8>, ()> { Ok(sig) }).ok()?,
                    };
                }
                CVal::Sign(b.build())
            }
            MVal::Mac0(m) => {
                let tag = m.tag.clone();
                let b = coset::CoseMac0Builder::new().protected(capi::b_header(&m.prot.header)?).unprotected(capi::b_header(&m.unprot)?).payload(m.payload.clone()?);
                CVal::Mac0(b.create_tag(aad, |_| tag).build())
            }
            MVal::Mac(m) => {
                let tag = m.tag.clone();
                let mut b = coset::CoseMacBuilder::new().protected(capi::b_header(&m.prot.header)?).unprotected(capi::b_header(&m.unprot)?).payload(m.payload.clone()?);
                b = b.try_create_tag(aad, |_| -> Result<Vec<u8>, ()> { Ok(tag) }).ok()?;
                for r in &m.recipients {
                    b = b.add_recipient(capi::b_rcp(r)?);
                }
                CVal::Mac(b.build())
            }
            MVal::Encrypt0(m) => {
                let ct = m.ct.clone()?;
                let b = coset::CoseEncrypt0Builder::new().protected(capi::b_header(&m.prot.header)?).unprotected(capi::b_header(&m.unprot)?);
                CVal::Encrypt0(b.create_ciphertext(&[5, 5], aad, |_, _| ct).build())
            }
            MVal::Encrypt(m) => {
                let ct = m.ct.clone()?;
                let mut b = coset::CoseEncryptBuilder::new().protected(capi::b_header(&m.prot.header)?).unprotected(capi::b_header(&m.unprot)?);
                for r in &m.recipients {
                    b = b.add_recipient(capi::b_rcp(r)?);
                }
                b = b.try_create_ciphertext(&[5], aad, |_, _| -> Result<Vec<u8>, ()> { Ok(ct) }).ok()?;
                CVal::Encrypt(b.build())
            }
            MVal::Recipient(m) => {
                let ct = m.ct.clone()?;
                let mut b = coset::CoseRecipientBuilder::new().protected(capi::b_header(&m.prot.header)?).unprotected(capi::b_header(&m.unprot)?);
                b = b.create_ciphertext(coset::EncryptionContext::EncRecipient, &[6], aad, |_, _| ct);
                for r in &m.recipients {
                    b = b.add_recipient(capi::b_rcp(r)?);
                }
                CVal::Recipient(b.build())
            }
            _ => return None,
        })
    });
    r.ok().flatten()
}

/// the protected headers of a message that a caller can reach through public fields, as (path, model, crate)
fn edit_position(v: &mut MVal, c: &mut crate::capi::CVal, which: usize, new_kid: &[u8]) -> Option<String> {
    use crate::capi::CVal;
    macro_rules! set {
        ($mp:expr, $cp:expr, $name:expr) => {{
            $mp.header.kid = new_kid.to_vec();
            $cp.header.key_id = new_kid.to_vec();
            return Some($name.to_string());
        }};
    }
    match (v, c) {
        (MVal::Sign1(m), CVal::Sign1(x)) => set!(m.prot, x.protected, "body.protected"),
        (MVal::Mac0(m), CVal::Mac0(x)) => set!(m.prot, x.protected, "body.protected"),
        (MVal::Encrypt0(m), CVal::Encrypt0(x)) => set!(m.prot, x.protected, "body.protected"),
        (MVal::Sign(m), CVal::Sign(x)) => {
            let n = m.sigs.len().min(x.signatures.len());
            if n > 0 && which % (n + 1) < n {
                let i = which % (n + 1);
                set!(m.sigs[i].prot, x.signatures[i].protected, format!("signatures[{}].protected", i))
            }
            set!(m.prot, x.protected, "body.protected")
        }
        (MVal::Mac(m), CVal::Mac(x)) => {
            let n = m.recipients.len().min(x.recipients.len());
            if n > 0 && which % (n + 1) < n {
                let i = which % (n + 1);
                set!(m.recipients[i].prot, x.recipients[i].protected, format!("recipients[{}].protected", i))
            }
            set!(m.prot, x.protected, "body.protected")
        }
        (MVal::Encrypt(m), CVal::Encrypt(x)) => {
            let n = m.recipients.len().min(x.recipients.len());
            if n > 0 && which % (n + 1) < n {
                let i = which % (n + 1);
                set!(m.recipients[i].prot, x.recipients[i].protected, format!("recipients[{}].protected", i))
            }
            set!(m.prot, x.protected, "body.protected")
        }
        (MVal::Recipient(m), CVal::Recipient(x)) => set!(m.prot, x.protected, "recipient.protected"),
        _ => None,
    }
}

fn builder_then_edit_case(ctx: &mut Ctx, idx: u64) {
    use crate::capi;
    const TYS: [Ty; 7] = [Ty::Sign, Ty::Sign1, Ty::Mac, Ty::Mac0, Ty::Encrypt, Ty::Encrypt0, Ty::Recipient];
    let ty = TYS[(idx % 7) as usize];
    let mut v = gen::gen_mval(&mut ctx.rng, ty, &GenOpts::built());
    let mut c = match via_builders(&v) {
        Some(c) => c,
        None => {
            ctx.count("not-expressible-through-builders");
            return;
        }
    };
    let lit = |v: &MVal| capi::build(v).and_then(|x| capi::to_vec(x).ok());
    let cmp = |ctx: &mut Ctx, stage: &str, what: &str, c: &capi::CVal, v: &MVal| {
        ctx.eval();
        ctx.count(&format!("builder-made:{}", stage));
        let got = capi::to_vec(c.clone());
        let want = lit(v);
        match (got, want) {
            (Ok(g), Some(w)) if g == w => ctx.nontrivial_bytes(&g),
            (Ok(g), Some(w)) => ctx.violation(
                &format!("C11/builder-made-{}/{}", stage, ty.name()),
                format!("a {} assembled by the builder and its creating helpers ({}) encodes to {} but the same value written as a struct literal encodes to {}", ty.name(), what, super::structs::short(&g), super::structs::short(&w)),
                J::obj(vec![("type", J::Str(ty.name())), ("got", J::Str(hex(&g))), ("want", J::Str(hex(&w)))]),
            ),
            (Err(k), Some(_)) => ctx.violation(&format!("C11/builder-made-{}-encode-failed/{}", stage, ty.name()), format!("encoding failed with {} ({})", k.name(), what), J::Null),
            _ => ctx.count("literal-not-encodable"),
        }
    };
    cmp(ctx, "as-built", "as built", &c, &v);
    // edit one reachable protected header in place and encode again
    let which = ctx.rng.below(8);
    let new_kid = vec![0xed, ctx.rng.next() as u8, 0x17];
    if let Some(pos) = edit_position(&mut v, &mut c, which, &new_kid) {
        cmp(ctx, "then-edited", &format!("then {} edited in place", pos), &c, &v);
    }
}
