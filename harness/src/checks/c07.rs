//! C07 - decode-encode reaches a fixed point in one step and loses nothing.

use super::common::fixed_point_check;
use crate::gen::{self, GenOpts};
use crate::model::{self, Ty, LABEL_TYPES, STRUCT_TYPES, TAGGED_TYPES};
use crate::mon::{scale, Check, Ctx, Phase, Tier};
use crate::rcbor::{self, Item, Style};

pub struct C07;

pub fn corpus() -> Vec<Vec<u8>> {
    include_str!("../../../corpus/repo-test-vectors.txt").lines().filter_map(rcbor::unhex).collect()
}

pub fn all_types() -> Vec<Ty> {
    let mut v = STRUCT_TYPES.to_vec();
    v.extend(LABEL_TYPES);
    v
}

fn all_entry_points(ctx: &mut Ctx, b: &[u8]) {
    for ty in all_types() {
        fixed_point_check(ctx, ty, b, false);
    }
    for ty in TAGGED_TYPES {
        fixed_point_check(ctx, ty, b, true);
    }
}

/// values of tag 2/3 in every quirky form
fn bignum_forms() -> Vec<Vec<u8>> {
    let mut out: Vec<Vec<u8>> = Vec::new();
    for tag in [0xc2u8, 0xc3] {
        for content in [
            "40", "4100", "4101", "420001", "48ffffffffffffffff", "490100000000000000 00", "49000100000000000000", "50ffffffffffffffffffffffffffffffff", "5001000000000000000000000000000000",
            "5100ffffffffffffffffffffffffffffffff", "5f4101ff", "5fff", "5f41014102ff", "5f4100ff", "5f48ffffffffffffffffff", "5f49010000000000000000ff", "c24101", "6101", "01", "8101", "5818000000000000000000000000000000000000000000000001",
        ] {
            let mut v = vec![tag];
            v.extend(rcbor::unhex(content).unwrap());
            out.push(v);
        }
    }
    out
}

/// A header whose counter signature holds a header whose counter signature ... `depth` levels.
/// idx 0..28 are the deterministic all-bare / all-[sig] chains for each depth; the rest are random.
/// depth of chain `idx` (must consume the PRNG exactly like `csig_chain` does first)
fn csig_chain_depth(ctx: &mut Ctx, idx: u64) -> usize {
    if idx < 28 {
        (idx / 2) as usize + 1
    } else {
        let mut r = crate::rng::Rng::for_case(ctx.seed, crate::mon::prop_num(ctx.prop), ctx.phase as u64, idx);
        1 + r.below(14)
    }
}

pub fn csig_chain(ctx: &mut Ctx, idx: u64) -> Vec<u8> {
    let (depth, forced_form): (usize, Option<usize>) = if idx < 28 { ((idx / 2) as usize + 1, Some((idx % 2) as usize)) } else { (1 + ctx.rng.below(14), None) };
    let via_prot_all = if idx < 56 && idx >= 28 { Some(idx % 2 == 0) } else { None };
    let mut inner = Item::Map(vec![(Item::int(4), Item::bytes(&[0x11]))]);
    for _ in 0..depth {
        let via_prot = via_prot_all.unwrap_or_else(|| ctx.rng.coin());
        let sig = if via_prot {
            Item::Array(vec![Item::Bytes(rcbor::det(&inner)), Item::Map(vec![]), Item::bytes(&[1])])
        } else {
            Item::Array(vec![Item::Bytes(vec![]), inner.clone(), Item::bytes(&[2])])
        };
        let form = forced_form.unwrap_or_else(|| ctx.rng.below(3));
        let v = match form {
            0 => sig,
            1 => Item::Array(vec![sig]),
            _ => Item::Array(vec![sig, Item::Array(vec![Item::Bytes(vec![]), Item::Map(vec![]), Item::Bytes(vec![])])]),
        };
        inner = Item::Map(vec![(Item::int(7), v)]);
    }
    rcbor::det(&inner)
}

impl Check for C07 {
    fn id(&self) -> &'static str {
        "C07"
    }
    fn phases(&self, tier: Tier, b: f64) -> Vec<Phase> {
        let q = tier == Tier::Quick;
        vec![
            Phase { name: "valid values of every type in non-canonical encodings", cases: scale(if q { 60000 } else { 600000 }, b), exhaustive: false },
            Phase { name: "structurally mutated valid values (those still accepted)", cases: scale(if q { 90000 } else { 800000 }, b), exhaustive: false },
            Phase { name: "byte-mutated corpus and generated messages", cases: scale(if q { 90000 } else { 1500000 }, b), exhaustive: false },
            Phase { name: "every byte string of length <= 2 (quick) / <= 3 (thorough) at every entry point", cases: if q { 65536 + 256 + 1 } else { 16777216 + 65536 + 256 + 1 }, exhaustive: true },
            Phase { name: "dedicated non-canonical families (bignum tag forms, 4-element recipients with empty list, 7:[[sig]], key_ops orders, float widths, timestamps)", cases: 2000, exhaustive: true },
            Phase { name: "test-suite vectors at every entry point", cases: corpus().len() as u64, exhaustive: true },
            Phase { name: "counter-signature chains of depth 1-14, each level bare / [sig] / [sig, sig], through protected or unprotected headers", cases: scale(if q { 9000 } else { 60000 }, b), exhaustive: false },
            Phase { name: "birthday: maps with 2^18 pairwise distinct labels are a fixed point", cases: 7, exhaustive: true },
        ]
    }
    fn run_case(&self, ctx: &mut Ctx, phase: usize, idx: u64) {
        match phase {
            7 => {
                if let Some((ty, bytes)) = super::common::birthday_case(ctx, idx) {
                    super::common::fixed_point_check(ctx, ty, &bytes, false);
                }
            }
            0 => {
                let types = all_types();
                let ty = types[(idx % types.len() as u64) as usize];
                let v = gen::gen_mval(&mut ctx.rng, ty, &GenOpts::wire());
                let it = model::encode(&v);
                let it = if matches!(ty, Ty::Header | Ty::ProtMap) { gen::shuffle_typed_entries(&mut ctx.rng, &it) } else { it };
                for _ in 0..3 {
                    let bytes = rcbor::encode(&it, &mut Style::wild(ctx.rng.next()));
                    if !fixed_point_check(ctx, ty, &bytes, false) {
                        ctx.count("valid-but-rejected");
                    }
                    if let Some(tag) = ty.tag() {
                        let mut tb = Vec::new();
                        rcbor::put_head(&mut tb, 6, tag, &mut Style::random(ctx.rng.next()));
                        tb.extend_from_slice(&bytes);
                        fixed_point_check(ctx, ty, &tb, true);
                    }
                }
            }
            1 => {
                let ty = STRUCT_TYPES[(idx % 16) as usize];
                let v = gen::gen_mval(&mut ctx.rng, ty, &GenOpts::wire());
                let mut it = model::encode(&v);
                for _ in 0..1 + ctx.rng.below(2) {
                    it = gen::mutate_item(&mut ctx.rng, &it);
                }
                let bytes = rcbor::encode(&it, &mut Style::random(ctx.rng.next()));
                // several types share a shape: offer to all of them
                for t in STRUCT_TYPES {
                    fixed_point_check(ctx, t, &bytes, false);
                }
            }
            2 => {
                let c = corpus();
                let ty = STRUCT_TYPES[(idx % 16) as usize];
                let base = if ctx.rng.coin() {
                    c[ctx.rng.below(c.len())].clone()
                } else {
                    let v = gen::gen_mval(&mut ctx.rng, ty, &GenOpts::wire());
                    rcbor::encode(&model::encode(&v), &mut Style::random(ctx.rng.next()))
                };
                let other = c[ctx.rng.below(c.len())].clone();
                let m = gen::mutate_bytes(&mut ctx.rng, &base, &other);
                all_entry_points(ctx, &m);
            }
            3 => {
                let b: Vec<u8> = if idx == 0 {
                    vec![]
                } else if idx <= 256 {
                    vec![(idx - 1) as u8]
                } else if idx <= 256 + 65536 {
                    let x = idx - 257;
                    vec![(x >> 8) as u8, x as u8]
                } else {
                    let x = idx - 257 - 65536;
                    vec![(x >> 16) as u8, (x >> 8) as u8, x as u8]
                };
                all_entry_points(ctx, &b);
            }
            4 => {
                let forms = bignum_forms();
                let nf = forms.len() as u64;
                if idx < nf * 6 {
                    // a bignum-tag form as extra value / as label / as array element in header, key, claims
                    let f = &forms[(idx % nf) as usize];
                    let mut m: Vec<u8> = Vec::new();
                    match idx / nf {
                        0 => {
                            m.extend_from_slice(&[0xa1, 0x0a]);
                            m.extend_from_slice(f);
                            fixed_point_check(ctx, Ty::Header, &m, false);
                            // ... and inside the protected header of a COSE_Sign1
                            let mut s = vec![0x84];
                            rcbor::put_head(&mut s, 2, m.len() as u64, &mut Style::canonical());
                            s.extend_from_slice(&m);
                            s.extend_from_slice(&[0xa0, 0xf6, 0x40]);
                            fixed_point_check(ctx, Ty::Sign1, &s, false);
                            fixed_point_check(ctx, Ty::Mac0, &s, false);
                        }
                        1 => {
                            m.extend_from_slice(&[0xa2, 0x01, 0x02, 0x20]);
                            m.extend_from_slice(f);
                            fixed_point_check(ctx, Ty::Key, &m, false);
                        }
                        2 => {
                            m.extend_from_slice(&[0xa1, 0x08]);
                            m.extend_from_slice(f);
                            fixed_point_check(ctx, Ty::Claims, &m, false);
                        }
                        3 => {
                            // as the label itself
                            m.push(0xa1);
                            m.extend_from_slice(f);
                            m.push(0x00);
                            fixed_point_check(ctx, Ty::Header, &m, false);
                            let mut k = vec![0xa2, 0x01, 0x01];
                            k.extend_from_slice(f);
                            k.push(0x00);
                            fixed_point_check(ctx, Ty::Key, &k, false);
                        }
                        4 => {
                            // nested inside an array / map extra value
                            m.extend_from_slice(&[0xa1, 0x0a, 0x82, 0x01]);
                            m.extend_from_slice(f);
                            fixed_point_check(ctx, Ty::Header, &m, false);
                        }
                        _ => {
                            // in integer-typed positions: alg, timestamp, nonce
                            m.extend_from_slice(&[0xa1, 0x01]);
                            m.extend_from_slice(f);
                            fixed_point_check(ctx, Ty::Header, &m, false);
                            let mut c = vec![0xa1, 0x04];
                            c.extend_from_slice(f);
                            fixed_point_check(ctx, Ty::Claims, &c, false);
                            let mut p = vec![0x83, 0xf6];
                            p.extend_from_slice(f);
                            p.push(0xf6);
                            fixed_point_check(ctx, Ty::Party, &p, false);
                        }
                    }
                    return;
                }
                let k = idx - nf * 6;
                if k >= 100 && k < 149 {
                    // every ordered pair of typed header entries (incl. Partial IV before IV)
                    let vals: [(i64, Item); 7] = [(1, Item::int(-7)), (2, Item::Array(vec![Item::int(4)])), (3, Item::int(60)), (4, Item::bytes(&[1])), (5, Item::bytes(&[2])), (6, Item::bytes(&[3])), (7, Item::Array(vec![Item::Bytes(vec![]), Item::Map(vec![]), Item::Bytes(vec![])]))];
                    let (a, b) = (((k - 100) / 7) as usize, ((k - 100) % 7) as usize);
                    let m = Item::Map(vec![(Item::int(vals[a].0), vals[a].1.clone()), (Item::int(vals[b].0), vals[b].1.clone())]);
                    let bytes = rcbor::det(&m);
                    all_entry_points(ctx, &bytes);
                    let (_t, carried) = crate::hostile::carry_header(2, &bytes);
                    all_entry_points(ctx, &carried);
                    let (_t, carried) = crate::hostile::carry_header(1, &bytes);
                    all_entry_points(ctx, &carried);
                    return;
                }
                let hexes: [&str; 24] = [
                    // 4-element recipient with an empty list; nested
                    "8440a0f680", "8440a0f6818440a0f680", "8440a04180818340a0f6",
                    // 7: [[sig]] (array of one counter-signature) and 7: [sig, sig]
                    "a10781834 0a040", "a10782834 0a040834 0a04101", "a1078183 41a0 a0 40",
                    // key_ops orders
                    "a2010104830201 03", "a20101048361610102", "a201010483026161 01",
                    // floats of all widths, +-0, inf, subnormal, NaN with payload
                    "a10af90000", "a10afa00000000", "a10afb0000000000000000", "a10af98000", "a10afb8000000000000000", "a10af97c00", "a10afa7f800000", "a10af90001", "a10afb7ff8000000000001", "a10afa7fc00001", "a10af97e01",
                    // timestamps as int and float
                    "a104fb41d954fc40000000", "a105f93c00", "a1061b7fffffffffffffff", "a1043b7fffffffffffffff",
                ];
                if (k as usize) < hexes.len() {
                    if let Some(b) = rcbor::unhex(hexes[k as usize]) {
                        all_entry_points(ctx, &b);
                    }
                }
            }
            6 => {
                let b = csig_chain(ctx, idx);
                ctx.max("csig-chain-bytes", b.len() as u64);
                let accepted = fixed_point_check(ctx, Ty::Header, &b, false);
                ctx.count(if accepted { "csig-chain-accepted" } else { "csig-chain-rejected" });
                let depth = csig_chain_depth(ctx, idx);
                ctx.count(&format!("csig-chain-depth-{:02}-{}", depth, if accepted { "accepted" } else { "rejected" }));
                // the same header inside messages
                let mut s1 = vec![0x84];
                rcbor::put_head(&mut s1, 2, b.len() as u64, &mut Style::canonical());
                s1.extend_from_slice(&b);
                s1.extend_from_slice(&[0xa0, 0xf6, 0x40]);
                fixed_point_check(ctx, Ty::Sign1, &s1, false);
                let mut e0 = vec![0x83, 0x40];
                e0.extend_from_slice(&b);
                e0.push(0xf6);
                fixed_point_check(ctx, Ty::Encrypt0, &e0, false);
                fixed_point_check(ctx, Ty::Signature, &e0, false);
            }
            _ => {
                let c = corpus();
                let b = &c[idx as usize];
                all_entry_points(ctx, b);
                // and with every style of the same item, when the vector is well-formed
                if let Ok(it) = rcbor::decode(b) {
                    for _ in 0..4 {
                        let sb = rcbor::encode(&it, &mut Style::wild(ctx.rng.next()));
                        all_entry_points(ctx, &sb);
                    }
                }
            }
        }
    }
    fn rule(&self) -> String {
        "inputs: valid values of all 25 types in 'wild' encodings (wide heads, indefinite strings/arrays/maps, bignum integers, wide floats, shuffled typed entries); structurally and byte-mutated values and test-suite vectors; every byte string of length <= 2 (quick) / <= 3 (thorough); dedicated non-canonical families; each at every untagged entry point and the six tagged ones. Oracle on every accepted b: encode succeeds (b'), decode(b') equals decode(b) under model equality (all retained protected bytes, NaNs equal), encode(decode(b')) == b'. Birthday workload: 2^18 pairwise distinct labels (8-character texts / 64-bit integers / private-use integers) in one map must all be accepted and come back in order (a duplicate detector keyed on anything shorter than the label would report a duplicate that is not there). Non-trivial = distinct accepted inputs with b' != b.".into()
    }
    fn assumptions(&self) -> Vec<String> {
        let mut v = super::std_assumptions();
        v.push("known finding P4 is attributed counterfactually: the violating input with every 'tag 2/3 over an indefinite byte string' made definite must pass the same oracle".into());
        v
    }
    fn finish(&self, m: &mut Ctx) -> Result<(), String> {
        // whether a chain of counter signatures is accepted may depend on its depth (an
        // implementation limit) but not on whether the levels go through protected or unprotected
        // headers or on the single / array form: otherwise a value that encodes does not decode
        for d in 1..=14 {
            let a = m.counters.get(&format!("csig-chain-depth-{:02}-accepted", d)).copied().unwrap_or(0);
            let r = m.counters.get(&format!("csig-chain-depth-{:02}-rejected", d)).copied().unwrap_or(0);
            if a > 0 && r > 0 {
                m.phase = 6;
                m.idx = 0;
                m.violation("C07/nesting-limit-depends-on-carrier", format!("counter-signature chains of depth {} are accepted in some forms ({} chains) and rejected in others ({}): the nesting limit is not charged uniformly, so some values that encode cannot be decoded", d, a, r), crate::json::J::obj(vec![("depth", crate::json::J::UInt(d))]));
            }
        }
        if m.counters.get("accepted-noncanonical").copied().unwrap_or(0) < 5000 {
            return Err("fewer than 5000 accepted non-canonical inputs".into());
        }
        Ok(())
    }
}

#[allow(dead_code)]
fn unused(_: Item) {}
