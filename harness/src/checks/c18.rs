//! C18 - CWT claims sets and KDF contexts decode and encode per their definitions.

use super::common::encode_oracle;
use super::iff;
use crate::gen::{self, GenOpts};
use crate::model::{self, Ty};
use crate::mon::{scale, Check, Ctx, Phase, Tier};
use crate::rcbor::Item;

pub struct C18;
const SALT: u64 = 0xC18_BA5E;
const TYPES: [Ty; 4] = [Ty::Claims, Ty::Kdf, Ty::Party, Ty::SuppPub];

fn claim_value(ctx: &mut Ctx) -> Item {
    match ctx.rng.below(9) {
        0 => Item::Text(gen::pal_text(&mut ctx.rng)),
        1 => Item::Int(gen::pal_int(&mut ctx.rng)),
        2 => Item::Float(gen::pal_float(&mut ctx.rng)),
        3 => Item::Bytes(gen::small_bytes(&mut ctx.rng)),
        4 => gen::kind_palette(ctx.rng.below(gen::KIND_PALETTE_LEN)),
        5 => Item::Int(ctx.rng.range(-3, 3) as i128 + *ctx.rng.pick(&[0i128, i64::MAX as i128, i64::MIN as i128])),
        6 => {
            // date/time and other tags around an otherwise valid value: a tagged item is not the value
            let inner = match ctx.rng.below(4) {
                0 => Item::Int(1700000000),
                1 => Item::Float(1.5),
                2 => Item::Text("x".into()),
                _ => Item::Bytes(vec![1]),
            };
            Item::Tag(*ctx.rng.pick(&[0u64, 1, 24, 55799, 61]), Box::new(inner))
        }
        _ => gen::random_item(&mut ctx.rng, 2),
    }
}

fn slot(ctx: &mut Ctx) -> Item {
    match ctx.rng.below(10) {
        0 => Item::Null,
        1 | 2 => Item::Bytes(gen::small_bytes(&mut ctx.rng)),
        3 => Item::Int(gen::pal_int(&mut ctx.rng)),
        4 => model::enc_party(&gen::gen_party(&mut ctx.rng)),
        5 => model::enc_supp(&gen::gen_supp(&mut ctx.rng, &GenOpts::wire())),
        6 => gen::gen_alg(&mut ctx.rng).item(),
        7 => gen::kind_palette(ctx.rng.below(gen::KIND_PALETTE_LEN)),
        8 => Item::Array((0..ctx.rng.below(5)).map(|_| if ctx.rng.coin() { Item::Null } else { Item::Bytes(vec![1]) }).collect()),
        _ => gen::random_item(&mut ctx.rng, 1),
    }
}

impl Check for C18 {
    fn id(&self) -> &'static str {
        "C18"
    }
    fn phases(&self, tier: Tier, b: f64) -> Vec<Phase> {
        let q = tier == Tier::Quick;
        vec![
            Phase { name: "valid claims sets / KDF contexts / party infos / supp-pub-infos x styles", cases: scale(if q { 60000 } else { 400000 }, b), exhaustive: false },
            Phase { name: "complete single-fault neighbourhood of fixed bases", cases: if q { 48 } else { 480 }, exhaustive: true },
            Phase { name: "1-3 random faults", cases: scale(if q { 100000 } else { 600000 }, b), exhaustive: false },
            Phase { name: "claim maps over the key alphabet x values of every kind; all 128 typed-claim subsets", cases: scale(if q { 100000 } else { 600000 }, b), exhaustive: false },
            Phase { name: "arrays of arity 0-7 for the KDF context and its sub-arrays with every slot kind", cases: scale(if q { 100000 } else { 600000 }, b), exhaustive: false },
            Phase { name: "encode side: well-formed values of the four types", cases: scale(if q { 60000 } else { 400000 }, b), exhaustive: false },
            Phase { name: "birthday: claims sets with 2^18 pairwise distinct text / private-use claim keys", cases: 2, exhaustive: true },
            Phase { name: "counter-signature chains of length 0-10 (five forms) in the protected header of a SuppPubInfo and of a KDF context: accepted exactly when the same header is accepted on its own", cases: 11 * 5, exhaustive: true },
        ]
    }
    fn run_case(&self, ctx: &mut Ctx, phase: usize, idx: u64) {
        let ty = TYPES[(idx % 4) as usize];
        match phase {
            7 => {
                use crate::capi;
                use crate::hostile;
                let c = (idx % 11) as usize;
                let form = (idx / 11) as u8;
                let chain = if c == 0 { vec![0xa1, 0x04, 0x41, 0x11] } else { hostile::b1_header(c, form) };
                let base = capi::from_slice(Ty::ProtMap, &chain).is_ok();
                ctx.count(if base { "chain-accepted" } else { "chain-rejected" });
                for root in [7u8, 8, 1, 10] {
                    let (ty, b) = hostile::carry_header(root, &chain);
                    ctx.eval();
                    ctx.nontrivial_bytes(&b);
                    let ok = capi::from_slice(ty, &b).is_ok();
                    if ok != base {
                        ctx.violation(
                            &format!("C18/chain-acceptance-depends-on-carrier/{}", ty.name()),
                            format!("a protected header holding a chain of {} counter signature(s) (form {}) is {} on its own but {} as the protected header of a {}", c, form, if base { "accepted" } else { "rejected" }, if ok { "accepted" } else { "rejected" }, ty.name()),
                            crate::json::J::obj(vec![("chain_length", crate::json::J::UInt(c as u64)), ("form", crate::json::J::UInt(form as u64)), ("hex", crate::json::J::Str(crate::rcbor::hex(&b)))]),
                        );
                    }
                }
            }
            6 => {
                super::common::birthday_case(ctx, 4 + idx);
            }
            0 => iff::valid_case(ctx, ty, &TYPES),
            1 => iff::enum_case(ctx, ty, SALT, idx / 4, &TYPES, 1),
            2 => iff::mutant_case(ctx, ty, &TYPES),
            3 => {
                let mut m = Vec::new();
                if idx < 128 {
                    // typed-claim subsets with valid values
                    let vals: [Item; 7] = [Item::text("iss"), Item::text(""), Item::text("aud"), Item::int(1700000000), Item::Float(1.5), Item::Int(i64::MIN as i128), Item::bytes(&[])];
                    for bit in 0..7 {
                        if idx & (1 << bit) != 0 {
                            m.push((Item::int(bit as i64 + 1), vals[bit].clone()));
                        }
                    }
                    m.push((Item::int(8), Item::Map(vec![])));
                } else {
                    let n = ctx.rng.below(6);
                    for _ in 0..n {
                        let k = match ctx.rng.below(8) {
                            0..=3 => Item::Int(ctx.rng.range(0, 9) as i128),
                            4 => Item::Int(*ctx.rng.pick(&[38i128, 39, 40, 41, -256, -257, -258, -259, -260, -261, -65536, -65537, 10, 37])),
                            5 => Item::Text(gen::pal_text(&mut ctx.rng)),
                            6 => Item::Int(gen::pal_int(&mut ctx.rng)),
                            _ => gen::random_item(&mut ctx.rng, 1),
                        };
                        m.push((k, claim_value(ctx)));
                    }
                }
                iff::offer(ctx, &Item::Map(m), &[Ty::Claims], 1, false, true);
            }
            4 => {
                let n = ctx.rng.below(8);
                let a: Vec<Item> = (0..n).map(|_| slot(ctx)).collect();
                iff::offer(ctx, &Item::Array(a), &[Ty::Kdf, Ty::Party, Ty::SuppPub], 1, false, true);
                // a valid context with 0-3 trailing strings and a wrong kind at one trailing index
                let k = gen::gen_kdf(&mut ctx.rng, &GenOpts::wire());
                let mut arr = match model::encode(&model::MVal::Kdf(k)) {
                    Item::Array(a) => a,
                    _ => unreachable!(),
                };
                arr.truncate(4);
                let t = ctx.rng.below(4);
                for _ in 0..t {
                    arr.push(Item::Bytes(gen::small_bytes(&mut ctx.rng)));
                }
                if t > 0 && ctx.rng.coin() {
                    let i = 4 + ctx.rng.below(t);
                    arr[i] = gen::kind_palette(ctx.rng.below(gen::KIND_PALETTE_LEN));
                }
                iff::offer(ctx, &Item::Array(arr), &[Ty::Kdf], 1, false, true);
            }
            _ => {
                let o = if ctx.rng.coin() { GenOpts::built() } else { GenOpts::wire() };
                let v = gen::gen_mval(&mut ctx.rng, ty, &o);
                if let Some(b) = encode_oracle(ctx, &v, "struct literal / Value API") {
                    ctx.nontrivial_bytes(&b);
                }
            }
        }
    }
    fn rule(&self) -> String {
        "decode side: valid CWT claims sets, COSE_KDF_Context, PartyInfo and SuppPubInfo values (timestamps int/float incl. extremes, +-0.0, inf, NaN; nonces bstr/int/nil; key length up to 2^64-1; styled protected headers; 0-3 SuppPrivInfo strings) in canonical + 3 random encodings; complete single-fault neighbourhoods of fixed bases; 1-3 random faults; claim maps over keys {0..9, 38..40, -261..-256, private boundary, texts, out-of-range} x values of every kind; all 128 typed-claim subsets; arrays of arity 0-7 over slot palettes for the context and its sub-arrays; wrong kinds at each trailing index. Oracle: accept iff the reference model accepts and every field equals its wire value (KDF context observed through its Value form). Encode side: the C11 oracle on well-formed values of the four types. Birthday workload: 2^18 pairwise distinct labels (8-character texts / 64-bit integers / private-use integers) in one map must all be accepted and come back in order (a duplicate detector keyed on anything shorter than the label would report a duplicate that is not there). Non-trivial = distinct encodings.".into()
    }
    fn assumptions(&self) -> Vec<String> {
        let mut v = super::std_assumptions();
        v.push("CoseKdfContext has private fields: it is observed through to_cbor_value / to_vec read by the independent parser".into());
        v
    }
    fn finish(&self, m: &mut Ctx) -> Result<(), String> {
        iff::require_rules(m, &["cwt.not-map", "cwt.dup", "cwt.key.unregistered", "cwt.key.kind", "cwt.iss.kind", "cwt.exp.kind", "cwt.cti.kind", "time.out-of-range", "kdf.arity", "kdf.priv.kind", "kdf.alg.unregistered", "party.arity", "party.nonce.kind", "party.nonce.range", "party.identity.kind", "supp.arity", "supp.keylen.range", "supp.keylen.kind", "supp.other.kind", "prot.kind"])?;
        for t in TYPES {
            if m.counters.get(&format!("accept:{}", t.name())).copied().unwrap_or(0) < 500 {
                return Err(format!("too few accepted {}", t.name()));
            }
        }
        Ok(())
    }
}
