//! C14 - tagged forms carry exactly the structure's registered CBOR tag.

use crate::capi::{self, Notes, EK};
use crate::gen::{self, GenOpts};
use crate::json::J;
use crate::model::{self, Ty, MSG_TYPES, TAGGED_TYPES};
use crate::mon::{scale, Check, Ctx, Phase, Tier};
use crate::rcbor::{self, hex, Item, Style};

pub struct C14;

fn tag_numbers() -> Vec<u64> {
    let mut v: Vec<u64> = vec![0, 1, 2, 3, 23, 24, 61, 255, 256, 55799, 65535, 65536, u32::MAX as u64, 1 << 32, u64::MAX, u64::MAX - 1, 1 << 63];
    for t in [16u64, 17, 18, 96, 97, 98] {
        for d in [-1i64, 0, 1] {
            v.push((t as i64 + d) as u64);
        }
        // values that collapse onto a registered tag under truncation to 8/16/32 bits
        for m in [1u64 << 8, 1 << 16, 1 << 32, 1 << 40, 3 << 32] {
            v.push(t + m);
        }
        v.push(u64::MAX - (u32::MAX as u64) + t); // 0xffffffff_000000tt
        v.push((t << 32) | t);
        v.push(t << 8);
        v.push(t << 32);
    }
    v.sort();
    v.dedup();
    v
}

/// every legal head for tag number n (minimal width and every wider one)
fn tag_heads(n: u64) -> Vec<Vec<u8>> {
    let mut out = Vec::new();
    if n < 24 {
        out.push(vec![0xc0 | n as u8]);
    }
    if n < 256 {
        out.push(vec![0xd8, n as u8]);
    }
    if n < 65536 {
        let mut v = vec![0xd9];
        v.extend_from_slice(&(n as u16).to_be_bytes());
        out.push(v);
    }
    if n <= u32::MAX as u64 {
        let mut v = vec![0xda];
        v.extend_from_slice(&(n as u32).to_be_bytes());
        out.push(v);
    }
    let mut v = vec![0xdb];
    v.extend_from_slice(&n.to_be_bytes());
    out.push(v);
    out
}

fn bodies(ctx: &mut Ctx) -> Vec<Vec<u8>> {
    let mut out = Vec::new();
    let o = GenOpts::wire();
    // an accepted body of a random message type (shapes are shared between types)
    for _ in 0..3 {
        let ty = MSG_TYPES[ctx.rng.below(8)];
        let v = gen::gen_mval(&mut ctx.rng, ty, &o);
        out.push(rcbor::encode(&model::encode(&v), &mut Style::random(ctx.rng.next())));
    }
    // a mutated (probably rejected) body, a non-array
    let ty = MSG_TYPES[ctx.rng.below(8)];
    let v = gen::gen_mval(&mut ctx.rng, ty, &o);
    out.push(rcbor::det(&gen::mutate_item(&mut ctx.rng, &model::encode(&v))));
    out.push(rcbor::det(&gen::random_item(&mut ctx.rng, 2)));
    // bodies beyond 64 KiB / 1 MiB (one in eight body sets): sizes at which an implementation may
    // switch to another code path
    if ctx.rng.chance(1, 8) {
        let n = *ctx.rng.pick(&[65536usize, 70000, 1 << 20]);
        let big = ctx.rng.bytes(n);
        out.push(rcbor::det(&Item::Array(vec![Item::Bytes(vec![]), Item::Map(vec![]), Item::Bytes(big.clone()), Item::Bytes(vec![1])])));
        out.push(rcbor::det(&Item::Array(vec![Item::Bytes(vec![]), Item::Map(vec![]), Item::Bytes(big)])));
    }
    out
}

/// Bodies whose extra value is nested close to the CBOR layer's recursion limit, each paired with the
/// same body one nesting level shallower (for the attribution of the known boundary finding).
fn deep_bodies(d: usize, kind: u8) -> Vec<(Vec<u8>, Vec<u8>)> {
    let mk = |d: usize| -> Vec<Vec<u8>> {
        let mut h = vec![0xa1, 0x0a];
        h.extend_from_slice(&crate::hostile::b4_nested(d, kind));
        let mut out = Vec::new();
        let mut m = vec![0x84, 0x40];
        m.extend_from_slice(&h);
        m.extend_from_slice(&[0xf6, 0x80]);
        out.push(m);
        let mut m4 = vec![0x84, 0x40];
        m4.extend_from_slice(&h);
        m4.extend_from_slice(&[0xf6, 0x40]);
        out.push(m4);
        let mut m5 = vec![0x85, 0x40];
        m5.extend_from_slice(&h);
        m5.extend_from_slice(&[0xf6, 0x40, 0x80]);
        out.push(m5);
        let mut m3 = vec![0x83, 0x40];
        m3.extend_from_slice(&h);
        m3.push(0xf6);
        out.push(m3);
        out
    };
    mk(d).into_iter().zip(mk(d - 1)).collect()
}

/// ciborium's documented default recursion limit (the known boundary finding is tied to it)
const CBOR_LAYER_DEFAULT_LIMIT: usize = 256;

fn views_equal(a: &capi::CVal, b: &capi::CVal) -> bool {
    let mut n = Notes(vec![]);
    capi::view(a, &mut n) == capi::view(b, &mut n)
}

fn check_tagged_input(ctx: &mut Ctx, ty: Ty, head_tag: Option<u64>, single: bool, x: &[u8], body: &[u8], what: &str) {
    check_tagged_input_ex(ctx, ty, head_tag, single, x, body, what, None)
}

#[allow(clippy::too_many_arguments)]
fn check_tagged_input_ex(ctx: &mut Ctx, ty: Ty, head_tag: Option<u64>, single: bool, x: &[u8], body: &[u8], what: &str, shallower: Option<&[u8]>) {
    ctx.eval();
    let want_tag = ty.tag().unwrap();
    let untagged = capi::from_slice(ty, body);
    let got = capi::from_tagged_slice(ty, x);
    let should_accept = single && head_tag == Some(want_tag) && untagged.is_ok();
    let wit = || J::obj(vec![("type", J::Str(ty.name())), ("input", J::Str(hex(x))), ("form", J::s(what))]);
    match (&got, should_accept) {
        (Err(EK::Panic(s)), _) => ctx.violation(&format!("C14/panic/{}", s), format!("panic at {}", s), wit()),
        (Ok(v), true) => {
            ctx.count("tagged-accepted");
            ctx.sample(|| J::obj(vec![("type", J::Str(ty.name())), ("tagged_input", J::Str(hex(x))), ("form", J::s(what)), ("outcome", J::s("accepted by from_tagged_slice, equal to untagged decoding of the body, rejected by every other type's tagged decoder and by untagged decoding"))]));
            if !views_equal(v, untagged.as_ref().unwrap()) {
                ctx.violation(&format!("C14/tagged-value-differs/{}", ty.name()), "tagged decoding yields a different value than untagged decoding of the body".into(), wit());
            }
        }
        (Err(k), true) => {
            let mut sig = format!("C14/tagged-rejected/{}/{}", ty.name(), k.name());
            // known boundary finding: the tag itself consumes one level of the CBOR layer's recursion
            // budget, so a body nested exactly to the limit is accepted untagged but not tagged.
            // Attribution is counterfactual: the same body one level shallower must be accepted.
            // The finding is that one boundary and nothing else: the extra value sits at nesting
            // level DEEP_LEVELS - 1 below the message array and the header map, where the CBOR layer's
            // documented default budget of 256 levels is exactly used up by the body alone.  A
            // tagged decoder that gives up at any other depth keeps its own signature.
            let at_default_limit = what.ends_with(&format!("extra value nested {} deep", CBOR_LAYER_DEFAULT_LIMIT - 2));
            if let (Some(sh), true) = (shallower, at_default_limit) {
                let mut y = x[..x.len() - body.len()].to_vec();
                y.extend_from_slice(sh);
                if capi::from_tagged_slice(ty, &y).is_ok() && capi::from_slice(ty, sh).is_ok() {
                    sig = "C14/tagged-rejects-body-nested-exactly-to-the-cbor-recursion-limit".to_string();
                }
            }
            ctx.violation(&sig, format!("the registered tag {} around an acceptable body is rejected with {} ({})", want_tag, k.name(), what), wit())
        }
        (Ok(_), false) => ctx.violation(
            &format!("C14/tagged-accepted-wrongly/{}", ty.name()),
            format!("from_tagged_slice accepted {} (tag {:?}, registered {}, body acceptable untagged: {})", what, head_tag, want_tag, untagged.is_ok()),
            wit(),
        ),
        (Err(_), false) => ctx.count("tagged-rejected"),
    }
    // untagged decoding rejects every tagged item
    if head_tag.is_some() || x.first().map(|b| b >> 5 == 6).unwrap_or(false) {
        ctx.eval();
        for t in MSG_TYPES {
            if let Ok(_) = capi::from_slice(t, x) {
                ctx.violation(&format!("C14/untagged-accepts-tagged/{}", t.name()), format!("from_slice accepted a tagged item ({})", what), J::obj(vec![("type", J::Str(t.name())), ("input", J::Str(hex(x)))]));
            }
        }
    }
}

impl Check for C14 {
    fn id(&self) -> &'static str {
        "C14"
    }
    fn phases(&self, tier: Tier, b: f64) -> Vec<Phase> {
        let q = tier == Tier::Quick;
        vec![
            Phase { name: "6 types x tag numbers x every legal head width x bodies (complete matrix per body set)", cases: scale(if q { 300 } else { 10000 }, b), exhaustive: false },
            Phase { name: "no tag / doubly tagged (same, different, 55799 outside or inside) / tag inside the array", cases: scale(if q { 2000 } else { 50000 }, b), exhaustive: false },
            Phase { name: "to_tagged_vec == registered tag head || to_vec; round trip; cross-type exclusivity", cases: scale(if q { 6000 } else { 200000 }, b), exhaustive: false },
            Phase { name: "the crate's TAG constants equal RFC 8152 Table 1", cases: 6, exhaustive: true },
            Phase { name: "bodies with an extra value nested 1-258 deep (arrays, maps, tags; the CBOR layer's default limit is 256) under the registered tag in every head width", cases: 258 * 3, exhaustive: true },
        ]
    }
    fn run_case(&self, ctx: &mut Ctx, phase: usize, idx: u64) {
        match phase {
            0 => {
                let bs = bodies(ctx);
                for body in &bs {
                    for n in tag_numbers() {
                        for head in tag_heads(n) {
                            let mut x = head.clone();
                            x.extend_from_slice(body);
                            ctx.nontrivial_bytes(&x);
                            for ty in TAGGED_TYPES {
                                check_tagged_input(ctx, ty, Some(n), true, &x, body, "single tag");
                            }
                        }
                    }
                }
                ctx.count("matrix-bodies");
            }
            1 => {
                let ty = TAGGED_TYPES[(idx % 6) as usize];
                let mut v = gen::gen_mval(&mut ctx.rng, ty, &GenOpts::wire());
                if ctx.rng.chance(1, 3) {
                    // a payload / ciphertext that is itself a well-formed CBOR item of a familiar shape
                    // (a CWT claims set, a key, another message): still just bytes
                    let sb = Some(gen::structured_bytes(&mut ctx.rng));
                    match &mut v {
                        model::MVal::Sign1(m) => m.payload = sb,
                        model::MVal::Sign(m) => m.payload = sb,
                        model::MVal::Mac(m) => m.payload = sb,
                        model::MVal::Mac0(m) => m.payload = sb,
                        model::MVal::Encrypt(m) => m.ct = sb,
                        model::MVal::Encrypt0(m) => m.ct = sb,
                        _ => {}
                    }
                }
                let body_item = model::encode(&v);
                let body = rcbor::det(&body_item);
                let t = ty.tag().unwrap();
                // untagged input offered to the tagged entry point
                check_tagged_input(ctx, ty, None, false, &body, &body, "no tag");
                // the registered tag around an acceptable body, followed by more bytes: that is the tag
                // applied to `body || suffix`, which the untagged decoder does not accept
                let tagged_once = rcbor::det(&Item::Tag(t, Box::new(body_item.clone())));
                for suffix in [vec![0x00u8], vec![0xff], vec![0xf6], vec![0x40], vec![0xa0], body.clone(), tagged_once.clone(), ctx.rng.bytes(3)] {
                    for head in tag_heads(t) {
                        let mut x = head.clone();
                        x.extend_from_slice(&body);
                        x.extend_from_slice(&suffix);
                        let mut bs = body.clone();
                        bs.extend_from_slice(&suffix);
                        ctx.nontrivial_bytes(&x);
                        ctx.count("trailing-bytes-after-tagged");
                        check_tagged_input(ctx, ty, Some(t), true, &x, &bs, "single tag, trailing bytes");
                    }
                }
                // wrappers that are "no-ops" elsewhere (self-described CBOR, embedded CBOR, CWT, date/time,
                // bignum tags) must not be looked through, on either side of the registered tag, nor
                // around a bstr holding the encoded body
                for w in [55799u64, 24, 61, 0, 1, 2, 3, 32, 21, 22, 23, 63, 258, 259, 256, 1001, 65535] {
                    let wrapped_body = Item::Tag(w, Box::new(body_item.clone()));
                    let wrapped_bstr = Item::Tag(w, Box::new(Item::Bytes(body.clone())));
                    for (what, x, head) in [
                        ("w(body)", rcbor::det(&wrapped_body), None),
                        ("w(bstr(body))", rcbor::det(&wrapped_bstr), None),
                        ("T(w(body))", rcbor::det(&Item::Tag(t, Box::new(wrapped_body.clone()))), Some(t)),
                        ("T(w(bstr(body)))", rcbor::det(&Item::Tag(t, Box::new(wrapped_bstr.clone()))), Some(t)),
                        ("w(T(body))", rcbor::det(&Item::Tag(w, Box::new(Item::Tag(t, Box::new(body_item.clone()))))), Some(w)),
                        ("T(bstr(body))", rcbor::det(&Item::Tag(t, Box::new(Item::Bytes(body.clone())))), Some(t)),
                        ("w(bstr(T(body)))", rcbor::det(&Item::Tag(w, Box::new(Item::Bytes(rcbor::det(&Item::Tag(t, Box::new(body_item.clone()))))))), Some(w)),
                        ("T(bstr(T(body)))", rcbor::det(&Item::Tag(t, Box::new(Item::Bytes(rcbor::det(&Item::Tag(t, Box::new(body_item.clone()))))))), Some(t)),
                    ] {
                        ctx.nontrivial_bytes(&x);
                        ctx.count(&format!("wrapper-form:{}", what));
                        // the body of these forms is never acceptable: either the outer tag is wrong
                        // or the content of the right tag is itself a tag / a bstr, not the array
                        check_tagged_input(ctx, ty, head, false, &x, &body, what);
                    }
                }
                // a byte string holding the tagged encoding, with nothing around it
                let embedded = rcbor::det(&Item::Bytes(tagged_once.clone()));
                check_tagged_input(ctx, ty, None, false, &embedded, &body, "bstr(T(body))");
                // heads that are not CBOR: major type 6 with the reserved additional information 28-31,
                // followed by bytes that spell the registered tag number
                for ai in [0xdcu8, 0xdd, 0xde, 0xdf] {
                    for filler in [vec![], t.to_be_bytes().to_vec(), [vec![0u8; 8], t.to_be_bytes().to_vec()].concat(), vec![t as u8], (t as u16).to_be_bytes().to_vec()] {
                        let mut x = vec![ai];
                        x.extend_from_slice(&filler);
                        x.extend_from_slice(&body);
                        ctx.count("reserved-tag-heads");
                        check_tagged_input(ctx, ty, None, false, &x, &body, "reserved additional information in the tag head");
                    }
                }
                let others = [t, 55799, t + 1, 16, 18, 98, 0, 61, 24];
                for outer in others {
                    for inner in [t, 55799, 24, 61] {
                        let x = rcbor::det(&Item::Tag(outer, Box::new(Item::Tag(inner, Box::new(body_item.clone())))));
                        ctx.nontrivial_bytes(&x);
                        check_tagged_input(ctx, ty, Some(outer), false, &x, &body, "doubly tagged");
                    }
                }
                // tag inside the array (first slot tagged) and tag around a one-element array holding the body
                if let Item::Array(a) = &body_item {
                    let mut a2 = a.clone();
                    a2[0] = Item::Tag(t, Box::new(a2[0].clone()));
                    let x = rcbor::det(&Item::Array(a2));
                    check_tagged_input(ctx, ty, None, false, &x, &x, "tag inside the array");
                    let x2 = rcbor::det(&Item::Tag(t, Box::new(Item::Array(vec![body_item.clone()]))));
                    let b2 = rcbor::det(&Item::Array(vec![body_item.clone()]));
                    check_tagged_input(ctx, ty, Some(t), true, &x2, &b2, "tag around [body]");
                }
            }
            2 => {
                let ty = TAGGED_TYPES[(idx % 6) as usize];
                let o = if ctx.rng.coin() { GenOpts::built() } else { GenOpts::wire() };
                let v = gen::gen_mval(&mut ctx.rng, ty, &o);
                let c = match capi::build(&v) {
                    Some(c) => c,
                    None => return,
                };
                ctx.eval();
                let plain = capi::to_vec(c.clone());
                let tagged = capi::to_tagged_vec(c.clone());
                let wit = |t: &capi::CR<Vec<u8>>, p: &capi::CR<Vec<u8>>| J::obj(vec![("type", J::Str(ty.name())), ("to_tagged_vec", J::Str(t.as_ref().map(|x| hex(x)).unwrap_or_else(|e| e.name()))), ("to_vec", J::Str(p.as_ref().map(|x| hex(x)).unwrap_or_else(|e| e.name())))]);
                match (&plain, &tagged) {
                    (Ok(p), Ok(t)) => {
                        ctx.nontrivial_bytes(t);
                        // exactly one tag with the registered number whose content bytes are exactly to_vec
                        let ok = match rcbor::decode_prefix(t) {
                            Ok((Item::Tag(n, _), used, _)) if used == t.len() && n == ty.tag().unwrap() => {
                                let heads = tag_heads(n);
                                heads.iter().any(|h| t.len() == h.len() + p.len() && t.starts_with(h) && &t[h.len()..] == &p[..])
                            }
                            _ => false,
                        };
                        if !ok {
                            ctx.violation(&format!("C14/tagged-encoding/{}", ty.name()), format!("to_tagged_vec is not tag {} applied once to the to_vec output", ty.tag().unwrap()), wit(&tagged, &plain));
                        }
                        // round trip through the tagged forms, and exclusivity across types
                        for other in TAGGED_TYPES {
                            ctx.eval();
                            let r = capi::from_tagged_slice(other, t);
                            if other == ty {
                                match r {
                                    Ok(back) => {
                                        if let Ok(u) = capi::from_slice(ty, p) {
                                            if !views_equal(&back, &u) {
                                                ctx.violation(&format!("C14/tagged-roundtrip-differs/{}", ty.name()), "from_tagged_slice(to_tagged_vec(v)) differs from from_slice(to_vec(v))".into(), wit(&tagged, &plain));
                                            }
                                        }
                                    }
                                    Err(k) => ctx.violation(&format!("C14/own-tagged-form-rejected/{}/{}", ty.name(), k.name()), "from_tagged_slice rejects the type's own tagged encoding".into(), wit(&tagged, &plain)),
                                }
                            } else if r.is_ok() {
                                ctx.violation(&format!("C14/cross-type-accept/{}-as-{}", ty.name(), other.name()), format!("bytes tagged for {} are accepted as {}", ty.name(), other.name()), wit(&tagged, &plain));
                            }
                        }
                    }
                    (Err(_), Err(_)) => ctx.count("both-encodings-failed"),
                    _ => ctx.violation(&format!("C14/tagged-plain-encode-disagree/{}", ty.name()), "exactly one of to_vec / to_tagged_vec failed".into(), wit(&tagged, &plain)),
                }
            }
            4 => {
                // every depth from 1 to 258, each of the three nesting kinds (arrays, maps, tags)
                let d = 1 + (idx % 258) as usize;
                let kind = ((idx / 258) % 3) as u8;
                let what = format!("single tag, extra value nested {} deep", d);
                for (body, shallower) in deep_bodies(d, kind) {
                    for ty in TAGGED_TYPES {
                        let t = ty.tag().unwrap();
                        for n in [t, t + 1, t + (1 << 32)] {
                            for head in tag_heads(n) {
                                let mut x = head.clone();
                                x.extend_from_slice(&body);
                                ctx.nontrivial_bytes(&x);
                                check_tagged_input_ex(ctx, ty, Some(n), true, &x, &body, &what, Some(&shallower));
                            }
                        }
                    }
                }
            }
            _ => {
                let ty = TAGGED_TYPES[idx as usize];
                ctx.eval();
                ctx.nontrivial(idx);
                if capi::crate_tag(ty) != ty.tag().unwrap() {
                    ctx.violation(&format!("C14/tag-constant/{}", ty.name()), format!("TAG constant is {} but RFC 8152 registers {}", capi::crate_tag(ty), ty.tag().unwrap()), J::Null);
                }
            }
        }
    }
    fn rule(&self) -> String {
        "matrix of {6 taggable types} x {tag numbers: the six registered ones, +-1 neighbours, 0,1,2,3,23,24,61,255,256,55799, 2^16, 2^32 boundaries, 2^64-1, and every registered number plus 2^8, 2^16, 2^32, 2^40, 3*2^32 and shifted copies (truncation aliases)} x {every legal tag head width} x {bodies: accepted for that type, accepted for another type of the same shape, mutated, non-array}; untagged, doubly tagged (same / different / 55799 outer and inner), tag inside the array, the registered tag around an acceptable body followed by trailing bytes, bodies nested 1-258 levels deep; encode side to_tagged_vec vs registered head || to_vec with cross-type decoding. Reference for 'body acceptable' is the crate's own untagged decoder (the property is relative to it); tag numbers come from the harness's RFC 8152 Table 1. Non-trivial = distinct tagged inputs.".into()
    }
    fn assumptions(&self) -> Vec<String> {
        vec!["RFC 8152 Table 1 tag numbers (98, 18, 96, 16, 97, 17) are frozen in the harness".into(), "acceptability of an untagged body is taken from the crate's untagged decoder, as the property states it relative to that decoder (its correctness is C09's subject)".into()]
    }
    fn finish(&self, m: &mut Ctx) -> Result<(), String> {
        if m.counters.get("tagged-accepted").copied().unwrap_or(0) < 500 {
            return Err("fewer than 500 accepted tagged inputs".into());
        }
        Ok(())
    }
}
