//! C20 - canonicalising a key sorts its encoding and changes nothing else.

use crate::capi::{self, CVal, Notes};
use crate::gen;
use crate::json::J;
use crate::model::{self, MKey, MLabel, MVal};
use crate::mon::{guard, scale, Check, Ctx, Phase, Tier};
use crate::rcbor::{self, hex, Item, Style};
use coset::CborOrdering;

pub struct C20;

fn extra_palette() -> Vec<MLabel> {
    let mut v: Vec<MLabel> = [0i64, 6, 7, 22, 23, 24, 25, 255, 256, 65535, 65536, -1, -2, -23, -24, -25, -26, -255, -256, -257, -65536, -65537, -70000, 1 << 32, -(1 << 32), -(1 << 32) - 1, i64::MAX, i64::MIN, 100, -100]
        .iter()
        .map(|i| MLabel::Int(*i))
        .collect();
    for t in ["", "a", "b", "aa", "ab", "ba", "\u{e9}", "z", "aaa"] {
        v.push(MLabel::Text(t.to_string()));
    }
    for n in [23usize, 24, 255, 256] {
        v.push(MLabel::Text("k".repeat(n)));
    }
    // equal-length labels that differ only after a long common prefix
    for (a, b) in [("subject-key-id-0", "subject-key-id-1"), ("aaaaaaaaaaaaaaaaaaaaaaaaaaaaaa0", "aaaaaaaaaaaaaaaaaaaaaaaaaaaaaa1"), ("prefix-15-bytes0", "prefix-15-bytes1")] {
        v.push(MLabel::Text(b.to_string()));
        v.push(MLabel::Text(a.to_string()));
    }
    for i in [0x0102_0304_0506_0708i64, 0x0102_0304_0506_0709, -0x0102_0304_0506_0708, -0x0102_0304_0506_0709] {
        v.push(MLabel::Int(i));
    }
    // equal byte length, different character counts (the head of a text is sized by its bytes), and
    // texts of different lengths within one head-length class where the longer one sorts first bytewise
    for t in ["\u{e9}".repeat(12), "a".repeat(24), "\u{10151}".repeat(6), "\u{e9}".repeat(13), "a".repeat(26), "a".repeat(40), "b".repeat(30), "b".repeat(24), "\u{e9}".repeat(128), "a".repeat(256), "b".repeat(255)] {
        v.push(MLabel::Text(t));
    }
    v
}

fn ordering(lf: bool) -> CborOrdering {
    if lf {
        CborOrdering::LengthFirstLexicographic
    } else {
        CborOrdering::Lexicographic
    }
}

/// the oracle proper; Err((class, detail))
fn canon_oracle(k: &MKey, lf: bool) -> Result<Vec<u8>, (String, String)> {
    let ck = match capi::b_key(k) {
        Some(c) => c,
        None => return Err(("harness".into(), "key not expressible".into())),
    };
    let name = if lf { "length-first" } else { "lexicographic" };
    let before = capi::v_key(&ck, &mut Notes(vec![]));
    let mut c1 = ck.clone();
    if let Err(p) = guard(|| c1.canonicalize(ordering(lf))) {
        return Err(("panic".into(), format!("canonicalize panicked at {}", p.site())));
    }
    let after = capi::v_key(&c1, &mut Notes(vec![]));
    // nothing but the order of the extras may change
    let mut a = after.clone();
    let mut b = before.clone();
    let key = |x: &(MLabel, Item)| rcbor::det(&x.0.item());
    a.params.sort_by_key(key);
    b.params.sort_by_key(key);
    if a != b {
        return Err(("content-changed".into(), format!("canonicalize({}) changed the key's content", name)));
    }
    let bytes = match capi::to_vec(CVal::Key(c1.clone())) {
        Ok(x) => x,
        Err(e) => return Err(("encode-failed".into(), format!("canonicalised key does not encode: {}", e.name()))),
    };
    // keys of the emitted map strictly ascending on their encoded form
    let m = match rcbor::decode(&bytes) {
        Ok(Item::Map(m)) => m,
        _ => return Err(("not-a-map".into(), "output is not a map".into())),
    };
    let keys: Vec<Vec<u8>> = m.iter().map(|(k, _)| rcbor::det(k)).collect();
    for w in keys.windows(2) {
        let ok = if lf { (w[0].len(), &w[0]) < (w[1].len(), &w[1]) } else { w[0] < w[1] };
        if !ok {
            return Err(("unsorted".into(), format!("after canonicalize({}) the encoded key {} precedes {} (output {})", name, hex(&w[0]), hex(&w[1]), hex(&bytes))));
        }
    }
    // decoded key unchanged
    match capi::from_slice(model::Ty::Key, &bytes) {
        Ok(CVal::Key(back)) => {
            let mut bv = capi::v_key(&back, &mut Notes(vec![]));
            bv.params.sort_by_key(key);
            if bv != b {
                return Err(("decoded-key-differs".into(), "decoding the canonical encoding gives a different key".into()));
            }
            // re-encodes to the same bytes
            match capi::to_vec(CVal::Key(back)) {
                Ok(again) if again == bytes => {}
                _ => return Err(("reencode-differs".into(), "decode + encode of the canonical encoding changes the bytes".into())),
            }
        }
        _ => return Err(("canonical-encoding-rejected".into(), "the canonical encoding is not accepted by the decoder".into())),
    }
    // idempotent
    let mut c2 = c1.clone();
    let _ = guard(|| c2.canonicalize(ordering(lf)));
    if capi::v_key(&c2, &mut Notes(vec![])) != after {
        return Err(("not-idempotent".into(), "a second canonicalize changes the key".into()));
    }
    Ok(bytes)
}

/// A hand-made key whose parameters repeat a label cannot be encoded, but canonicalising it still
/// "changes nothing else": the multiset of (label, value) pairs is what it was.
fn dup_params_case(ctx: &mut Ctx) {
    let n = 2 + ctx.rng.below(5);
    let mut params: Vec<(MLabel, Item)> = (0..n).map(|i| (MLabel::Int(-1 - (ctx.rng.below(4) as i64) * 3), Item::int(i as i64))).collect();
    let pal = extra_palette();
    params.push((pal[ctx.rng.below(pal.len())].clone(), Item::Null));
    let d = params[ctx.rng.below(params.len())].clone();
    let at = ctx.rng.below(params.len() + 1);
    params.insert(at, (d.0, Item::text("again")));
    params.retain(|(l, _)| !matches!(l, MLabel::Int(i) if (0..=5).contains(i)));
    let k = key_with(ctx.rng.below(16) as u64, params);
    let ck = match capi::b_key(&k) {
        Some(c) => c,
        None => return,
    };
    for lf in [false, true] {
        ctx.eval();
        ctx.count("dup-params-keys");
        let mut c1 = ck.clone();
        if guard(|| c1.canonicalize(ordering(lf))).is_err() {
            ctx.count("dup-params-canonicalize-refused");
            continue;
        }
        let pairs = |x: &coset::CoseKey| {
            let mut v: Vec<(Vec<u8>, Vec<u8>)> = capi::v_key(x, &mut Notes(vec![])).params.iter().map(|(l, v)| (rcbor::det(&l.item()), rcbor::det(v))).collect();
            v.sort();
            v
        };
        if pairs(&c1) != pairs(&ck) {
            ctx.violation(&format!("C20/content-changed/{}/repeated-label", if lf { "length-first" } else { "lexicographic" }), "canonicalize changed the multiset of (label, value) pairs of a key whose parameters repeat a label".into(), J::obj(vec![("key", J::Str(format!("{:?}", k).chars().take(600).collect()))]));
        }
    }
}

fn check_key(ctx: &mut Ctx, k: &MKey) {
    for lf in [false, true] {
        ctx.eval();
        match canon_oracle(k, lf) {
            Ok(bytes) => {
                ctx.count("sorted-ok");
                ctx.nontrivial_bytes(&bytes);
                if k.params.len() >= 3 {
                    ctx.sample(|| J::obj(vec![("ordering", J::s(if lf { "length-first" } else { "lexicographic" })), ("canonical_encoding", J::Str(hex(&bytes))), ("extras_initial_order", J::Str(format!("{:?}", k.params.iter().map(|p| &p.0).collect::<Vec<_>>())))]));
                }
            }
            Err((class, detail)) => {
                if class == "harness" {
                    continue;
                }
                let mut sig = format!("C20/{}/{}", class, if lf { "length-first" } else { "lexicographic" });
                // known finding P3: attribution by neutralising the trigger (extra label 0)
                if k.params.iter().any(|(l, _)| *l == MLabel::Int(0)) {
                    let mut k2 = k.clone();
                    k2.params.retain(|(l, _)| *l != MLabel::Int(0));
                    if canon_oracle(&k2, lf).is_ok() {
                        sig = "C20/extra-label-0-sorts-before-kty".to_string();
                    }
                }
                ctx.violation(&sig, detail, J::obj(vec![("key", J::Str(format!("{:?}", k).chars().take(800).collect())), ("ordering", J::s(if lf { "length-first" } else { "lexicographic" }))]));
            }
        }
    }
}

fn key_with(bits: u64, extras: Vec<(MLabel, Item)>) -> MKey {
    MKey {
        kty: MLabel::Int(2),
        kid: if bits & 1 != 0 { vec![1, 2] } else { vec![] },
        alg: if bits & 2 != 0 { Some(MLabel::Int(-7)) } else { None },
        key_ops: if bits & 4 != 0 { vec![MLabel::Int(1), MLabel::Int(2)] } else { vec![] },
        base_iv: if bits & 8 != 0 { vec![9] } else { vec![] },
        params: extras,
    }
}

impl Check for C20 {
    fn id(&self) -> &'static str {
        "C20"
    }
    fn phases(&self, tier: Tier, b: f64) -> Vec<Phase> {
        let q = tier == Tier::Quick;
        vec![
            Phase { name: "16 typed-field subsets x random extras (1-5) in every initial order; both orderings", cases: scale(if q { 15000 } else { 100000 }, b), exhaustive: false },
            Phase { name: "6-8 extras in 16 random orders; both orderings", cases: scale(if q { 15000 } else { 100000 }, b), exhaustive: false },
            Phase { name: "every pair of palette labels as the two extras, both initial orders, all 16 typed-field subsets", cases: (extra_palette().len() * extra_palette().len()) as u64, exhaustive: true },
            Phase { name: "keys obtained by decoding styled wire forms", cases: scale(if q { 25000 } else { 200000 }, b), exhaustive: false },
            Phase { name: "keys with 20-80 extras of mixed encoded lengths in random and adversarial (descending, length-interleaved) initial orders", cases: scale(if q { 600 } else { 20000 }, b), exhaustive: false },
        ]
    }
    fn run_case(&self, ctx: &mut Ctx, phase: usize, idx: u64) {
        let pal = extra_palette();
        if phase == 1 && idx % 4 == 0 {
            dup_params_case(ctx);
        }
        match phase {
            0 | 1 => {
                let n = if phase == 0 { 1 + ctx.rng.below(5) } else { 6 + ctx.rng.below(3) };
                let mut ls: Vec<MLabel> = Vec::new();
                while ls.len() < n {
                    let l = if ctx.rng.chance(1, 6) { gen::pal_label(&mut ctx.rng) } else { pal[ctx.rng.below(pal.len())].clone() };
                    if matches!(&l, MLabel::Int(i) if (1..=5).contains(i)) || ls.contains(&l) {
                        continue;
                    }
                    ls.push(l);
                }
                let extras: Vec<(MLabel, Item)> = ls.into_iter().map(|l| (l, gen::random_item(&mut ctx.rng, 1))).collect();
                let bits = idx % 16;
                if phase == 0 {
                    let mut idxs: Vec<usize> = (0..extras.len()).collect();
                    super::c08::permute(&mut idxs, 0, &mut |p| {
                        let e: Vec<(MLabel, Item)> = p.iter().map(|i| extras[*i].clone()).collect();
                        check_key(ctx, &key_with(bits, e));
                    });
                } else {
                    for _ in 0..16 {
                        let mut e = extras.clone();
                        ctx.rng.shuffle(&mut e);
                        check_key(ctx, &key_with(bits, e));
                    }
                }
            }
            2 => {
                let n = pal.len() as u64;
                let (a, b) = (&pal[(idx / n) as usize], &pal[(idx % n) as usize]);
                if a == b {
                    return;
                }
                for bits in 0..16 {
                    check_key(ctx, &key_with(bits, vec![(a.clone(), Item::int(1)), (b.clone(), Item::Null)]));
                }
            }
            4 => {
                let n = 20 + ctx.rng.below(61);
                let mut ls: Vec<MLabel> = Vec::new();
                let base: i64 = *ctx.rng.pick(&[6, 20, 100, 250, 65000, -1, -20, -250, -65000]);
                while ls.len() < n {
                    let l = match ctx.rng.below(6) {
                        0 => MLabel::Text(format!("t{}", ctx.rng.below(200))),
                        1 => pal[ctx.rng.below(pal.len())].clone(),
                        _ => MLabel::Int(base + if base < 0 { -(ls.len() as i64) * 3 } else { ls.len() as i64 * 3 } + ctx.rng.range(0, 2)),
                    };
                    if matches!(&l, MLabel::Int(i) if (0..=5).contains(i)) || ls.contains(&l) {
                        continue;
                    }
                    ls.push(l);
                }
                match ctx.rng.below(4) {
                    0 => ls.sort_by_key(|l| std::cmp::Reverse(rcbor::det(&l.item()))),
                    1 => ls.sort_by_key(|l| rcbor::det(&l.item())),
                    2 => {
                        // interleave long and short encodings
                        ls.sort_by_key(|l| rcbor::det(&l.item()).len());
                        let (a, b) = ls.split_at(ls.len() / 2);
                        ls = a.iter().zip(b.iter().rev()).flat_map(|(x, y)| [y.clone(), x.clone()]).chain(if n % 2 == 1 { vec![b[0].clone()] } else { vec![] }).collect();
                        ls.dedup();
                    }
                    _ => ctx.rng.shuffle(&mut ls),
                }
                let mut uniq: Vec<MLabel> = Vec::new();
                for l in ls {
                    if !uniq.contains(&l) {
                        uniq.push(l);
                    }
                }
                let extras: Vec<(MLabel, Item)> = uniq.into_iter().enumerate().map(|(i, l)| (l, Item::int(i as i64))).collect();
                check_key(ctx, &key_with(idx % 16, extras));
            }
            _ => {
                let k = gen::gen_key(&mut ctx.rng);
                let bytes = rcbor::encode(&model::encode(&MVal::Key(k)), &mut Style::random(ctx.rng.next()));
                if let Ok(CVal::Key(ck)) = capi::from_slice(model::Ty::Key, &bytes) {
                    let mk = capi::v_key(&ck, &mut Notes(vec![]));
                    check_key(ctx, &mk);
                }
            }
        }
    }
    fn rule(&self) -> String {
        "keys = every subset of the four optional typed fields x extras drawn from {0, 6, 7, 22-25, 255, 256, 65535, 65536, -1, -2, -23..-26, -255..-257, -65536, -65537, private, +-2^32, i64 extremes, texts of length 0/1/2/3/23/24/255/256 incl. equal-length pairs} plus random labels: 1-5 extras in every initial order, 6-8 extras in 16 random orders, every ordered pair of palette labels with all 16 typed subsets, and keys decoded from styled wire forms; both orderings. Oracle: after canonicalize(o) the map read by the independent parser has strictly ascending encoded keys under o; content (multiset of label/value pairs, typed fields) unchanged; the encoding decodes to the same key and re-encodes to the same bytes; a second canonicalize changes nothing. Non-trivial = distinct canonical encodings.".into()
    }
    fn assumptions(&self) -> Vec<String> {
        vec!["known finding P3 is attributed counterfactually: the same key without its label-0 extra must pass the oracle".into()]
    }
    fn finish(&self, m: &mut Ctx) -> Result<(), String> {
        if m.counters.get("sorted-ok").copied().unwrap_or(0) < 10000 {
            return Err("fewer than 10000 canonicalised keys judged".into());
        }
        Ok(())
    }
}
