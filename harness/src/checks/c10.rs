//! C10 - COSE_Key / COSE_KeySet: accepted iff well-formed, parameters map to fields.

use super::iff;
use crate::gen;
use crate::model::{self, Ty};
use crate::mon::{scale, Check, Ctx, Phase, Tier};
use crate::rcbor::{self, Item};

pub struct C10;
const SALT: u64 = 0xC10_BA5E;
const TYPES: [Ty; 2] = [Ty::Key, Ty::KeySet];

fn kty_variant(ctx: &mut Ctx) -> Option<Item> {
    match ctx.rng.below(9) {
        0 => None,
        1 => Some(Item::Int(0)),
        2 => Some(Item::Int(ctx.rng.range(1, 6) as i128)),
        3 => Some(Item::Int(ctx.rng.range(7, 12) as i128)),
        4 => Some(Item::Int(ctx.rng.range(-5, -1) as i128)),
        5 => Some(Item::Text(gen::pal_text(&mut ctx.rng))),
        6 => Some(Item::Int(gen::pal_int(&mut ctx.rng))),
        7 => Some(gen::kind_palette(ctx.rng.below(gen::KIND_PALETTE_LEN))),
        _ => Some(Item::Int(*ctx.rng.pick(&[-65537i128, -70000, 1 << 40]))),
    }
}

fn ops_variant(ctx: &mut Ctx) -> Item {
    let n = ctx.rng.below(5);
    let mut v = Vec::new();
    for _ in 0..n {
        v.push(match ctx.rng.below(8) {
            0..=3 => Item::Int(ctx.rng.range(1, 10) as i128),
            4 => Item::Int(ctx.rng.range(-2, 13) as i128),
            5 => Item::Text(ctx.rng.pick(&["1", "2", "sign", "", "a"]).to_string()),
            6 => gen::kind_palette(ctx.rng.below(gen::KIND_PALETTE_LEN)),
            _ => Item::Int(gen::pal_int(&mut ctx.rng)),
        });
    }
    if !v.is_empty() && ctx.rng.chance(1, 3) {
        // repeat an element (int-int or text-text)
        let e = v[ctx.rng.below(v.len())].clone();
        let pos = ctx.rng.below(v.len() + 1);
        v.insert(pos, e);
    }
    Item::Array(v)
}

impl Check for C10 {
    fn id(&self) -> &'static str {
        "C10"
    }
    fn phases(&self, tier: Tier, b: f64) -> Vec<Phase> {
        let q = tier == Tier::Quick;
        vec![
            Phase { name: "valid keys and key sets x styles", cases: scale(if q { 80000 } else { 300000 }, b), exhaustive: false },
            Phase { name: "complete single-fault neighbourhood of fixed base keys / key sets", cases: if q { 60 } else { 600 }, exhaustive: true },
            Phase { name: "1-3 random faults", cases: scale(if q { 160000 } else { 600000 }, b), exhaustive: false },
            Phase { name: "kty variants x position, key_ops variants, label alphabet", cases: scale(if q { 240000 } else { 800000 }, b), exhaustive: false },
            Phase { name: "all 16 subsets of the optional typed fields x extras profiles", cases: 16 * 4, exhaustive: true },
            Phase { name: "key sets of 0-4 keys with a fault at each index", cases: scale(if q { 32000 } else { 100000 }, b), exhaustive: false },
            Phase { name: "birthday: keys with 2^18 pairwise distinct text / integer labels", cases: 2, exhaustive: true },
        ]
    }
    fn run_case(&self, ctx: &mut Ctx, phase: usize, idx: u64) {
        match phase {
            6 => {
                super::common::birthday_case(ctx, 2 + idx);
            }
            0 => iff::valid_case(ctx, TYPES[(idx % 2) as usize], &TYPES),
            1 => iff::enum_case(ctx, if idx % 5 == 4 { Ty::KeySet } else { Ty::Key }, SALT, idx, &TYPES, 1),
            2 => iff::mutant_case(ctx, TYPES[(idx % 2) as usize], &TYPES),
            3 => {
                let k = gen::gen_key(&mut ctx.rng);
                let mut m = match model::enc_key(&k) {
                    Item::Map(m) => m,
                    _ => unreachable!(),
                };
                // drop kty, re-insert a variant at a random position
                m.retain(|(l, _)| *l != Item::Int(1));
                if let Some(v) = kty_variant(ctx) {
                    let pos = ctx.rng.below(m.len() + 1);
                    m.insert(pos, (Item::Int(1), v));
                }
                if ctx.rng.coin() {
                    m.retain(|(l, _)| *l != Item::Int(4));
                    let pos = ctx.rng.below(m.len() + 1);
                    let ops = ops_variant(ctx);
                    m.insert(pos, (Item::Int(4), ops));
                }
                if ctx.rng.chance(1, 6) {
                    // several text labels in scattered order, one of them repeated somewhere
                    let mut names = vec!["a", "b", "c", "aa", "zz", "kid", "1", ""];
                    ctx.rng.shuffle(&mut names);
                    let n = 2 + ctx.rng.below(4);
                    for t in names.iter().take(n) {
                        let pos = ctx.rng.below(m.len() + 1);
                        m.insert(pos, (Item::text(t), gen::random_item(&mut ctx.rng, 1)));
                    }
                    if ctx.rng.chance(3, 4) {
                        let pos = ctx.rng.below(m.len() + 1);
                        m.insert(pos, (Item::text(names[ctx.rng.below(n)]), Item::Null));
                    }
                }
                if ctx.rng.chance(1, 30) {
                    // a parameter value nested deeply (well inside every parser's limit)
                    let d = 100 + ctx.rng.below(101);
                    let nested = rcbor::decode(&crate::hostile::b4_nested(d, (d % 3) as u8)).unwrap_or(Item::Null);
                    let pos = ctx.rng.below(m.len() + 1);
                    m.insert(pos, (Item::int(-70020), nested));
                }
                if ctx.rng.chance(1, 3) {
                    let pos = ctx.rng.below(m.len() + 1);
                    let l = match ctx.rng.below(3) {
                        0 => Item::Int(ctx.rng.range(0, 6) as i128),
                        1 => Item::Int(ctx.rng.range(-12, -1) as i128),
                        _ => gen::pal_label(&mut ctx.rng).item(),
                    };
                    m.insert(pos, (l, gen::random_item(&mut ctx.rng, 1)));
                }
                iff::offer(ctx, &Item::Map(m), &TYPES, 1, false, true);
            }
            4 => {
                let bits = idx % 16;
                let profile = idx / 16;
                let mut m = vec![(Item::int(1), Item::int(2))];
                if bits & 1 != 0 {
                    m.push((Item::int(2), Item::bytes(&[1, 2, 3])));
                }
                if bits & 2 != 0 {
                    m.push((Item::int(3), Item::int(-7)));
                }
                if bits & 4 != 0 {
                    m.push((Item::int(4), Item::Array(vec![Item::int(2), Item::int(1), Item::text("x")])));
                }
                if bits & 8 != 0 {
                    m.push((Item::int(5), Item::bytes(&[9])));
                }
                match profile {
                    0 => {}
                    1 => m.push((Item::int(-1), Item::int(1))),
                    2 => {
                        m.insert(0, (Item::text("t"), Item::Null));
                        m.push((Item::int(-2), Item::bytes(&[5])));
                    }
                    _ => {
                        m.insert(1, (Item::int(6), Item::int(6)));
                        m.push((Item::int(-70000), Item::Bool(true)));
                        m.push((Item::int(-1), Item::int(1)));
                    }
                }
                iff::offer(ctx, &Item::Map(m), &TYPES, 2, false, true);
            }
            _ => {
                let n = ctx.rng.below(5);
                let mut keys: Vec<Item> = (0..n).map(|_| model::enc_key(&gen::gen_key(&mut ctx.rng))).collect();
                if n > 0 && ctx.rng.chance(1, 2) {
                    let i = ctx.rng.below(n);
                    keys[i] = gen::mutate_item(&mut ctx.rng, &keys[i]);
                }
                if n > 0 && ctx.rng.chance(1, 2) {
                    // the same key several times (adjacent and not): a key set is a sequence
                    let i = ctx.rng.below(n);
                    let k = keys[i].clone();
                    keys.insert(i, k.clone());
                    if ctx.rng.coin() {
                        keys.push(k);
                    }
                }
                if ctx.rng.chance(1, 40) {
                    // long key sets: every element is validated and kept
                    let k = model::enc_key(&gen::gen_key(&mut ctx.rng));
                    let total = 250 + ctx.rng.below(60);
                    keys = (0..total).map(|_| k.clone()).collect();
                    if ctx.rng.coin() {
                        let at = total - 1 - ctx.rng.below(40);
                        keys[at] = Item::Map(vec![(Item::int(1), Item::int(0))]);
                    }
                }
                iff::offer(ctx, &Item::Array(keys), &TYPES, 1, false, true);
            }
        }
    }
    fn rule(&self) -> String {
        "key maps generated as: valid model keys (kty registered or text, every optional field, extras over {0..6, negative key-type-specific labels, private, texts, 64-bit extremes}) and key sets of 0-4 keys, canonical + 3 random encodings; complete single-fault neighbourhood of fixed bases; 1-3 random faults; kty absent/reserved/unregistered/text/wrong kind at every position; key_ops with registered, unregistered, repeated (int and text), empty and wrong-kind entries; all 16 typed-field subsets x 4 extras profiles; key sets with a fault at each index. Offered to CoseKey and CoseKeySet via from_slice and from_cbor_value. Oracle: accept iff the reference model accepts; fields equal (key_ops as a set), extras in wire order. Birthday workload: 2^18 pairwise distinct labels (8-character texts / 64-bit integers / private-use integers) in one map must all be accepted and come back in order (a duplicate detector keyed on anything shorter than the label would report a duplicate that is not there). Non-trivial = distinct encodings.".into()
    }
    fn assumptions(&self) -> Vec<String> {
        super::std_assumptions()
    }
    fn finish(&self, m: &mut Ctx) -> Result<(), String> {
        iff::require_rules(m, &["key.not-map", "key.dup", "key.kty.missing", "key.kty.reserved", "key.kty.unregistered", "key.kty.kind", "key.kid.empty", "key.kid.kind", "key.alg.unregistered", "key.ops.empty", "key.ops.repeated", "key.ops.elem-unregistered", "key.ops.kind", "key.baseiv.empty", "keyset.not-array", "label.kind", "label.out-of-range"])?;
        if m.counters.get("accept:Key").copied().unwrap_or(0) < 1000 || m.counters.get("accept:KeySet").copied().unwrap_or(0) < 500 {
            return Err("too few accepted keys / key sets".into());
        }
        Ok(())
    }
}
