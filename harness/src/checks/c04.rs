//! C04 - to-be-MACed bytes are exactly RFC 8152 MAC_structure.

use super::structs::*;
use crate::json::J;
use crate::model::{MHeader, MProt};
use crate::mon::{scale, Check, Ctx, Phase, Tier};

pub struct C04;

impl Check for C04 {
    fn id(&self) -> &'static str {
        "C04"
    }
    fn phases(&self, tier: Tier, b: f64) -> Vec<Phase> {
        let q = tier == Tier::Quick;
        vec![
            Phase { name: "random tuples (MAC|MAC0, protected [built|wire], AAD, payload) through every MAC_structure-producing helper, with and without payload", cases: scale(if q { 48000 } else { 300000 }, b), exhaustive: false },
            Phase { name: "length-class grid for AAD / payload (and the 16x16 product in thorough)", cases: if q { 32 } else { 32 + 256 }, exhaustive: true },
            Phase { name: "messages decoded from non-canonical wire forms", cases: scale(if q { 64000 } else { 400000 }, b), exhaustive: false },
            Phase { name: "adversarial near-collisions: every split of the same bytes between AAD and payload", cases: scale(if q { 16000 } else { 80000 }, b), exhaustive: false },
            Phase { name: "birthday: the structure of a built protected header with 2^17 pairwise distinct text labels", cases: 1, exhaustive: true },
        ]
    }
    fn run_case(&self, ctx: &mut Ctx, phase: usize, idx: u64) {
        match phase {
            4 => birthday_structure_case(ctx, "MAC_structure"),
            0 => {
                let o = if ctx.rng.coin() { Origin::Built } else { Origin::Wire };
                let p = gen_prot_variant(ctx, o);
                let (la, lp) = (pick_len(ctx), pick_len(ctx));
                let aad = bytes_of_len(ctx, la);
                let payload = bytes_of_len(ctx, lp);
                c04_case(ctx, &p, &aad, &payload);
                if ctx.rng.chance(1, 6) {
                    // AAD / payload that is itself a MAC_structure over the same header
                    let pb = crate::model::prot_slot(&p);
                    let text = *ctx.rng.pick(&["MAC0", "MAC"]);
                    let nested = crate::model::structure(text, &[&pb, &aad[..aad.len().min(40)], &payload[..payload.len().min(40)]]);
                    c04_case(ctx, &p, &nested, &payload);
                    c04_case(ctx, &p, &aad, &nested);
                    ctx.count("self-referential-aad");
                }
                built_then_edited_case(ctx, "MAC_structure", &p, &aad, &payload);
                let p1 = gen_prot_variant(ctx, Origin::Built);
                reprotect_case(ctx, "MAC_structure", &p1, &p, &aad, &payload);
                // two headers that differ only in the sign of a floating-point zero: the second
                // `protected()` call must replace the first, and the structures must differ
                if ctx.rng.chance(1, 4) {
                    let (ha, hb) = zero_twins(ctx);
                    let (pa, pb) = (MProt { bytes: None, header: ha }, MProt { bytes: None, header: hb });
                    reprotect_case(ctx, "MAC_structure", &pa, &pb, &aad, &payload);
                    c04_case(ctx, &pa, &aad, &payload);
                    c04_case(ctx, &pb, &aad, &payload);
                }
                decoded_edited_keeping_bytes_case(ctx, "MAC_structure", &p, &aad, &payload);
                ctx.sample(|| J::obj(vec![("protected", J::Str(format!("{:?}", p.bytes.as_ref().map(|b| crate::rcbor::hex(b))))), ("aad_len", J::UInt(la as u64)), ("payload_len", J::UInt(lp as u64)), ("outcome", J::s("all helper outputs equal the RFC 8152 MAC_structure; refusals without payload observed"))]));
            }
            1 => {
                let built = MProt { bytes: None, header: MHeader::default() };
                let wire = MProt { bytes: Some(vec![0xa0]), header: MHeader::default() };
                let (la, lp) = if idx < 16 {
                    (LENS[idx as usize], 3)
                } else if idx < 32 {
                    (2, LENS[(idx - 16) as usize])
                } else {
                    (LENS[((idx - 32) / 16) as usize], LENS[((idx - 32) % 16) as usize])
                };
                let aad = bytes_of_len(ctx, la);
                let payload = bytes_of_len(ctx, lp);
                c04_case(ctx, &built, &aad, &payload);
                c04_decoded_case(ctx, &wire, &aad, &payload);
            }
            2 => {
                let p = gen_prot_variant(ctx, Origin::Wire);
                let (la, lp) = (pick_len(ctx).min(300), pick_len(ctx).min(300));
                let aad = bytes_of_len(ctx, la);
                let payload = bytes_of_len(ctx, lp);
                c04_decoded_case(ctx, &p, &aad, &payload);
                decoded_edited_keeping_bytes_case(ctx, "MAC_structure", &p, &aad, &payload);
                let empty_wire = MProt { bytes: Some(vec![]), header: MHeader::default() };
                decoded_edited_keeping_bytes_case(ctx, "MAC_structure", &empty_wire, &aad, &payload);
            }
            _ => {
                let p = gen_prot_variant(ctx, Origin::Built);
                let n = 1 + ctx.rng.below(6);
                let data = bytes_of_len(ctx, n);
                for cut in 0..=data.len() {
                    c04_case(ctx, &p, &data[..cut], &data[cut..]);
                }
                unencodable_header_case(ctx, "MAC_structure", &data, &data);
                both_ivs_case(ctx, "MAC_structure", &data, &data);
            }
        }
    }
    fn rule(&self) -> String {
        "tuples (MAC | MAC0, protected header built or decoded from non-canonical wire bytes, external AAD, payload) over all bstr length classes with boundaries +-1; observed: mac_structure_data and the data received by recording closures of create_tag / try_create_tag / verify_tag of both types, on built and on decoded messages; with a payload (bytes must equal the independent deterministic encoding of the RFC 8152 section 6.3 array) and without (documented panic, closure never invoked); run-wide injectivity monitor. Non-trivial = distinct structure outputs that matched.".into()
    }
    fn assumptions(&self) -> Vec<String> {
        vec!["expected bytes come from the harness's own deterministic CBOR encoder".into()]
    }
    fn finish(&self, m: &mut Ctx) -> Result<(), String> {
        for h in ["mac_structure_data", "CoseMac::verify_tag", "CoseMac0::verify_tag", "CoseMacBuilder::create_tag", "CoseMacBuilder::try_create_tag", "CoseMac0Builder::create_tag", "CoseMac0Builder::try_create_tag", "decoded CoseMac::verify_tag", "decoded CoseMac0::verify_tag"] {
            if m.counters.get(&format!("helper:{}", h)).copied().unwrap_or(0) < 20 {
                return Err(format!("helper {} observed fewer than 20 times", h));
            }
        }
        for r in ["CoseMacBuilder::create_tag(no payload)", "CoseMacBuilder::try_create_tag(no payload)", "CoseMac0Builder::create_tag(no payload)", "CoseMac0Builder::try_create_tag(no payload)", "CoseMac::verify_tag(no payload)", "CoseMac0::verify_tag(no payload)"] {
            if m.counters.get(&format!("refusal:{}", r)).copied().unwrap_or(0) < 20 {
                return Err(format!("refusal {} observed fewer than 20 times", r));
            }
        }
        Ok(())
    }
}
