//! C01 - untrusted bytes never crash decoding or the processing that follows it.
//! All hostile decoding happens in child processes (E2) on a thread with an ordinary stack, under
//! the counting allocator (E3) and the panic monitor (E4); the parent attributes a child's death to
//! the input in flight and restarts after it.

use super::c07::corpus;
use crate::gen::{self, GenOpts};
use crate::hostile::{self, Measure, Reply, Req};
use crate::json::J;
use crate::model::{self, Ty, STRUCT_TYPES};
use crate::mon::{scale, Check, Ctx, Phase, Tier};
use crate::rcbor::{self, hex, Style};

pub struct C01;

/// memory bound per decode of an n-byte input: peak live bytes <= MEM_B + MEM_A * n
/// (calibrated on the unchanged tree: the largest peak/n ratio over all workloads was 138 for inputs >= 4 KiB and 363 for inputs of 64 bytes .. 4 KiB, which MEM_B absorbs)
pub const MEM_A: usize = 600;
pub const MEM_B: usize = 64 << 10;

fn stack_bytes() -> usize {
    std::env::var("VERIF_C01_STACK").ok().and_then(|s| s.parse().ok()).unwrap_or(if cfg!(debug_assertions) { 8 << 20 } else { 2 << 20 })
}

fn exe() -> std::path::PathBuf {
    std::env::current_exe().expect("current_exe")
}

fn wit(r: &Req) -> J {
    let b = r.bytes();
    let (ty, tg) = match r {
        Req::All(_) => ("<every entry point>".to_string(), false),
        Req::Typed(t, tg, _) => (t.name(), *tg),
    };
    J::obj(vec![
        ("type", J::Str(ty)),
        ("tagged", J::Bool(tg)),
        ("len", J::UInt(b.len() as u64)),
        ("hex", J::Str(if b.len() > 2048 { format!("{}...({} bytes)...{}", hex(&b[..512]), b.len(), hex(&b[b.len() - 64..])) } else { hex(b) })),
    ])
}

/// judge one reply: crash, panic, memory proportionality
fn judge(ctx: &mut Ctx, what: &str, r: &Req, rep: &Reply) -> Option<Measure> {
    ctx.eval();
    let n = r.bytes().len();
    match rep {
        Reply::Done { accepted, m, panics, .. } => {
            ctx.add("decodes", if matches!(r, Req::All(_)) { 31 } else { 1 });
            ctx.add("accepted-values", *accepted as u64);
            ctx.max("max-stack-bytes-used", m.stack_used as u64);
            if n >= 64 {
                ctx.max("max-peak-bytes-per-input-byte-x100", (m.peak * 100 / n) as u64);
            }
            if n >= 4096 {
                ctx.max("max-peak-bytes-per-input-byte-x100(inputs>=4KiB)", (m.peak * 100 / n) as u64);
            }
            ctx.max("max-input-bytes", n as u64);
            for p in panics {
                let site = p.rsplit('@').next().unwrap_or("?").to_string();
                let op = p.split(':').next().unwrap_or("?").to_string();
                ctx.violation(&format!("C01/panic/{}/{}", op, site), format!("{}: panic in {} ({})", what, op, p), wit(r));
            }
            if m.peak > MEM_B + MEM_A * n {
                ctx.violation(&format!("C01/memory-not-proportional/{}", what), format!("decoding {} bytes needed {} bytes of live memory (bound {} + {} per byte)", n, m.peak, MEM_B, MEM_A), wit(r));
            }
            Some(m.clone())
        }
        Reply::Crashed { how, stderr_tail } => {
            let class = if stderr_tail.contains("stack overflow") || stderr_tail.contains("overflowed its stack") {
                "stack-overflow"
            } else if stderr_tail.contains("memory allocation of") {
                "allocation-blow-up"
            } else {
                "process-death"
            };
            ctx.violation(&format!("C01/{}/{}", class, what), format!("{}: the decoding process died ({}; {})", what, how, stderr_tail), wit(r));
            None
        }
        Reply::TimedOut => {
            ctx.violation(&format!("C01/hang/{}", what), format!("{}: no result within the watchdog time for a {}-byte input", what, n), wit(r));
            None
        }
        Reply::NotRun => {
            ctx.harness_errors.push(format!("C01: request not run ({})", what));
            None
        }
    }
}

/// confirmed hangs in this run: after a few, the rest of the hostile workload is skipped (every
/// further hang would cost minutes, and the verdict is already decided)
static HANGS: std::sync::atomic::AtomicU32 = std::sync::atomic::AtomicU32::new(0);
const MAX_HANGS: u32 = 3;

fn run_batch(ctx: &mut Ctx, what: &str, reqs: &[Req], timeout_s: u64) -> Vec<Option<Measure>> {
    if HANGS.load(std::sync::atomic::Ordering::Relaxed) >= MAX_HANGS {
        ctx.add("requests-skipped-after-confirmed-hangs", reqs.len() as u64);
        return reqs.iter().map(|_| None).collect();
    }
    let replies = hostile::run_requests(&exe(), stack_bytes(), reqs, timeout_s);
    // a time-out is retried once, alone, with a doubled budget, before it counts as a hang
    let mut out = Vec::new();
    for (r, rep) in reqs.iter().zip(replies.iter()) {
        let rep2;
        let rep = if matches!(rep, Reply::TimedOut) {
            ctx.count("watchdog-retries");
            // alone, 60 s (120 s for inputs beyond 1 MiB): far above anything a linear-time decoder needs
            let alone = if r.bytes().len() > (1 << 20) { 120 } else { 60 };
            rep2 = if HANGS.load(std::sync::atomic::Ordering::Relaxed) >= MAX_HANGS { Reply::NotRun } else { hostile::run_requests(&exe(), stack_bytes(), std::slice::from_ref(r), alone.min(timeout_s * 2)).pop().unwrap_or(Reply::NotRun) };
            if matches!(rep2, Reply::TimedOut) {
                HANGS.fetch_add(1, std::sync::atomic::Ordering::Relaxed);
            }
            &rep2
        } else {
            rep
        };
        out.push(judge(ctx, what, r, rep));
    }
    out
}

/// least-squares slope of log y over log x for the points with x >= min_x (at least 5 points
/// spanning a factor >= 16): capacity-doubling steps average out instead of faking a trend
fn slope(points: &[(f64, f64)], min_x: f64) -> Option<f64> {
    let p: Vec<(f64, f64)> = points.iter().filter(|p| p.0 >= min_x && p.1 > 0.0).map(|p| (p.0.ln(), p.1.ln())).collect();
    if p.len() < 5 || (p[p.len() - 1].0 - p[0].0) < (16.0f64).ln() {
        return None;
    }
    let n = p.len() as f64;
    let (sx, sy) = (p.iter().map(|a| a.0).sum::<f64>(), p.iter().map(|a| a.1).sum::<f64>());
    let (sxx, sxy) = (p.iter().map(|a| a.0 * a.0).sum::<f64>(), p.iter().map(|a| a.0 * a.1).sum::<f64>());
    let d = n * sxx - sx * sx;
    if d.abs() < 1e-12 {
        return None;
    }
    Some((n * sxy - sx * sy) / d)
}

/// A doubling ramp of one bomb family: growth exponents of memory and time must stay near 1.
fn judge_ramp(ctx: &mut Ctx, name: &str, reqs: &[Req], ms: &[Option<Measure>], attempt: u32) -> bool {
    let pts: Vec<(usize, &Measure)> = reqs.iter().zip(ms.iter()).filter_map(|(r, m)| m.as_ref().map(|m| (r.bytes().len(), m))).collect();
    if pts.len() < 4 {
        return true;
    }
    let f = |g: &dyn Fn(&Measure) -> f64| -> Vec<(f64, f64)> { pts.iter().map(|(n, m)| (*n as f64, g(m))).collect() };
    for (what, series) in [("peak-bytes", f(&|m| m.peak as f64)), ("cumulative-bytes", f(&|m| m.total as f64)), ("allocator-calls", f(&|m| m.calls as f64))] {
        if let Some(a) = slope(&series, 1024.0) {
            ctx.max(&format!("max-growth-exponent-x100:{}", what), (a.max(0.0) * 100.0) as u64);
            if std::env::var("VERIF_DEBUG").is_ok() {
                eprintln!("ramp {} {} exponent {:.3}", name, what, a);
            }
            if a > 1.35 {
                ctx.violation(
                    &format!("C01/superlinear-memory/{}", name),
                    format!("{}: {} grows with exponent {:.2} over the ramp {:?}", name, what, a, series.iter().map(|p| (p.0 as u64, p.1 as u64)).collect::<Vec<_>>()),
                    wit(&reqs[reqs.len() - 1]),
                );
                return true;
            }
        }
    }
    // time: only points that took at least 2 ms of thread CPU time
    let t: Vec<(f64, f64)> = pts.iter().filter(|(_, m)| m.cpu_ns >= 2_000_000).map(|(n, m)| (*n as f64, m.cpu_ns as f64)).collect();
    if let Some(a) = slope(&t, 0.0) {
        ctx.max("max-time-growth-exponent-x100", (a.max(0.0) * 100.0) as u64);
        if a > 1.6 {
            if attempt == 0 && a < 1.9 {
                return false; // measure again before believing it
            }
            ctx.violation(
                &format!("C01/superlinear-time/{}", name),
                format!("{}: thread CPU time grows with exponent {:.2} (twice): {:?} (bytes, ns)", name, a, t.iter().map(|p| (p.0 as u64, p.1 as u64)).collect::<Vec<_>>()),
                wit(&reqs[reqs.len() - 1]),
            );
        }
    }
    true
}

fn ramp(ctx: &mut Ctx, name: &str, reqs: Vec<Req>) {
    ctx.count("ramps");
    for attempt in 0..2 {
        let ms = run_batch(ctx, name, &reqs, 180);
        if judge_ramp(ctx, name, &reqs, &ms, attempt) {
            break;
        }
        ctx.count("time-ramp-remeasured");
    }
    ctx.nontrivial(crate::rng::hash_bytes(name.as_bytes()));
}

fn depths(max: usize) -> Vec<usize> {
    let mut v = vec![1usize, 2, 3, 5, 8, 9, 10, 12];
    let mut d = 16;
    while d <= max {
        v.push(d);
        d *= 2;
    }
    v
}

/// the list of bomb ramps: (name, requests)
fn bomb_ramp(ctx: &mut Ctx, idx: u64, thorough: bool) -> Option<(String, Vec<Req>)> {
    let max_depth = if thorough { 1 << 17 } else { 1 << 14 };
    let mut k = idx;
    // B1: protected-in-counter-signature nesting, 5 forms (bare, [sig], [sig, sig], alternating with
    // unprotected, two-of-three unprotected) x 12 roots
    let n_b1 = 6 * hostile::N_ROOTS as u64;
    if k < n_b1 {
        let (form, root) = ((k / hostile::N_ROOTS as u64) as u8, (k % hostile::N_ROOTS as u64) as u8);
        let reqs = depths(max_depth).into_iter().map(|d| {
            let (ty, b) = hostile::carry_header(root, &hostile::b1_header(d, form));
            Req::Typed(ty, false, b)
        }).collect();
        return Some((format!("B1 counter-signature nesting through protected headers (form {}, root {})", form, root), reqs));
    }
    k -= n_b1;
    // B2: through unprotected headers, 2 forms x 4 roots
    if k < 8 {
        let (form, root) = ((k / 4) as u8, [0u8, 2, 3, 6][(k % 4) as usize]);
        let reqs = [1usize, 2, 4, 8, 9, 16, 32, 60, 100, 126, 127, 130, 200].iter().map(|d| {
            let (ty, b) = hostile::carry_header(root, &hostile::b2_header(*d, form));
            Req::Typed(ty, false, b)
        }).collect();
        return Some((format!("B2 counter-signature nesting through unprotected headers (form {}, root {})", form, root), reqs));
    }
    k -= 8;
    // B3: nested recipients under Recipient / Encrypt / Mac
    if k < 3 {
        let reqs = [1usize, 2, 4, 8, 16, 32, 64, 100, 120, 126, 127, 128, 130, 200].iter().map(|d| {
            let r = hostile::b3_recipient(*d, &[]);
            match k {
                0 => Req::Typed(Ty::Recipient, false, r),
                1 => {
                    let mut v = vec![0x84, 0x40, 0xa0, 0xf6, 0x81];
                    v.extend_from_slice(&r);
                    Req::Typed(Ty::Encrypt, false, v)
                }
                _ => {
                    let mut v = vec![0x85, 0x40, 0xa0, 0xf6, 0x40, 0x81];
                    v.extend_from_slice(&r);
                    Req::Typed(Ty::Mac, false, v)
                }
            }
        }).collect();
        return Some((format!("B3 nested recipients (carrier {})", k), reqs));
    }
    k -= 3;
    // B4: nested arrays / maps / tags / indefinite arrays as an extra value, and bare at every entry point
    if k < 8 {
        let kind = (k % 4) as u8;
        let reqs = [1usize, 8, 64, 128, 200, 250, 254, 255, 256, 257, 300, 1000, 10000].iter().map(|d| {
            let nested = hostile::b4_nested(*d, kind);
            if k < 4 {
                let mut h = vec![0xa1, 0x18, 0x63];
                h.extend_from_slice(&nested);
                let (ty, b) = hostile::carry_header(1, &h);
                Req::Typed(ty, false, b)
            } else {
                Req::All(nested)
            }
        }).collect();
        return Some((format!("B4 CBOR nesting kind {} ({})", kind, if k < 4 { "extra value in a protected header" } else { "bare, every entry point" }), reqs));
    }
    k -= 8;
    // B5: products - deep recipients whose innermost protected header holds a B1/B2 chain with a
    // deeply nested extra value
    if k < 4 {
        let reqs = [1usize, 8, 32, 64, 100, 120, 125].iter().map(|d| {
            let mut leaf = match k {
                0 => hostile::b1_header(8, 0),
                1 => hostile::b1_header(9, 1),
                2 => hostile::b2_header(8, 0),
                _ => hostile::b2_header(100, 0),
            };
            if k < 2 {
                // splice a 250-deep array as an extra of the outermost header level
                let mut h = vec![0xa2, 0x18, 0x63];
                h.extend_from_slice(&hostile::b4_nested(250, 0));
                h.extend_from_slice(&leaf[1..]);
                leaf = h;
            }
            let r = hostile::b3_recipient(*d, &leaf);
            let mut v = vec![0x84, 0x40, 0xa0, 0xf6, 0x81];
            v.extend_from_slice(&r);
            Req::Typed(Ty::Encrypt, false, v)
        }).collect();
        return Some((format!("B5 product: nested recipients x counter-signature chain x CBOR nesting ({})", k), reqs));
    }
    k -= 4;
    // B7: flat scale
    if k < hostile::N_FLAT as u64 {
        let fam = k as u8;
        let max_n: usize = if thorough { 1 << 20 } else { 1 << 17 };
        let mut reqs = Vec::new();
        let mut n = 256usize;
        let mut name = "";
        while n <= max_n {
            let (ty, b, nm) = hostile::b7_flat(fam, if fam == 0 || fam == 9 || fam == 14 { n * 8 } else { n });
            name = nm;
            reqs.push(Req::Typed(ty, false, b));
            n *= 2;
        }
        return Some((format!("B7 flat scale: {}", name), reqs));
    }
    k -= hostile::N_FLAT as u64;
    // B8: the content of a protected byte string is itself a byte string holding a byte string ...
    // (bare, under tag 24, inside one-element arrays), from every carrier root
    let n_b8 = 3 * hostile::N_ROOTS as u64;
    if k < n_b8 {
        let (form, root) = ((k / hostile::N_ROOTS as u64) as u8, (k % hostile::N_ROOTS as u64) as u8);
        let reqs = depths(max_depth.min(1 << 15)).into_iter().map(|d| {
            let (ty, b) = hostile::carry_header(root, &hostile::b8_wrapped(d, form));
            Req::Typed(ty, false, b)
        }).collect();
        return Some((format!("B8 header wrapped in nested byte strings (form {}, root {})", form, root), reqs));
    }
    let _ = ctx;
    None
}

const N_BOMB_RAMPS: u64 = 6 * hostile::N_ROOTS as u64 + 8 + 3 + 8 + 4 + hostile::N_FLAT as u64 + 3 * hostile::N_ROOTS as u64;

impl Check for C01 {
    fn id(&self) -> &'static str {
        "C01"
    }
    fn phases(&self, tier: Tier, b: f64) -> Vec<Phase> {
        let q = tier == Tier::Quick;
        // the secondary build configurations (std feature, debug profile) always use the <= 2 byte space
        let short2 = q || std::env::var("VERIF_C01_SECONDARY").is_ok();
        vec![
            Phase { name: "every byte string of length <= 2 (quick, and the secondary build configurations) / <= 3 (thorough) at all 31 byte-level entry points, in batches of 512 per child", cases: if short2 { (65536 + 256 + 1 + 511) / 512 } else { (16777216 + 65536 + 256 + 1 + 511) / 512 }, exhaustive: true },
            Phase { name: "byte-mutated test-suite vectors and generated messages (bit flips, span edits, splices, head rewriting, truncation), 256 per child", cases: scale(if q { 400 } else { 12000 }, b), exhaustive: false },
            Phase { name: "length lies: every head position of valid messages rewritten to claim 2^16 .. 2^64-1 items/bytes", cases: scale(if q { 100 } else { 3000 }, b), exhaustive: false },
            Phase { name: "structurally valid / single- and multi-fault generated values in random encodings, 128 per child", cases: scale(if q { 300 } else { 10000 }, b), exhaustive: false },
            Phase { name: "bomb ramps (nesting through protected and unprotected headers, recipients, CBOR nesting, products, flat scale) with growth-exponent fits", cases: N_BOMB_RAMPS, exhaustive: true },
        ]
    }
    fn threads(&self) -> usize {
        // every case drives one child process; children are single-threaded
        crate::mon::default_threads()
    }
    fn run_case(&self, ctx: &mut Ctx, phase: usize, idx: u64) {
        match phase {
            0 => {
                let mut reqs = Vec::new();
                for k in idx * 512..(idx + 1) * 512 {
                    let b: Vec<u8> = if k == 0 {
                        vec![]
                    } else if k <= 256 {
                        vec![(k - 1) as u8]
                    } else if k <= 256 + 65536 {
                        let x = k - 257;
                        vec![(x >> 8) as u8, x as u8]
                    } else {
                        let x = k - 257 - 65536;
                        if x >= 16777216 {
                            break;
                        }
                        vec![(x >> 16) as u8, (x >> 8) as u8, x as u8]
                    };
                    reqs.push(Req::All(b));
                }
                run_batch(ctx, "short-strings", &reqs, 120);
                ctx.nontrivial(idx);
            }
            1 => {
                let c = corpus();
                let mut reqs = Vec::new();
                for _ in 0..256 {
                    let base = if ctx.rng.coin() {
                        c[ctx.rng.below(c.len())].clone()
                    } else {
                        let ty = STRUCT_TYPES[ctx.rng.below(16)];
                        let v = gen::gen_mval(&mut ctx.rng, ty, &GenOpts { styled_prot: 128, built: false, max_depth: 3, mixed: false });
                        rcbor::encode(&model::encode(&v), &mut Style::random(ctx.rng.next()))
                    };
                    let other = c[ctx.rng.below(c.len())].clone();
                    let m = gen::mutate_bytes(&mut ctx.rng, &base, &other);
                    ctx.nontrivial_bytes(&m);
                    reqs.push(Req::All(m));
                }
                run_batch(ctx, "mutated-bytes", &reqs, 120);
            }
            2 => {
                let mut reqs = Vec::new();
                for _ in 0..128 {
                    let ty = STRUCT_TYPES[ctx.rng.below(16)];
                    let v = gen::gen_mval(&mut ctx.rng, ty, &GenOpts::wire());
                    let b = rcbor::det(&model::encode(&v));
                    let m = gen::length_lie(&mut ctx.rng, &b);
                    ctx.nontrivial_bytes(&m);
                    reqs.push(Req::All(m));
                }
                run_batch(ctx, "length-lies", &reqs, 120);
            }
            3 => {
                let mut reqs = Vec::new();
                for _ in 0..128 {
                    let ty = STRUCT_TYPES[ctx.rng.below(16)];
                    let v = gen::gen_mval(&mut ctx.rng, ty, &GenOpts { styled_prot: 128, built: false, max_depth: 3, mixed: false });
                    let mut it = model::encode(&v);
                    for _ in 0..ctx.rng.below(3) {
                        it = gen::mutate_item(&mut ctx.rng, &it);
                    }
                    let b = rcbor::encode(&it, &mut Style::wild(ctx.rng.next()));
                    ctx.nontrivial_bytes(&b);
                    reqs.push(Req::All(b));
                }
                run_batch(ctx, "generated-values", &reqs, 120);
            }
            _ => {
                let thorough = ctx.tier == Tier::Thorough;
                if let Some((name, reqs)) = bomb_ramp(ctx, idx, thorough) {
                    let sample_name = name.clone();
                    let last_len = reqs.last().map(|r| r.bytes().len()).unwrap_or(0);
                    ramp(ctx, &name, reqs);
                    if idx % 9 == 0 {
                        ctx.sample(|| J::obj(vec![("ramp", J::Str(sample_name)), ("largest_input_bytes", J::UInt(last_len as u64)), ("outcome", J::s("child exited normally on every point; memory and time growth exponents within bounds"))]));
                    }
                }
            }
        }
    }
    fn rule(&self) -> String {
        format!("hostile inputs decoded in child processes on a {}-byte thread stack under a counting allocator (hard cap 64 MiB + 4000 bytes per input byte), panic hook and per-thread CPU clock: every byte string of length <= 2 (quick) / <= 3 (thorough); byte-mutated test vectors and generated messages; length lies at every head; generated valid / faulted values in wild encodings - each at all 31 byte-level entry points (25 untagged types + 6 tagged) followed, on every accepted value, by clone, ==, to_vec, to_tagged_vec, to_cbor_value, tbs / verify (every signer) / MAC / decrypt helpers under their documented preconditions, canonicalize, label comparison and drop; plus {} bomb ramps on doubling sizes (counter-signature nesting through protected headers in six forms (bare, [sig], [sig, sig], alternating with unprotected headers, long unprotected runs between protected hops) from 12 roots up to depth 2^14 (2^17 thorough), through unprotected headers, nested recipients, CBOR nesting of arrays/maps/tags/indefinite arrays to 10^4, products of these, 27 flat-scale families (incl. maps whose labels arrive in descending / scattered order, and maps whose labels all collide under 31-multiplier string hashes or have equal 32-bit halves) up to 1 MB (8 MB thorough), and header maps wrapped in up to 2^14 nested byte strings (bare, under tag 24, in one-element arrays) from 12 roots). Oracle: the child never dies (signal, abort, stack overflow, allocation failure), nothing panics, peak live memory <= {} KiB + {} bytes per input byte, least-squares growth exponents of peak / cumulative bytes / allocator calls <= 1.35 and of thread CPU time <= 1.6 (measured twice), no watchdog expiry (retried alone with a doubled budget). Non-trivial = distinct hostile inputs / ramps.", stack_bytes(), N_BOMB_RAMPS, MEM_B >> 10, MEM_A)
    }
    fn assumptions(&self) -> Vec<String> {
        vec![
            "'ordinary thread stack' is taken as 2 MiB (Rust's default for spawned threads) for release builds and 8 MiB (default main-thread stack) for the debug-assertions profile".into(),
            "memory is what the process's global allocator hands out during the decode call, per thread".into(),
            "time is thread CPU time (CLOCK_THREAD_CPUTIME_ID) fitted over whole doubling ramps; single points are never judged".into(),
        ]
    }
    fn finish(&self, m: &mut Ctx) -> Result<(), String> {
        if m.counters.get("decodes").copied().unwrap_or(0) < 100000 {
            return Err("fewer than 100000 hostile decodes completed".into());
        }
        if m.counters.get("ramps").copied().unwrap_or(0) < N_BOMB_RAMPS {
            return Err("not all bomb ramps ran".into());
        }
        Ok(())
    }
}
