//! C05 - AEAD additional data is exactly RFC 8152 Enc_structure.

use super::structs::*;
use crate::json::J;
use crate::model::{MHeader, MProt};
use crate::mon::{scale, Check, Ctx, Phase, Tier};

pub struct C05;

impl Check for C05 {
    fn id(&self) -> &'static str {
        "C05"
    }
    fn phases(&self, tier: Tier, b: f64) -> Vec<Phase> {
        let q = tier == Tier::Quick;
        vec![
            Phase { name: "random tuples (5 contexts, protected [built|wire], AAD, plaintext) through every Enc_structure-producing helper of the three carriers", cases: scale(if q { 40000 } else { 250000 }, b), exhaustive: false },
            Phase { name: "AAD length-class grid", cases: 16, exhaustive: true },
            Phase { name: "carriers decoded from non-canonical wire forms (recipient standalone, nested to depth 2 in COSE_Encrypt, Encrypt, Encrypt0)", cases: scale(if q { 64000 } else { 400000 }, b), exhaustive: false },
            Phase { name: "adversarial near-collisions: context text prefixes, AAD that looks like a protected header", cases: scale(if q { 12000 } else { 60000 }, b), exhaustive: false },
            Phase { name: "birthday: the structure of a built protected header with 2^17 pairwise distinct text labels", cases: 1, exhaustive: true },
        ]
    }
    fn run_case(&self, ctx: &mut Ctx, phase: usize, idx: u64) {
        match phase {
            4 => birthday_structure_case(ctx, "Enc_structure"),
            0 => {
                let o = if ctx.rng.coin() { Origin::Built } else { Origin::Wire };
                let p = gen_prot_variant(ctx, o);
                let (la, lp) = (pick_len(ctx), pick_len(ctx).min(300));
                let aad = bytes_of_len(ctx, la);
                let pt = bytes_of_len(ctx, lp);
                c05_case(ctx, &p, &aad, &pt);
                if ctx.rng.chance(1, 6) {
                    // an external AAD that is itself the Enc_structure of this header and some AAD: it is
                    // data like any other and gets wrapped again
                    let pb = crate::model::prot_slot(&p);
                    let text = *ctx.rng.pick(&["Encrypt0", "Encrypt", "Enc_Recipient", "Mac_Recipient", "Rec_Recipient"]);
                    let nested = crate::model::structure(text, &[&pb, &aad[..aad.len().min(40)]]);
                    c05_case(ctx, &p, &nested, &pt);
                    ctx.count("self-referential-aad");
                }
                built_then_edited_case(ctx, "Enc_structure", &p, &aad, &pt);
                let p1 = gen_prot_variant(ctx, Origin::Built);
                reprotect_case(ctx, "Enc_structure", &p1, &p, &aad, &pt);
                // two headers that differ only in the sign of a floating-point zero: the second
                // `protected()` call must replace the first, and the structures must differ
                if ctx.rng.chance(1, 4) {
                    let (ha, hb) = zero_twins(ctx);
                    let (pa, pb) = (MProt { bytes: None, header: ha }, MProt { bytes: None, header: hb });
                    reprotect_case(ctx, "Enc_structure", &pa, &pb, &aad, &pt);
                    c05_case(ctx, &pa, &aad, &pt);
                    c05_case(ctx, &pb, &aad, &pt);
                }
                decoded_edited_keeping_bytes_case(ctx, "Enc_structure", &p, &aad, &pt);
                ctx.sample(|| J::obj(vec![("protected", J::Str(format!("{:?}", p.bytes.as_ref().map(|b| crate::rcbor::hex(b))))), ("aad_len", J::UInt(la as u64)), ("outcome", J::s("all helper outputs equal the RFC 8152 Enc_structure for the carrier's / caller's context; refusals observed"))]));
            }
            1 => {
                let built = MProt { bytes: None, header: MHeader::default() };
                let wire = MProt { bytes: Some(vec![0xa0]), header: MHeader::default() };
                let aad = bytes_of_len(ctx, LENS[idx as usize]);
                c05_case(ctx, &built, &aad, &[1, 2, 3]);
                c05_decoded_case(ctx, &wire, &aad);
            }
            2 => {
                let p = gen_prot_variant(ctx, Origin::Wire);
                let la = pick_len(ctx).min(300);
                let aad = bytes_of_len(ctx, la);
                c05_decoded_case(ctx, &p, &aad);
                decoded_edited_keeping_bytes_case(ctx, "Enc_structure", &p, &aad, &[]);
                let empty_wire = MProt { bytes: Some(vec![]), header: MHeader::default() };
                decoded_edited_keeping_bytes_case(ctx, "Enc_structure", &empty_wire, &aad, &[]);
            }
            _ => {
                let p = gen_prot_variant(ctx, Origin::Built);
                let q = gen_prot_variant(ctx, Origin::Built);
                // an AAD equal to the other header's bytes, and vice versa; AAD = context text
                let a1 = crate::model::prot_slot(&q);
                c05_case(ctx, &p, &a1, &[]);
                c05_case(ctx, &q, &crate::model::prot_slot(&p), &[]);
                c05_case(ctx, &p, b"Encrypt0", &[]);
                c05_case(ctx, &p, b"", &[]);
                unencodable_header_case(ctx, "Enc_structure", &a1, &[]);
                both_ivs_case(ctx, "Enc_structure", &a1, &[]);
            }
        }
    }
    fn rule(&self) -> String {
        "tuples (context in {Encrypt, Encrypt0, Enc_Recipient, Mac_Recipient, Rec_Recipient}, protected header built or decoded from non-canonical wire bytes, external AAD over all bstr length classes +-1, arbitrary plaintext/ciphertext); observed: enc_structure_data and the data received by recording closures of create_ciphertext / try_create_ciphertext / decrypt on COSE_Encrypt, COSE_Encrypt0 and COSE_recipient (all five contexts offered to the recipient helpers), on built and decoded carriers incl. recipients nested to depth 2; refusals (non-recipient context on recipient helpers, decrypt without ciphertext: documented panic, closure never invoked); plaintext / ciphertext / result pass-through; run-wide injectivity monitor. Non-trivial = distinct structure outputs that matched.".into()
    }
    fn assumptions(&self) -> Vec<String> {
        vec!["expected bytes come from the harness's own deterministic CBOR encoder".into()]
    }
    fn finish(&self, m: &mut Ctx) -> Result<(), String> {
        for h in ["enc_structure_data", "CoseRecipient::decrypt", "CoseRecipientBuilder::create_ciphertext", "CoseRecipientBuilder::try_create_ciphertext", "CoseEncrypt::decrypt", "CoseEncrypt0::decrypt", "CoseEncryptBuilder::create_ciphertext", "CoseEncryptBuilder::try_create_ciphertext", "CoseEncrypt0Builder::create_ciphertext", "CoseEncrypt0Builder::try_create_ciphertext", "decoded CoseRecipient::decrypt", "decoded CoseEncrypt::decrypt", "decoded CoseEncrypt0::decrypt", "decoded CoseEncrypt.recipients[1].recipients[0]::decrypt"] {
            if m.counters.get(&format!("helper:{}", h)).copied().unwrap_or(0) < 20 {
                return Err(format!("helper {} observed fewer than 20 times", h));
            }
        }
        for r in ["CoseRecipient::decrypt(Encrypt)", "CoseRecipient::decrypt(Encrypt0)", "CoseRecipientBuilder::create_ciphertext(Encrypt)", "CoseRecipientBuilder::try_create_ciphertext(Encrypt0)", "CoseEncrypt::decrypt(no ciphertext)", "CoseEncrypt0::decrypt(no ciphertext)", "CoseRecipient::decrypt(no ciphertext)"] {
            if m.counters.get(&format!("refusal:{}", r)).copied().unwrap_or(0) < 20 {
                return Err(format!("refusal {} observed fewer than 20 times", r));
            }
        }
        Ok(())
    }
}
