//! C03 - to-be-signed bytes are exactly RFC 8152 Sig_structure.

use super::structs::*;
use crate::json::J;
use crate::model::{MHeader, MProt};
use crate::mon::{scale, Check, Ctx, Phase, Tier};

pub struct C03;

fn origin(ctx: &mut Ctx) -> Origin {
    if ctx.rng.coin() {
        Origin::Built
    } else {
        Origin::Wire
    }
}

impl Check for C03 {
    fn id(&self) -> &'static str {
        "C03"
    }
    fn phases(&self, tier: Tier, b: f64) -> Vec<Phase> {
        let q = tier == Tier::Quick;
        vec![
            Phase { name: "random tuples (context, body protected [built|wire], signer protected, AAD, payload) through every Sig_structure-producing helper", cases: scale(if q { 12000 } else { 150000 }, b), exhaustive: false },
            Phase { name: "length-class grid: each of AAD / payload at 0,1,22-25,254-257,65534-65537 (and the 16x16 product in thorough)", cases: if q { 2 * 16 } else { 2 * 16 + 256 }, exhaustive: true },
            Phase { name: "messages decoded from non-canonical wire forms (Sign1 and 1-3-signer Sign, embedded and detached)", cases: scale(if q { 24000 } else { 300000 }, b), exhaustive: false },
            Phase { name: "adversarial near-collisions: bytes moved across adjacent slots, body/signer swapped, empty vs absent signer header", cases: scale(if q { 6000 } else { 60000 }, b), exhaustive: false },
            Phase { name: "birthday: the structure of a built protected header with 2^17 pairwise distinct text labels", cases: 1, exhaustive: true },
        ]
    }
    fn run_case(&self, ctx: &mut Ctx, phase: usize, idx: u64) {
        match phase {
            4 => birthday_structure_case(ctx, "Sig_structure"),
            0 => {
                let (o1, o2) = (origin(ctx), origin(ctx));
                let body = gen_prot_variant(ctx, o1);
                let signer = gen_prot_variant(ctx, o2);
                let (la, lp) = (pick_len(ctx), pick_len(ctx));
                let aad = bytes_of_len(ctx, la);
                let payload = bytes_of_len(ctx, lp);
                let n = 1 + ctx.rng.below(4);
                c03_case(ctx, &body, &signer, &aad, &payload, n);
                if ctx.rng.chance(1, 6) {
                    // AAD / payload that is itself a Sig_structure over the same headers
                    let (pb, ps) = (crate::model::prot_slot(&body), crate::model::prot_slot(&signer));
                    let nested = if ctx.rng.coin() { crate::model::structure("Signature1", &[&pb, &aad[..aad.len().min(40)], &payload[..payload.len().min(40)]]) } else { crate::model::structure("Signature", &[&pb, &ps, &aad[..aad.len().min(40)], &payload[..payload.len().min(40)]]) };
                    c03_case(ctx, &body, &signer, &nested, &payload, n);
                    c03_case(ctx, &body, &signer, &aad, &nested, n);
                    ctx.count("self-referential-aad");
                }
                built_then_edited_case(ctx, "Sig_structure", &body, &aad, &payload);
                reprotect_case(ctx, "Sig_structure", &signer, &body, &aad, &payload);
                decoded_edited_keeping_bytes_case(ctx, "Sig_structure", &body, &aad, &payload);
                ctx.sample(|| J::obj(vec![("body_protected", J::Str(format!("{:?}", body.bytes.as_ref().map(|b| crate::rcbor::hex(b))))), ("aad_len", J::UInt(la as u64)), ("payload_len", J::UInt(lp as u64)), ("signers", J::UInt(n as u64)), ("outcome", J::s("all helper outputs equal the RFC 8152 Sig_structure"))]));
            }
            1 => {
                let body = MProt { bytes: None, header: MHeader::default() };
                let signer = MProt { bytes: Some(vec![0xa0]), header: MHeader::default() };
                let (la, lp) = if idx < 16 {
                    (LENS[idx as usize], 3)
                } else if idx < 32 {
                    (2, LENS[(idx - 16) as usize])
                } else {
                    (LENS[((idx - 32) / 16) as usize], LENS[((idx - 32) % 16) as usize])
                };
                let aad = bytes_of_len(ctx, la);
                let payload = bytes_of_len(ctx, lp);
                c03_case(ctx, &body, &signer, &aad, &payload, 2);
                c03_decoded_case(ctx, &signer, &signer, &aad, &payload, idx % 2 == 0);
            }
            2 => {
                let body = gen_prot_variant(ctx, Origin::Wire);
                let signer = gen_prot_variant(ctx, Origin::Wire);
                let (la, lp) = (pick_len(ctx).min(300), pick_len(ctx).min(300));
                let aad = bytes_of_len(ctx, la);
                let payload = bytes_of_len(ctx, lp);
                let detached = ctx.rng.coin();
                c03_decoded_case(ctx, &body, &signer, &aad, &payload, detached);
                // the signer's header with the same content as the body's but different bytes
                let same_content = MProt { bytes: Some(if body.header.is_empty() { if body.bytes.as_deref() == Some(&[]) { vec![0xa0] } else { vec![] } } else { crate::gen::prot_bytes(&mut ctx.rng, &body.header, 255) }), header: body.header.clone() };
                c03_decoded_case(ctx, &body, &same_content, &aad, &payload, detached);
                c03_case(ctx, &body, &same_content, &aad, &payload, 2);
                decoded_edited_keeping_bytes_case(ctx, "Sig_structure", &body, &aad, &payload);
                c03_decoded_countersig_case(ctx, &body, &signer, &aad, &payload);
                // body and signer headers that differ only in the sign of a floating-point zero
                let (ha, hb) = zero_twins(ctx);
                let (pa, pb) = (MProt { bytes: None, header: ha.clone() }, MProt { bytes: None, header: hb.clone() });
                c03_case(ctx, &pa, &pb, &aad, &payload, 2);
                reprotect_case(ctx, "Sig_structure", &pa, &pb, &aad, &payload);
                let (wa, wb) = (MProt { bytes: Some(crate::rcbor::det(&crate::model::enc_header(&ha))), header: ha }, MProt { bytes: Some(crate::rcbor::det(&crate::model::enc_header(&hb))), header: hb });
                c03_decoded_case(ctx, &wa, &wb, &aad, &payload, detached);
            }
            _ => {
                let body = gen_prot_variant(ctx, Origin::Built);
                let signer = gen_prot_variant(ctx, Origin::Built);
                let n = 1 + ctx.rng.below(6);
                let data = bytes_of_len(ctx, n);
                // every split of the same bytes between AAD and payload
                for cut in 0..=data.len() {
                    c03_case(ctx, &body, &signer, &data[..cut], &data[cut..], 1);
                }
                c03_case(ctx, &signer, &body, &data, &data, 1);
                let empty = MProt { bytes: None, header: MHeader::default() };
                c03_case(ctx, &body, &empty, &data, &[], 1);
                c03_case(ctx, &empty, &empty, &[], &data, 1);
                unencodable_header_case(ctx, "Sig_structure", &data, &data);
                both_ivs_case(ctx, "Sig_structure", &data, &data);
            }
        }
    }
    fn rule(&self) -> String {
        "tuples (context, body protected header, signer protected header, external AAD, payload): headers built in memory (empty, only counter-signatures, only extras, arbitrary) or decoded from wire bytes in non-canonical encodings (incl. 40 / 41a0 / bfff forms); AAD and payload over all bstr length classes with boundaries +-1 (complete grid per slot; 16x16 product in thorough); signer index random among 1-4 signers; embedded and detached payloads. Observed: sig_structure_data, tbs_data, tbs_detached_data and the data received by recording closures of all 14 create/add/verify helpers of Sign1 and Sign, on built and on decoded messages; documented refusals. Oracle: bytes equal the independent deterministic encoding of the RFC 8152 section 4.4 array; run-wide injectivity monitor (bytes -> tuple). Non-trivial = distinct structure outputs that matched.".into()
    }
    fn assumptions(&self) -> Vec<String> {
        vec!["the expected bytes are produced by the harness's own deterministic CBOR encoder from the tuple; the bytes of a built non-empty protected header are the model's encoding of the header map in the crate's probed typed-entry order".into()]
    }
    fn finish(&self, m: &mut Ctx) -> Result<(), String> {
        for h in ["sig_structure_data", "CoseSign1::tbs_data", "CoseSign1::tbs_detached_data", "CoseSign1::verify_signature", "CoseSign1::verify_detached_signature", "CoseSign1Builder::create_signature", "CoseSign1Builder::try_create_signature", "CoseSign1Builder::create_detached_signature", "CoseSign1Builder::try_create_detached_signature", "CoseSign::tbs_data", "CoseSign::tbs_detached_data", "CoseSign::verify_signature", "CoseSign::verify_detached_signature", "CoseSignBuilder::add_created_signature", "CoseSignBuilder::try_add_created_signature", "CoseSignBuilder::add_detached_signature", "CoseSignBuilder::try_add_detached_signature", "decoded CoseSign1::tbs_data", "decoded CoseSign1::tbs_detached_data", "decoded CoseSign::verify_signature", "decoded CoseSign::verify_detached_signature"] {
            if m.counters.get(&format!("helper:{}", h)).copied().unwrap_or(0) < 20 {
                return Err(format!("helper {} observed fewer than 20 times", h));
            }
        }
        Ok(())
    }
}
