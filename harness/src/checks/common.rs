//! Oracles shared by several checks.

use crate::capi::{self, CVal, Notes, EK};
use crate::json::J;
use crate::model::{self, Class, MVal, Ty, Verdict};
use crate::mon::Ctx;
use crate::rcbor::hex;

pub enum Outcome {
    Accepted(CVal, MVal),
    Rejected,
    Unspecified,
    /// a violation was recorded
    Bad,
}

pub fn witness(ty: Ty, b: &[u8], extra: Vec<(&str, J)>) -> J {
    let mut v = vec![
        ("type", J::Str(ty.name())),
        ("hex", J::Str(if b.len() > 4096 { format!("{}...({} bytes)", hex(&b[..4096]), b.len()) } else { hex(b) })),
    ];
    v.extend(extra);
    J::obj(v)
}

/// "accepted iff the model accepts, and then every field equals the model's": the oracle of
/// C08 / C09 / C10 / C18 (and the acceptance half of several others).
/// `strict_kind`: the input is a valid one with exactly one planted fault, so the error kind is
/// comparable: a duplicate label must be reported as DuplicateMapKey and an integer outside the
/// supported range as OutOfRangeIntegerValue (except below COSE_Sign's signer array, where the
/// crate deliberately re-labels every nested failure).
pub fn decode_oracle(ctx: &mut Ctx, ty: Ty, b: &[u8], carrier: &str, strict_kind: bool) -> Outcome {
    decode_oracle_ex(ctx, ty, b, carrier, strict_kind, false)
}

/// Reference verdict for the *tagged* entry point: exactly one tag, the type's RFC 8152 number,
/// around an item the untagged model accepts.
pub fn model_tagged(ty: Ty, b: &[u8]) -> Verdict<MVal> {
    use crate::rcbor::{self, DecErr, Item};
    let rej = |rule: &'static str| Verdict::Reject(model::Rej { rule, class: Class::Other });
    match rcbor::decode_exact(b) {
        Ok((Item::Tag(t, inner), _)) => {
            if Some(t) != ty.tag() {
                return rej("tagged.wrong-tag");
            }
            model::decode(ty, &inner.normalize())
        }
        Ok(_) => rej("tagged.no-tag"),
        Err(DecErr::Trailing(_)) => rej("bytes.trailing"),
        Err(DecErr::Truncated) => rej("bytes.truncated"),
        Err(_) => rej("bytes.malformed"),
    }
}

pub fn decode_oracle_ex(ctx: &mut Ctx, ty: Ty, b: &[u8], carrier: &str, strict_kind: bool, tagged: bool) -> Outcome {
    ctx.eval();
    let verdict = if tagged { model_tagged(ty, b) } else { model::decode_bytes(ty, b) };
    let got = if tagged { capi::from_tagged_slice(ty, b) } else { capi::from_slice(ty, b) };
    let p = ctx.prop;
    match (verdict, got) {
        (Verdict::Unspecified(why), _) => {
            ctx.count(&format!("unspecified:{}", why));
            Outcome::Unspecified
        }
        (_, Err(EK::Panic(site))) => {
            ctx.violation(
                &format!("{}/panic/{}", p, site),
                format!("decoding {} panicked at {}", ty.name(), site),
                witness(ty, b, vec![("carrier", J::s(carrier))]),
            );
            Outcome::Bad
        }
        (Verdict::Accept(m), Ok(c)) => {
            ctx.count("accept");
            let mut notes = Notes(vec![]);
            let v = capi::view(&c, &mut notes);
            if !notes.0.is_empty() {
                ctx.violation(
                    &format!("{}/label-classification/{}", p, ty.name()),
                    format!("decoded value carries an inconsistent label: {}", notes.0.join("; ")),
                    witness(ty, b, vec![("carrier", J::s(carrier))]),
                );
                return Outcome::Bad;
            }
            match v {
                Some(v) if v == m => Outcome::Accepted(c, m),
                Some(v) => {
                    ctx.violation(
                        &format!("{}/field-mismatch/{}", p, ty.name()),
                        format!("accepted, but fields differ from the wire content: {}", diff_summary(&v, &m)),
                        witness(ty, b, vec![("carrier", J::s(carrier)), ("got", J::Str(trunc(format!("{:?}", v)))), ("want", J::Str(trunc(format!("{:?}", m))))]),
                    );
                    Outcome::Bad
                }
                None => Outcome::Bad,
            }
        }
        (Verdict::Accept(_), Err(k)) => {
            ctx.violation(
                &format!("{}/false-reject/{}/{}", p, ty.name(), k.name()),
                format!("a well-formed {} was rejected with {}", ty.name(), k.name()),
                witness(ty, b, vec![("carrier", J::s(carrier))]),
            );
            Outcome::Bad
        }
        (Verdict::Reject(r), Ok(_)) => {
            ctx.violation(
                &format!("{}/false-accept/{}/{}", p, ty.name(), r.rule),
                format!("an ill-formed {} was accepted (rule broken: {})", ty.name(), r.rule),
                witness(ty, b, vec![("carrier", J::s(carrier))]),
            );
            Outcome::Bad
        }
        (Verdict::Reject(r), Err(k)) => {
            ctx.count("reject");
            ctx.count(&format!("rule:{}", r.rule));
            ctx.count(&format!("errkind:{}", k.name()));
            if strict_kind && r.rule != "sign.signature-bad" {
                {
                    let want = match r.class {
                        Class::Dup => Some(EK::Dup),
                        Class::OutOfRange => Some(EK::OutOfRange),
                        Class::Other => None,
                    };
                    if let Some(w) = want {
                        if k != w {
                            ctx.violation(
                                &format!("{}/error-kind/{}/{}", p, ty.name(), r.rule),
                                format!("single fault {} must be reported as {}, got {}", r.rule, w.name(), k.name()),
                                witness(ty, b, vec![("carrier", J::s(carrier))]),
                            );
                            return Outcome::Bad;
                        }
                    }
                }
            }
            Outcome::Rejected
        }
    }
}

fn trunc(s: String) -> String {
    if s.len() > 1500 {
        format!("{}...", &s[..s.char_indices().take_while(|(i, _)| *i < 1500).last().map(|x| x.0).unwrap_or(0)])
    } else {
        s
    }
}

/// one-line description of where two model values differ (top-level field granularity)
pub fn diff_summary(got: &MVal, want: &MVal) -> String {
    let g = format!("{:?}", got);
    let w = format!("{:?}", want);
    let common = g.chars().zip(w.chars()).take_while(|(a, b)| a == b).count();
    let from = common.saturating_sub(40);
    let gs: String = g.chars().skip(from).take(120).collect();
    let ws: String = w.chars().skip(from).take(120).collect();
    format!("got ...{}... want ...{}...", gs, ws)
}

/// C11 / C18 encode oracle: a well-formed in-memory value encodes, to definite-length CBOR that an
/// independent parser reads as exactly the CDDL shape of the value, and decodes back to itself
/// (protected headers then carrying the bytes that encoding assigned).
pub fn encode_oracle(ctx: &mut Ctx, v: &MVal, how_built: &str) -> Option<Vec<u8>> {
    use crate::rcbor;
    let ty = v.ty();
    let p = ctx.prop;
    let c = match capi::build(v) {
        Some(c) => c,
        None => {
            ctx.count("not-expressible");
            return None;
        }
    };
    ctx.eval();
    let wit = |extra: Vec<(&str, J)>| {
        let mut o = vec![("type", J::Str(ty.name())), ("built", J::s(how_built)), ("value", J::Str(trunc(format!("{:?}", v))))];
        o.extend(extra);
        J::obj(o)
    };
    let bytes = match capi::to_vec(c.clone()) {
        Ok(b) => b,
        Err(k) => {
            ctx.violation(&format!("{}/encode-failed/{}/{}", p, ty.name(), k.name()), format!("encoding a well-formed {} failed with {}", ty.name(), k.name()), wit(vec![]));
            return None;
        }
    };
    let (got, info) = match rcbor::decode_exact(&bytes) {
        Ok(x) => x,
        Err(e) => {
            ctx.violation(&format!("{}/output-not-wellformed/{}", p, ty.name()), format!("to_vec output is not one well-formed CBOR item: {:?}", e), wit(vec![("hex", J::Str(hex(&bytes)))]));
            return None;
        }
    };
    if info.indefinite > 0 {
        ctx.violation(&format!("{}/indefinite-output/{}", p, ty.name()), "to_vec output contains indefinite-length items".into(), wit(vec![("hex", J::Str(hex(&bytes)))]));
    }
    if info.nonminimal_heads > 0 {
        ctx.count("output-with-nonminimal-head");
    }
    // key_ops is a set: its element order in the output is not part of the property
    let want = norm_key_ops(ty, &model::encode(v));
    let got = norm_key_ops(ty, &got);
    if got != want {
        ctx.violation(
            &format!("{}/shape/{}", p, ty.name()),
            format!("encoded structure differs from the CDDL shape of the value: got {} want {}", hex(&bytes), hex(&rcbor::det(&want))),
            wit(vec![("got", J::Str(hex(&bytes))), ("want", J::Str(hex(&rcbor::det(&want))))]),
        );
        return Some(bytes);
    }
    // decode(to_vec(v)) == v with assigned protected bytes
    let mut expect = v.clone();
    model::assign_prot_bytes(&mut expect);
    match capi::from_slice(ty, &bytes) {
        Ok(back) => {
            let mut notes = Notes(vec![]);
            match capi::view(&back, &mut notes) {
                Some(bv) if bv == expect && notes.0.is_empty() => {}
                Some(bv) => ctx.violation(&format!("{}/decode-of-encode-differs/{}", p, ty.name()), format!("decoding the encoding does not return the value: {} {}", diff_summary(&bv, &expect), notes.0.join(";")), wit(vec![("hex", J::Str(hex(&bytes)))])),
                None => {}
            }
        }
        Err(k) => {
            // values the decoder's own rules reject (e.g. empty signer list is fine, reserved kty is not
            // generated) - a well-formed value must decode
            ctx.violation(&format!("{}/encode-not-decodable/{}/{}", p, ty.name(), k.name()), format!("the encoding of a well-formed {} is rejected by the decoder with {}", ty.name(), k.name()), wit(vec![("hex", J::Str(hex(&bytes)))]));
        }
    }
    // tagged form: the registered tag applied once to the same bytes
    if let Some(tag) = ty.tag() {
        ctx.eval();
        match capi::to_tagged_vec(c) {
            Ok(tb) => {
                let mut want_tb = Vec::new();
                rcbor::put_head(&mut want_tb, 6, tag, &mut rcbor::Style::canonical());
                want_tb.extend_from_slice(&bytes);
                match rcbor::decode_exact(&tb) {
                    Ok((Item::Tag(t, inner), _)) if t == tag && rcbor::det(&inner) == rcbor::det(&got) => {
                        if tb != want_tb {
                            ctx.count("tagged-head-not-minimal");
                        }
                    }
                    _ => ctx.violation(&format!("{}/tagged-shape/{}", p, ty.name()), format!("to_tagged_vec is not tag {} applied once to the to_vec output", tag), wit(vec![("hex", J::Str(hex(&tb)))])),
                }
            }
            Err(k) => ctx.violation(&format!("{}/tagged-encode-failed/{}/{}", p, ty.name(), k.name()), "to_tagged_vec failed where to_vec succeeded".into(), wit(vec![])),
        }
    }
    Some(bytes)
}
use crate::rcbor::Item;

fn norm_key_ops(ty: Ty, it: &Item) -> Item {
    fn key(it: &Item) -> Item {
        match it {
            Item::Map(m) => Item::Map(
                m.iter()
                    .map(|(k, v)| {
                        if *k == Item::int(4) {
                            if let Item::Array(a) = v {
                                let mut a = a.clone();
                                a.sort_by_key(|x| crate::rcbor::det(x));
                                return (k.clone(), Item::Array(a));
                            }
                        }
                        (k.clone(), v.clone())
                    })
                    .collect(),
            ),
            x => x.clone(),
        }
    }
    match (ty, it) {
        (Ty::Key, m) => key(m),
        (Ty::KeySet, Item::Array(a)) => Item::Array(a.iter().map(key).collect()),
        (_, x) => x.clone(),
    }
}

/// C07 oracle on one accepted input.  Returns Err(description) when the input is not a one-step
/// fixed point or loses information.
pub fn fixed_point(ty: Ty, b: &[u8], tagged: bool) -> Result<Option<Vec<u8>>, (String, String)> {
    let dec = |x: &[u8]| if tagged { capi::from_tagged_slice(ty, x) } else { capi::from_slice(ty, x) };
    let enc = |v: CVal| if tagged { capi::to_tagged_vec(v) } else { capi::to_vec(v) };
    let v = match dec(b) {
        Ok(v) => v,
        Err(EK::Panic(s)) => return Err(("panic-in-decode".into(), format!("decoding panicked at {}", s))),
        Err(_) => return Ok(None),
    };
    let b1 = match enc(v.clone()) {
        Ok(x) => x,
        Err(k) => return Err(("reencode-failed".into(), format!("an accepted input decodes to a value that cannot be encoded ({})", k.name()))),
    };
    let v1 = match dec(&b1) {
        Ok(x) => x,
        Err(k) => return Err(("reencoding-rejected".into(), format!("the re-encoding {} is rejected with {}", hex(&b1), k.name()))),
    };
    let mut n = Notes(vec![]);
    let (m, m1) = (capi::view(&v, &mut n), capi::view(&v1, &mut n));
    if m != m1 {
        let d = match (&m, &m1) {
            (Some(a), Some(b)) => diff_summary(b, a),
            _ => "view failed".into(),
        };
        return Err(("value-changed".into(), format!("decode(encode(decode(b))) differs from decode(b): {} (b' = {})", d, hex(&b1))));
    }
    // "Nothing lost" includes every received protected-header byte string.  Where a type's fields
    // are private (the KDF context) the crate's own view cannot show them, so the two encodings are
    // also compared by the independent parser: same protected bytes at every position.
    {
        let md = |x: &[u8]| if tagged { model_tagged(ty, x) } else { model::decode_bytes(ty, x) };
        if let (Verdict::Accept(ma), Verdict::Accept(mb)) = (md(b), md(&b1)) {
            let (pa, pb) = (model::prot_positions(&ma), model::prot_positions(&mb));
            if pa != pb {
                let d = pa.iter().zip(pb.iter()).find(|(x, y)| x != y).map(|(x, y)| format!("{}: received {:?}, re-encoded {:?}", x.0, x.1.as_ref().map(|v| hex(v)), y.1.as_ref().map(|v| hex(v)))).unwrap_or_else(|| "different number of positions".into());
                return Err(("protected-bytes-changed".into(), format!("the re-encoding carries other protected-header bytes than were received: {} (b' = {})", d, hex(&b1))));
            }
        }
    }
    let b2 = match enc(v1) {
        Ok(x) => x,
        Err(k) => return Err(("second-encode-failed".into(), format!("second encoding failed with {}", k.name()))),
    };
    if b2 != b1 {
        // Miri gives the NaN produced by a float cast (f64 -> f16 when ciborium picks the shortest
        // float) a non-deterministic sign and payload, as the language semantics allow; hardware
        // does not. Under Miri only, two encodings that differ in NaN bits alone are the same.
        if cfg!(miri) && b2.len() == b1.len() && matches!((crate::rcbor::decode(&b1), crate::rcbor::decode(&b2)), (Ok(x), Ok(y)) if x == y) {
            return Ok(Some(b1));
        }
        return Err(("not-idempotent".into(), format!("encoding is not a fixed point after one step: b' = {} b'' = {}", hex(&b1), hex(&b2))));
    }
    Ok(Some(b1))
}

/// `fixed_point` plus known-finding attribution (P4): a failing input in which neutralising every
/// "tag 2/3 over an indefinite-length byte string" makes the oracle pass is given the known
/// signature; everything else keeps its own.
pub fn fixed_point_check(ctx: &mut Ctx, ty: Ty, b: &[u8], tagged: bool) -> bool {
    ctx.eval();
    match fixed_point(ty, b, tagged) {
        Ok(None) => false,
        Ok(Some(b1)) => {
            ctx.count("accepted");
            if b1 != b {
                ctx.nontrivial_bytes(b);
                ctx.count("accepted-noncanonical");
                ctx.sample(|| J::obj(vec![("type", J::Str(ty.name())), ("input", J::Str(hex(b))), ("reencoded", J::Str(hex(&b1))), ("outcome", J::s("fixed point after one step, value preserved"))]));
            }
            true
        }
        Err((class, detail)) => {
            let mut sig = format!("{}/{}/{}", ctx.prop, class, ty.name());
            if let Some((nb, true)) = crate::rcbor::neutralise_bignum_indefinite(b) {
                if let Ok(Some(_)) = fixed_point(ty, &nb, tagged) {
                    sig = "C07/tag2or3-over-indefinite-bstr-in-uninterpreted-value".to_string();
                }
            }
            ctx.violation(&sig, detail, witness(ty, b, vec![("tagged", J::Bool(tagged))]));
            true
        }
    }
}


// ---------------------------------------------------------------------------------------------
// Birthday workload: very many pairwise distinct labels in one map.
//
// A duplicate-label detector that remembers anything shorter than the label itself (a 32-bit
// fingerprint, a truncated integer, a length + checksum) will sooner or later report a duplicate
// that is not there - or, when it overwrites on a match, lose an entry.  With 2^18 labels of one
// shape a 32-bit key collides with probability > 0.999, a 36-bit key still with probability 0.4;
// 64-bit keys are out of reach of any black-box workload (that limit is stated in DESIGN.md).

use crate::model::MLabel;
use crate::rng::Rng;

/// kind 0: random 8-character texts; 1: random 64-bit integers (not 0..=7); 2: private-use integers
/// (< -65536); 3: texts of 1-12 characters
pub fn distinct_labels(r: &mut Rng, kind: u8, n: usize) -> Vec<MLabel> {
    let mut seen = std::collections::HashSet::with_capacity(n * 2);
    let mut out = Vec::with_capacity(n);
    const AL: &[u8] = b"abcdefghijklmnopqrstuvwxyz0123456789-_.";
    while out.len() < n {
        let l = match kind {
            0 | 3 => {
                let len = if kind == 0 { 8 } else { 1 + r.below(12) };
                MLabel::Text((0..len).map(|_| AL[r.below(AL.len())] as char).collect())
            }
            1 => {
                let v = r.next() as i64;
                if (0..=7).contains(&v) {
                    continue;
                }
                MLabel::Int(v)
            }
            _ => MLabel::Int(-65537 - (r.next() >> 2) as i64),
        };
        if seen.insert(l.clone()) {
            out.push(l);
        }
    }
    out
}

pub const BIRTHDAY_N: usize = 1 << 18;

/// One birthday case.  `which`: 0/1 header (text / integer labels), 2/3 key, 4/5 claims set (text /
/// private-use labels), 6 COSE_Sign1 whose protected header is the big map, 7/8 header encoded from
/// memory, 9/10 key encoded from memory.  Decode cases go through the accept-iff oracle (every entry
/// must come back, in order); encode cases through the output oracle.  Returns the wire bytes of the
/// decode cases (C07 runs its fixed-point oracle on them).
pub fn birthday_case(ctx: &mut Ctx, which: u64) -> Option<(Ty, Vec<u8>)> {
    use crate::model::{MClaims, MHeader, MKey, MSign1, MProt};
    use crate::rcbor::{self, Item};
    let kind: u8 = match which {
        0 | 2 | 4 | 6 | 7 | 9 => 0,
        5 => 2,
        _ => 1,
    };
    let labels = distinct_labels(&mut ctx.rng, kind, BIRTHDAY_N);
    let rest: Vec<(MLabel, Item)> = labels.into_iter().enumerate().map(|(i, l)| (l, Item::Int((i % 20) as i128))).collect();
    ctx.count("birthday-cases");
    ctx.add("birthday-labels", rest.len() as u64);
    let v = match which {
        0 | 1 | 7 | 8 => MVal::Header(MHeader { rest, ..Default::default() }),
        2 | 3 | 9 | 10 => MVal::Key(MKey { kty: MLabel::Int(4), kid: vec![], alg: None, key_ops: vec![], base_iv: vec![], params: rest.into_iter().filter(|(l, _)| !matches!(l, MLabel::Int(i) if (0..=5).contains(i))).collect() }),
        4 | 5 => MVal::Claims(MClaims { rest, ..Default::default() }),
        _ => {
            let h = MHeader { rest, ..Default::default() };
            let bytes = rcbor::det(&model::enc_header(&h));
            MVal::Sign1(MSign1 { prot: MProt { bytes: Some(bytes), header: h }, unprot: MHeader::default(), payload: Some(vec![1]), sig: vec![2] })
        }
    };
    if which >= 7 {
        if let Some(b) = encode_oracle(ctx, &v, "struct literal with 2^18 distinct extra labels") {
            ctx.nontrivial_bytes(&b[..b.len().min(4096)]);
        }
        return None;
    }
    let ty = v.ty();
    let bytes = rcbor::det(&model::encode(&v));
    ctx.nontrivial_bytes(&bytes[..4096]);
    decode_oracle(ctx, ty, &bytes, "2^18 distinct labels", true);
    Some((ty, bytes))
}


/// Relation used by C09 (and by C02 for the retained bytes' sake): a recipient whose protected header
/// holds a chain of 0-10 counter signatures must be accepted or rejected alike under 0-13 enclosing
/// recipient layers of a COSE_recipient / COSE_Encrypt / COSE_Mac.  `idx` in 0..55: chain length x form.
pub fn layering_relation_case(ctx: &mut Ctx, idx: u64) {
                use crate::capi;
                use crate::hostile;
                use crate::model::Ty;
                let c = (idx % 11) as usize;
                let form = (idx / 11) as u8;
                let chain = if c == 0 { vec![0xa1, 0x04, 0x41, 0x11] } else { hostile::b1_header(c, form) };
                let mut verdicts: Vec<(usize, &'static str, bool)> = Vec::new();
                for r in 0..=13usize {
                    let rcp = hostile::b3_recipient(r, &chain);
                    let mut enc = vec![0x84, 0x40, 0xa0, 0xf6, 0x81];
                    enc.extend_from_slice(&rcp);
                    let mut mac = vec![0x85, 0x40, 0xa0, 0x41, 0x00, 0x40, 0x81];
                    mac.extend_from_slice(&rcp);
                    for (ty, name, b) in [(Ty::Recipient, "COSE_recipient", &rcp), (Ty::Encrypt, "COSE_Encrypt", &enc), (Ty::Mac, "COSE_Mac", &mac)] {
                        ctx.eval();
                        ctx.nontrivial_bytes(b);
                        match capi::from_slice(ty, b) {
                            Ok(_) => verdicts.push((r, name, true)),
                            Err(capi::EK::Panic(s)) => ctx.violation(&format!("{}/panic/{}", ctx.prop, s), format!("decoding panicked at {}", s), crate::json::J::obj(vec![("hex", crate::json::J::Str(crate::rcbor::hex(b)))])),
                            Err(_) => verdicts.push((r, name, false)),
                        }
                    }
                }
                // reference: the same header on a recipient that nothing encloses
                let base = verdicts.iter().find(|v| v.0 == 0 && v.1 == "COSE_recipient").map(|v| v.2);
                if let Some(base) = base {
                    ctx.count(if base { "layered-chain-accepted" } else { "layered-chain-rejected" });
                    for (r, name, ok) in &verdicts {
                        if *ok != base {
                            ctx.violation(
                                &format!("{}/recipient-layering-changes-acceptance/{}", ctx.prop, name),
                                format!("a recipient whose protected header holds a chain of {} counter signature(s) (form {}) is {} on its own but {} when {} recipient layer(s) of a {} enclose it", c, form, if base { "accepted" } else { "rejected" }, if *ok { "accepted" } else { "rejected" }, r, name),
                                crate::json::J::obj(vec![("chain_length", crate::json::J::UInt(c as u64)), ("layers", crate::json::J::UInt(*r as u64)), ("form", crate::json::J::UInt(form as u64))]),
                            );
                            break;
                        }
                    }
                }
            }
