//! Oracles shared by several checks.

use crate::capi::{self, CVal, Notes, EK};
use crate::json::J;
use crate::model::{self, Class, MVal, Ty, Verdict};
use crate::mon::Ctx;
use crate::rcbor::hex;

pub enum Outcome {
    Accepted(CVal, MVal),
    Rejected,
    Unspecified,
    /// a violation was recorded
    Bad,
}

pub fn witness(ty: Ty, b: &[u8], extra: Vec<(&str, J)>) -> J {
    let mut v = vec![
        ("type", J::Str(ty.name())),
        ("hex", J::Str(if b.len() > 4096 { format!("{}...({} bytes)", hex(&b[..4096]), b.len()) } else { hex(b) })),
    ];
    v.extend(extra);
    J::obj(v)
}

/// "accepted iff the model accepts, and then every field equals the model's": the oracle of
/// C08 / C09 / C10 / C18 (and the acceptance half of several others).
/// `strict_kind`: the input is a valid one with exactly one planted fault, so the error kind is
/// comparable: a duplicate label must be reported as DuplicateMapKey and an integer outside the
/// supported range as OutOfRangeIntegerValue (except below COSE_Sign's signer array, where the
/// crate deliberately re-labels every nested failure).
pub fn decode_oracle(ctx: &mut Ctx, ty: Ty, b: &[u8], carrier: &str, strict_kind: bool) -> Outcome {
    ctx.eval();
    let verdict = model::decode_bytes(ty, b);
    let got = capi::from_slice(ty, b);
    let p = ctx.prop;
    match (verdict, got) {
        (Verdict::Unspecified(why), _) => {
            ctx.count(&format!("unspecified:{}", why));
            Outcome::Unspecified
        }
        (_, Err(EK::Panic(site))) => {
            ctx.violation(
                &format!("{}/panic/{}", p, site),
                format!("decoding {} panicked at {}", ty.name(), site),
                witness(ty, b, vec![("carrier", J::s(carrier))]),
            );
            Outcome::Bad
        }
        (Verdict::Accept(m), Ok(c)) => {
            ctx.count("accept");
            let mut notes = Notes(vec![]);
            let v = capi::view(&c, &mut notes);
            if !notes.0.is_empty() {
                ctx.violation(
                    &format!("{}/label-classification/{}", p, ty.name()),
                    format!("decoded value carries an inconsistent label: {}", notes.0.join("; ")),
                    witness(ty, b, vec![("carrier", J::s(carrier))]),
                );
                return Outcome::Bad;
            }
            match v {
                Some(v) if v == m => Outcome::Accepted(c, m),
                Some(v) => {
                    ctx.violation(
                        &format!("{}/field-mismatch/{}", p, ty.name()),
                        format!("accepted, but fields differ from the wire content: {}", diff_summary(&v, &m)),
                        witness(ty, b, vec![("carrier", J::s(carrier)), ("got", J::Str(trunc(format!("{:?}", v)))), ("want", J::Str(trunc(format!("{:?}", m))))]),
                    );
                    Outcome::Bad
                }
                None => Outcome::Bad,
            }
        }
        (Verdict::Accept(_), Err(k)) => {
            ctx.violation(
                &format!("{}/false-reject/{}/{}", p, ty.name(), k.name()),
                format!("a well-formed {} was rejected with {}", ty.name(), k.name()),
                witness(ty, b, vec![("carrier", J::s(carrier))]),
            );
            Outcome::Bad
        }
        (Verdict::Reject(r), Ok(_)) => {
            ctx.violation(
                &format!("{}/false-accept/{}/{}", p, ty.name(), r.rule),
                format!("an ill-formed {} was accepted (rule broken: {})", ty.name(), r.rule),
                witness(ty, b, vec![("carrier", J::s(carrier))]),
            );
            Outcome::Bad
        }
        (Verdict::Reject(r), Err(k)) => {
            ctx.count("reject");
            ctx.count(&format!("rule:{}", r.rule));
            ctx.count(&format!("errkind:{}", k.name()));
            if strict_kind && r.rule != "sign.signature-bad" {
                {
                    let want = match r.class {
                        Class::Dup => Some(EK::Dup),
                        Class::OutOfRange => Some(EK::OutOfRange),
                        Class::Other => None,
                    };
                    if let Some(w) = want {
                        if k != w {
                            ctx.violation(
                                &format!("{}/error-kind/{}/{}", p, ty.name(), r.rule),
                                format!("single fault {} must be reported as {}, got {}", r.rule, w.name(), k.name()),
                                witness(ty, b, vec![("carrier", J::s(carrier))]),
                            );
                            return Outcome::Bad;
                        }
                    }
                }
            }
            Outcome::Rejected
        }
    }
}

fn trunc(s: String) -> String {
    if s.len() > 1500 {
        format!("{}...", &s[..s.char_indices().take_while(|(i, _)| *i < 1500).last().map(|x| x.0).unwrap_or(0)])
    } else {
        s
    }
}

/// one-line description of where two model values differ (top-level field granularity)
pub fn diff_summary(got: &MVal, want: &MVal) -> String {
    let g = format!("{:?}", got);
    let w = format!("{:?}", want);
    let common = g.chars().zip(w.chars()).take_while(|(a, b)| a == b).count();
    let from = common.saturating_sub(40);
    let gs: String = g.chars().skip(from).take(120).collect();
    let ws: String = w.chars().skip(from).take(120).collect();
    format!("got ...{}... want ...{}...", gs, ws)
}
