//! C13 - an accepted input is exactly one CBOR item; byte and Value APIs agree.

use super::c07::{all_types, corpus};
use crate::capi::{self, Notes, EK};
use crate::gen::{self, GenOpts};
use crate::json::J;
use crate::model::{self, MVal, MProt, Ty, MSG_TYPES, STRUCT_TYPES, TAGGED_TYPES};
use crate::mon::{scale, Check, Ctx, Phase, Tier};
use crate::rcbor::{self, hex, Item, Style};
use coset::cbor::value::Value;

pub struct C13;

fn dec(ty: Ty, b: &[u8], tagged: bool) -> capi::CR<capi::CVal> {
    if tagged {
        capi::from_tagged_slice(ty, b)
    } else {
        capi::from_slice(ty, b)
    }
}

/// from_slice(x) must equal from_cbor_value(parse(x)) (with the parser required to consume all of x)
fn api_agreement(ctx: &mut Ctx, ty: Ty, x: &[u8]) {
    ctx.eval();
    let a = capi::from_slice(ty, x);
    let b = match capi::ciborium_parse_exact(x) {
        Ok(v) => capi::from_value(ty, v),
        Err(_) => Err(EK::Decode),
    };
    let same = match (&a, &b) {
        (Ok(x), Ok(y)) => {
            let mut n = Notes(vec![]);
            capi::view(x, &mut n) == capi::view(y, &mut n)
        }
        (Err(_), Err(_)) => true,
        _ => false,
    };
    if !same {
        ctx.violation(
            &format!("C13/api-layers-disagree/decode/{}", ty.name()),
            format!("from_slice: {} ; from_cbor_value(parse): {}", a.as_ref().map(|_| "Ok".to_string()).unwrap_or_else(|e| e.name()), b.as_ref().map(|_| "Ok".to_string()).unwrap_or_else(|e| e.name())),
            J::obj(vec![("type", J::Str(ty.name())), ("hex", J::Str(hex(x)))]),
        );
    }
}

/// from_tagged_slice(x) must equal: parse(x), take the registered tag off, from_cbor_value
fn tagged_agreement(ctx: &mut Ctx, ty: Ty, x: &[u8]) {
    ctx.eval();
    let a = capi::from_tagged_slice(ty, x);
    let b = match capi::ciborium_parse_exact(x) {
        Ok(Value::Tag(n, inner)) if n == capi::crate_tag(ty) => capi::from_value(ty, *inner),
        _ => Err(EK::Unexpected),
    };
    let same = match (&a, &b) {
        (Ok(x), Ok(y)) => {
            let mut n = Notes(vec![]);
            capi::view(x, &mut n) == capi::view(y, &mut n)
        }
        (Err(_), Err(_)) => true,
        _ => false,
    };
    if !same {
        ctx.violation(
            &format!("C13/api-layers-disagree/tagged-decode/{}", ty.name()),
            format!("from_tagged_slice {} but parse + tag check + from_cbor_value {}", if a.is_ok() { "accepts" } else { "rejects" }, if b.is_ok() { "accepts" } else { "rejects" }),
            J::obj(vec![("type", J::Str(ty.name())), ("hex", J::Str(if x.len() > 2048 { format!("{}...({} bytes)", hex(&x[..2048]), x.len()) } else { hex(x) }))]),
        );
    }
}

/// tag heads an implementation might skip as "transparent", in every legal width
fn tag_prefixes() -> Vec<Vec<u8>> {
    let mut out = Vec::new();
    for tag in [55799u64, 24, 0, 1, 2, 3, 16, 17, 18, 61, 96, 97, 98, 256, 65536, u64::MAX] {
        for width in 0..5u8 {
            let mut x: Vec<u8> = Vec::new();
            match width {
                0 if tag < 24 => x.push(0xc0 | tag as u8),
                1 if tag < 256 => x.extend_from_slice(&[0xd8, tag as u8]),
                2 if tag < 65536 => {
                    x.push(0xd9);
                    x.extend_from_slice(&(tag as u16).to_be_bytes());
                }
                3 if tag <= u32::MAX as u64 => {
                    x.push(0xda);
                    x.extend_from_slice(&(tag as u32).to_be_bytes());
                }
                4 => {
                    x.push(0xdb);
                    x.extend_from_slice(&tag.to_be_bytes());
                }
                _ => continue,
            }
            out.push(x);
        }
    }
    out
}

/// all prefix / suffix obligations for one accepted input
fn one_item_only(ctx: &mut Ctx, ty: Ty, b: &[u8], tagged: bool) {
    ctx.nontrivial_bytes(b);
    ctx.count("accepted-inputs");
    let tname = if tagged { format!("{}(tagged)", ty.name()) } else { ty.name() };
    // proper prefixes
    let ks: Vec<usize> = if b.len() <= 1536 {
        (0..b.len()).collect()
    } else {
        let mut v: Vec<usize> = (0..64).collect();
        v.extend(b.len() - 64..b.len());
        for _ in 0..512 {
            v.push(ctx.rng.below(b.len()));
        }
        v
    };
    for k in ks {
        ctx.eval();
        ctx.count("prefixes");
        match dec(ty, &b[..k], tagged) {
            Err(EK::Panic(s)) => ctx.violation(&format!("C13/panic/{}", s), format!("decoding a prefix panicked at {}", s), J::obj(vec![("type", J::Str(tname.clone())), ("hex", J::Str(hex(&b[..k])))])),
            Err(_) => {}
            Ok(_) => ctx.violation(
                &format!("C13/prefix-accepted/{}", tname),
                format!("a proper prefix ({} of {} bytes) of an accepted input is accepted", k, b.len()),
                J::obj(vec![("type", J::Str(tname.clone())), ("input", J::Str(hex(b))), ("cut", J::UInt(k as u64))]),
            ),
        }
        if !tagged {
            api_agreement(ctx, ty, &b[..k]);
        }
    }
    // suffixes
    let mut suffixes: Vec<Vec<u8>> = (0..=255u8).map(|x| vec![x]).collect();
    suffixes.push(b.to_vec());
    suffixes.push(vec![0xa0]);
    suffixes.push(vec![0xff]);
    suffixes.push(rcbor::det(&gen::random_item(&mut ctx.rng, 2)));
    for _ in 0..4 {
        let n = 1 + ctx.rng.below(64);
        suffixes.push(ctx.rng.bytes(n));
    }
    suffixes.push(vec![0x18]);
    suffixes.push(vec![0x5f]);
    suffixes.push(vec![0x9f, 0x01]);
    for s in suffixes {
        ctx.eval();
        ctx.count("suffixes");
        let mut x = b.to_vec();
        x.extend_from_slice(&s);
        match dec(ty, &x, tagged) {
            Err(EK::Extraneous) => {}
            Err(k) => ctx.violation(
                &format!("C13/suffix-wrong-error/{}/{}", tname, k.name()),
                format!("accepted input followed by {} extra byte(s) is rejected with {} instead of ExtraneousData", s.len(), k.name()),
                J::obj(vec![("type", J::Str(tname.clone())), ("input", J::Str(hex(b))), ("suffix", J::Str(hex(&s)))]),
            ),
            Ok(_) => ctx.violation(
                &format!("C13/suffix-accepted/{}", tname),
                format!("accepted input followed by {} extra byte(s) is still accepted", s.len()),
                J::obj(vec![("type", J::Str(tname.clone())), ("input", J::Str(hex(b))), ("suffix", J::Str(hex(&s)))]),
            ),
        }
        if !tagged && s.len() == 1 && s[0] % 16 == 0 {
            api_agreement(ctx, ty, &x);
        }
    }
    if !tagged {
        api_agreement(ctx, ty, b);
        if ty.tag().is_some() {
            // the untagged encoding offered to the tagged entry point, through both layers
            tagged_agreement(ctx, ty, b);
        }
    } else {
        tagged_agreement(ctx, ty, b);
    }
    // the accepted input embedded in a byte string, bare and under tag 24 ("encoded CBOR data item")
    if b.len() <= 4096 {
        let mut e = Vec::new();
        rcbor::put_head(&mut e, 2, b.len() as u64, &mut Style::canonical());
        e.extend_from_slice(b);
        let mut t24 = vec![0xd8, 0x18];
        t24.extend_from_slice(&e);
        for x in [e, t24] {
            ctx.count("embedded");
            if tagged {
                tagged_agreement(ctx, ty, &x);
            } else {
                api_agreement(ctx, ty, &x);
                if ty.tag().is_some() {
                    tagged_agreement(ctx, ty, &x);
                }
            }
        }
    }
    // the accepted input behind a tag head (every width): both layers must still say the same
    if b.len() <= 4096 {
        for pre in tag_prefixes() {
            ctx.count("tag-prefixed");
            let mut x = pre;
            x.extend_from_slice(b);
            if tagged {
                tagged_agreement(ctx, ty, &x);
            } else {
                api_agreement(ctx, ty, &x);
                if ty.tag().is_some() {
                    tagged_agreement(ctx, ty, &x);
                }
            }
        }
    }
}

/// the same discipline for the map inside a protected bstr (slot 0 of every message structure,
/// slot 1 of SuppPubInfo)
fn protected_discipline(ctx: &mut Ctx, ty: Ty, b: &[u8]) {
    let it = match rcbor::decode(b) {
        Ok(Item::Array(a)) => a,
        _ => return,
    };
    let slot = if ty == Ty::SuppPub { 1 } else { 0 };
    let p = match it.get(slot) {
        Some(Item::Bytes(p)) if !p.is_empty() => p.clone(),
        _ => return,
    };
    // every truncation offset for headers up to 2 KiB; beyond that the first and last 64 offsets and
    // 256 random ones (the work per variant is linear in the header's length)
    let cuts: Vec<usize> = if p.len() <= 2048 {
        (1..p.len()).collect()
    } else {
        let mut v: Vec<usize> = (1..65).collect();
        v.extend(p.len() - 64..p.len());
        for _ in 0..256 {
            v.push(1 + ctx.rng.below(p.len() - 1));
        }
        v
    };
    let suffixes: Vec<Vec<u8>> = vec![vec![0x00u8], vec![0xa0], vec![0xff], vec![0x40], p.clone(), vec![0xf6], vec![0x18], ctx.rng.bytes(3)];
    let nvariants = cuts.len() + suffixes.len();
    for vi in 0..nvariants {
        let (what, np) = if vi < cuts.len() {
            let k = cuts[vi];
            (format!("protected truncated to {} of {}", k, p.len()), p[..k].to_vec())
        } else {
            let s = &suffixes[vi - cuts.len()];
            let mut x = p.clone();
            x.extend_from_slice(s);
            (format!("protected followed by {}", hex(&s[..s.len().min(16)])), x)
        };
        ctx.eval();
        ctx.count("protected-variants");
        let mut a = it.clone();
        a[slot] = Item::Bytes(np);
        let nb = rcbor::det(&Item::Array(a));
        match capi::from_slice(ty, &nb) {
            Err(EK::Panic(s)) => ctx.violation(&format!("C13/panic/{}", s), format!("panic at {}", s), J::obj(vec![("hex", J::Str(hex(&nb)))])),
            Err(_) => {}
            Ok(_) => ctx.violation(
                &format!("C13/protected-not-one-item/{}", ty.name()),
                format!("accepted although the protected byte string is not exactly one item: {}", what),
                J::obj(vec![("type", J::Str(ty.name())), ("hex", J::Str(hex(&nb)))]),
            ),
        }
    }
}

/// encode direction: to_vec(v) == serialise(to_cbor_value(v)); to_tagged_vec(v) == serialise(Tag(TAG, ..))
fn encode_agreement(ctx: &mut Ctx, v: &MVal) {
    let c = match capi::build(v) {
        Some(c) => c,
        None => return,
    };
    let ty = v.ty();
    ctx.eval();
    let a = capi::to_vec(c.clone());
    let val = capi::to_value(c.clone());
    let b = match &val {
        Ok(v) => capi::ciborium_serialize(v).map_err(|_| EK::Encode),
        Err(k) => Err(k.clone()),
    };
    let same = match (&a, &b) {
        (Ok(x), Ok(y)) => x == y,
        (Err(_), Err(_)) => true,
        _ => false,
    };
    if !same {
        ctx.violation(
            &format!("C13/api-layers-disagree/encode/{}", ty.name()),
            format!("to_vec: {} ; serialise(to_cbor_value): {}", a.as_ref().map(|x| hex(x)).unwrap_or_else(|e| e.name()), b.as_ref().map(|x| hex(x)).unwrap_or_else(|e| e.name())),
            J::obj(vec![("type", J::Str(ty.name())), ("value", J::Str(format!("{:?}", v).chars().take(600).collect()))]),
        );
    } else if let Ok(x) = &a {
        ctx.nontrivial_bytes(x);
    }
    if let (Some(tag), Ok(val)) = (ty.tag(), &val) {
        ctx.eval();
        let t = capi::to_tagged_vec(c);
        let w = capi::ciborium_serialize(&Value::Tag(tag, Box::new(val.clone())));
        if t.as_ref().ok() != w.as_ref().ok() {
            ctx.violation(&format!("C13/api-layers-disagree/encode-tagged/{}", ty.name()), "to_tagged_vec differs from serialise(Tag(TAG, to_cbor_value))".into(), J::obj(vec![("type", J::Str(ty.name()))]));
        }
    }
}

impl Check for C13 {
    fn id(&self) -> &'static str {
        "C13"
    }
    fn phases(&self, tier: Tier, b: f64) -> Vec<Phase> {
        let q = tier == Tier::Quick;
        vec![
            Phase { name: "generated accepted inputs of every type: all prefixes, 270 suffixes, API agreement", cases: scale(if q { 3000 } else { 120000 }, b), exhaustive: false },
            Phase { name: "test-suite vectors accepted by any entry point (incl. tagged)", cases: corpus().len() as u64, exhaustive: true },
            Phase { name: "protected byte string: every truncation and 8 suffixes, in every message type and SuppPubInfo", cases: scale(if q { 3000 } else { 100000 }, b), exhaustive: false },
            Phase { name: "API agreement on mutated / rejected inputs", cases: scale(if q { 20000 } else { 600000 }, b), exhaustive: false },
            Phase { name: "encode direction: to_vec vs serialise(to_cbor_value), tagged likewise", cases: scale(if q { 20000 } else { 600000 }, b), exhaustive: false },
            Phase { name: "all byte strings of length <= 2: API agreement at every entry point", cases: 65536 + 256 + 1, exhaustive: true },
            Phase { name: "boundaries: CBOR nesting depth 240-262 in an extra value (both API layers), inputs of 1 MiB +- 1 and 2 MiB with suffixes, tagged API agreement incl. tag numbers aliasing under truncation, inputs of 4 MiB +- 1, 8 MiB and 16 MiB with a few suffixes and prefixes", cases: 23 + 4 + 6 + 6, exhaustive: true },
        ]
    }
    fn run_case(&self, ctx: &mut Ctx, phase: usize, idx: u64) {
        match phase {
            0 => {
                let types = all_types();
                let ty = types[(idx % types.len() as u64) as usize];
                let v = gen::gen_mval(&mut ctx.rng, ty, &GenOpts::wire());
                let bytes = rcbor::encode(&model::encode(&v), &mut Style::random(ctx.rng.next()));
                if capi::from_slice(ty, &bytes).is_ok() {
                    one_item_only(ctx, ty, &bytes, false);
                    ctx.sample(|| J::obj(vec![("type", J::Str(ty.name())), ("accepted_input", J::Str(hex(&bytes))), ("checked", J::s("every proper prefix rejected; 270 suffixed forms rejected with ExtraneousData; from_slice == from_cbor_value(parse)"))]));
                } else {
                    ctx.count("generated-but-rejected");
                }
                if let Some(tag) = ty.tag() {
                    let mut tb = Vec::new();
                    rcbor::put_head(&mut tb, 6, tag, &mut Style::random(ctx.rng.next()));
                    tb.extend_from_slice(&bytes);
                    if capi::from_tagged_slice(ty, &tb).is_ok() {
                        one_item_only(ctx, ty, &tb, true);
                    }
                }
            }
            1 => {
                let c = corpus();
                let b = &c[idx as usize];
                for ty in all_types() {
                    if capi::from_slice(ty, b).is_ok() {
                        one_item_only(ctx, ty, b, false);
                        protected_discipline(ctx, ty, b);
                    } else {
                        api_agreement(ctx, ty, b);
                    }
                }
                for ty in TAGGED_TYPES {
                    if capi::from_tagged_slice(ty, b).is_ok() {
                        one_item_only(ctx, ty, b, true);
                    }
                }
            }
            2 => {
                let mut tys = MSG_TYPES.to_vec();
                tys.push(Ty::SuppPub);
                let ty = tys[(idx % tys.len() as u64) as usize];
                let v = gen::gen_mval(&mut ctx.rng, ty, &GenOpts::wire());
                let bytes = rcbor::det(&model::encode(&v));
                if capi::from_slice(ty, &bytes).is_ok() {
                    ctx.nontrivial_bytes(&bytes);
                    protected_discipline(ctx, ty, &bytes);
                }
            }
            3 => {
                let ty = STRUCT_TYPES[(idx % 16) as usize];
                let v = gen::gen_mval(&mut ctx.rng, ty, &GenOpts::wire());
                let it = gen::mutate_item(&mut ctx.rng, &model::encode(&v));
                let mut bytes = rcbor::encode(&it, &mut Style::random(ctx.rng.next()));
                if ctx.rng.coin() {
                    bytes = gen::mutate_bytes(&mut ctx.rng, &bytes, &[0xa0, 0x01]);
                }
                ctx.nontrivial_bytes(&bytes);
                for t in STRUCT_TYPES {
                    api_agreement(ctx, t, &bytes);
                }
            }
            4 => {
                let types = all_types();
                let ty = types[(idx % types.len() as u64) as usize];
                let o = if ctx.rng.coin() { GenOpts::built() } else { GenOpts::wire() };
                let mut v = gen::gen_mval(&mut ctx.rng, ty, &o);
                if let MVal::ProtMap(p) = &mut v {
                    // a ProtectedHeader as found inside a decoded message: it carries (non-canonical)
                    // wire bytes; its own to_vec must still be the serialisation of its Value form
                    if ctx.rng.coin() {
                        *p = MProt { bytes: Some(gen::prot_bytes(&mut ctx.rng, &p.header, 255)), header: p.header.clone() };
                    }
                }
                if ctx.rng.chance(1, 5) {
                    // NaNs with a payload, a sign or the signalling pattern: both layers must write the
                    // same bytes for them, whatever those are
                    let nan = Item::Float(f64::from_bits(*ctx.rng.pick(&[0x7ff8_0000_0000_0001u64, 0xfff8_0000_0000_0000, 0x7ff0_0000_0000_0001, 0x7ffc_0000_0000_0000, 0x7ff8_0000_2000_0000, 0x7ff8_0400_0000_0000, 0xfff4_0000_0000_0000])));
                    match &mut v {
                        MVal::Header(h) => h.rest.push((crate::model::MLabel::Int(-70002), nan)),
                        MVal::Claims(c) => {
                            if ctx.rng.coin() {
                                c.exp = Some(crate::model::MTime::Float(nan));
                            } else {
                                c.rest.push((crate::model::MLabel::Int(-70002), Item::Array(vec![nan])));
                            }
                        }
                        MVal::Key(k) => k.params.push((crate::model::MLabel::Int(-70002), nan)),
                        MVal::Sign1(m) => m.unprot.rest.push((crate::model::MLabel::Int(-70002), nan)),
                        MVal::Mac0(m) => {
                            if m.prot.bytes.is_none() {
                                m.prot.header.rest.push((crate::model::MLabel::Int(-70002), nan));
                            }
                        }
                        MVal::Encrypt0(m) => m.unprot.rest.push((crate::model::MLabel::Text("nan".into()), nan)),
                        _ => {}
                    }
                    ctx.count("encode-agreement-with-nan-payload");
                }
                encode_agreement(ctx, &v);
            }
            6 => {
                if idx < 23 {
                    let d = 240 + idx as usize;
                    for kind in 0..3u8 {
                        let mut h = vec![0xa1, 0x0a];
                        h.extend_from_slice(&crate::hostile::b4_nested(d, kind));
                        ctx.nontrivial_bytes(&h);
                        for ty in [Ty::Header, Ty::ProtMap, Ty::Key, Ty::Claims] {
                            api_agreement(ctx, ty, &h);
                        }
                        let (ty, m) = crate::hostile::carry_header(2, &h);
                        api_agreement(ctx, ty, &m);
                        if capi::from_slice(ty, &m).is_ok() {
                            ctx.count("deep-accepted");
                        }
                        // the same depth inside each taggable message, behind its tag in every width:
                        // the tag costs the parser one nesting level in both layers alike
                        for ty in TAGGED_TYPES {
                            let sub = Item::Array(vec![Item::Bytes(vec![]), Item::Map(vec![]), Item::Bytes(vec![])]);
                            let mut slots = vec![Item::Bytes(vec![]), Item::Map(vec![])];
                            match ty {
                                Ty::Sign => slots.extend([Item::Bytes(vec![1]), Item::Array(vec![sub])]),
                                Ty::Sign1 | Ty::Mac0 => slots.extend([Item::Bytes(vec![1]), Item::Bytes(vec![2])]),
                                Ty::Encrypt => slots.extend([Item::Bytes(vec![1]), Item::Array(vec![sub])]),
                                Ty::Encrypt0 => slots.extend([Item::Bytes(vec![1])]),
                                _ => slots.extend([Item::Bytes(vec![1]), Item::Bytes(vec![2]), Item::Array(vec![sub])]),
                            }
                            // splice the deep header in as the unprotected slot (bytes, not an Item: the
                            // reference parser has its own depth limit)
                            let shell = rcbor::det(&Item::Array(slots));
                            let pos = shell.iter().position(|x| *x == 0xa0).unwrap();
                            let mut body = shell[..pos].to_vec();
                            body.extend_from_slice(&h);
                            body.extend_from_slice(&shell[pos + 1..]);
                            api_agreement(ctx, ty, &body);
                            let t = ty.tag().unwrap();
                            for width in 0..5u8 {
                                let mut x: Vec<u8> = Vec::new();
                                match width {
                                    0 if t < 24 => x.push(0xc0 | t as u8),
                                    0 => x.extend_from_slice(&[0xd8, t as u8]),
                                    1 if t < 24 => x.extend_from_slice(&[0xd8, t as u8]),
                                    2 => {
                                        x.push(0xd9);
                                        x.extend_from_slice(&(t as u16).to_be_bytes());
                                    }
                                    3 => {
                                        x.push(0xda);
                                        x.extend_from_slice(&(t as u32).to_be_bytes());
                                    }
                                    4 => {
                                        x.push(0xdb);
                                        x.extend_from_slice(&t.to_be_bytes());
                                    }
                                    _ => continue,
                                }
                                x.extend_from_slice(&body);
                                ctx.count("deep-tagged");
                                tagged_agreement(ctx, ty, &x);
                                if capi::from_tagged_slice(ty, &x).is_ok() {
                                    ctx.count("deep-tagged-accepted");
                                }
                            }
                        }
                    }
                } else if idx >= 33 {
                    // beyond 2 MiB: a few suffixes and prefixes only (each decode costs milliseconds)
                    let n = [(4usize << 20) - 1, 4 << 20, (4 << 20) + 1, 8 << 20, 16 << 20, (16 << 20) + 7][(idx - 33) as usize];
                    let mut b = vec![0x84, 0x40, 0xa0];
                    rcbor::put_head(&mut b, 2, n as u64, &mut Style::canonical());
                    b.extend(std::iter::repeat(0x33).take(n));
                    b.push(0x40);
                    ctx.nontrivial(n as u64 ^ 0x1306);
                    if capi::from_slice(Ty::Sign1, &b).is_err() {
                        ctx.harness_errors.push("C13: large Sign1 not accepted".into());
                        return;
                    }
                    ctx.count("accepted-inputs");
                    for suffix in [vec![0x00u8], vec![0xff], vec![0x40], vec![0xa0, 0xa0]] {
                        ctx.eval();
                        let mut x = b.clone();
                        x.extend_from_slice(&suffix);
                        match capi::from_slice(Ty::Sign1, &x) {
                            Err(EK::Extraneous) => {}
                            Err(k) => ctx.violation(&format!("C13/suffix-wrong-error/Sign1/{}", k.name()), format!("a {}-byte accepted input followed by {} extra byte(s) is rejected with {} instead of ExtraneousData", b.len(), suffix.len(), k.name()), J::obj(vec![("bytes", J::UInt(b.len() as u64))])),
                            Ok(_) => ctx.violation("C13/suffix-accepted/Sign1", format!("a {}-byte accepted input followed by {} extra byte(s) is still accepted", b.len(), suffix.len()), J::obj(vec![("bytes", J::UInt(b.len() as u64))])),
                        }
                        let mut tx = vec![0xd2];
                        tx.extend_from_slice(&x);
                        ctx.eval();
                        if capi::from_tagged_slice(Ty::Sign1, &tx).is_ok() {
                            ctx.violation("C13/suffix-accepted/Sign1(tagged)", format!("a {}-byte tagged input followed by {} extra byte(s) is still accepted", tx.len(), suffix.len()), J::obj(vec![("bytes", J::UInt(tx.len() as u64))]));
                        }
                    }
                    for cut in [b.len() - 1, b.len() - 2, b.len() / 2, 5] {
                        ctx.eval();
                        if capi::from_slice(Ty::Sign1, &b[..cut]).is_ok() {
                            ctx.violation("C13/prefix-accepted/Sign1", format!("a proper prefix ({} of {} bytes) of an accepted input is accepted", cut, b.len()), J::obj(vec![("cut", J::UInt(cut as u64))]));
                        }
                    }
                    api_agreement(ctx, Ty::Sign1, &b);
                } else if idx < 27 {
                    let n = [(1usize << 20) - 1, 1 << 20, (1 << 20) + 1, 2 << 20][(idx - 23) as usize];
                    let mut b = vec![0x84, 0x40, 0xa0];
                    rcbor::put_head(&mut b, 2, n as u64, &mut Style::canonical());
                    b.extend(std::iter::repeat(0x33).take(n));
                    b.push(0x40);
                    if capi::from_slice(Ty::Sign1, &b).is_ok() {
                        one_item_only(ctx, Ty::Sign1, &b, false);
                        let mut tb = vec![0xd2];
                        tb.extend_from_slice(&b);
                        if capi::from_tagged_slice(Ty::Sign1, &tb).is_ok() {
                            one_item_only(ctx, Ty::Sign1, &tb, true);
                        }
                    } else {
                        ctx.harness_errors.push("C13: large Sign1 not accepted".into());
                    }
                } else {
                    // tagged entry point vs Value-level: parse, take the tag apart, convert
                    let ty = TAGGED_TYPES[(idx - 27) as usize];
                    let v = gen::gen_mval(&mut ctx.rng, ty, &GenOpts::wire());
                    let body = model::encode(&v);
                    let t = ty.tag().unwrap();
                    // counter-signature chains around the nesting limit through both layers
                    for k in 0..60u64 {
                        let chain = super::c07::csig_chain(ctx, k);
                        for ty in [Ty::Header, Ty::ProtMap] {
                            api_agreement(ctx, ty, &chain);
                        }
                        for root in [1u8, 2, 3, 5, 10] {
                            let (ty, carried) = crate::hostile::carry_header(root, &chain);
                            api_agreement(ctx, ty, &carried);
                        }
                    }
                    let body_bytes = rcbor::det(&body);
                    for tag in [t, t + 1, t + (1 << 8), t + (1 << 16), t + (1 << 32), t + (3 << 32), u64::MAX - (u32::MAX as u64) + t, 55799, 0] {
                      for width in 0..5u8 {
                        // every legal head width of the tag number
                        let mut x: Vec<u8> = Vec::new();
                        match width {
                            0 if tag < 24 => x.push(0xc0 | tag as u8),
                            1 if tag < 256 => x.extend_from_slice(&[0xd8, tag as u8]),
                            2 if tag < 65536 => {
                                x.push(0xd9);
                                x.extend_from_slice(&(tag as u16).to_be_bytes());
                            }
                            3 if tag <= u32::MAX as u64 => {
                                x.push(0xda);
                                x.extend_from_slice(&(tag as u32).to_be_bytes());
                            }
                            4 => {
                                x.push(0xdb);
                                x.extend_from_slice(&tag.to_be_bytes());
                            }
                            _ => continue,
                        }
                        x.extend_from_slice(&body_bytes);
                        ctx.eval();
                        ctx.nontrivial_bytes(&x);
                        let a = capi::from_tagged_slice(ty, &x);
                        let b = match capi::ciborium_parse_exact(&x) {
                            Ok(Value::Tag(n, inner)) if n == capi::crate_tag(ty) => capi::from_value(ty, *inner),
                            _ => Err(EK::Unexpected),
                        };
                        if a.is_ok() != b.is_ok() {
                            ctx.violation(&format!("C13/api-layers-disagree/tagged-decode/{}", ty.name()), format!("from_tagged_slice {} but parse + tag check + from_cbor_value {} for tag {}", if a.is_ok() { "accepts" } else { "rejects" }, if b.is_ok() { "accepts" } else { "rejects" }, tag), J::obj(vec![("hex", J::Str(hex(&x)))]));
                        }
                      }
                    }
                }
            }
            _ => {
                let b: Vec<u8> = if idx == 0 {
                    vec![]
                } else if idx <= 256 {
                    vec![(idx - 1) as u8]
                } else {
                    let x = idx - 257;
                    vec![(x >> 8) as u8, x as u8]
                };
                for ty in all_types() {
                    api_agreement(ctx, ty, &b);
                    if capi::from_slice(ty, &b).is_ok() {
                        one_item_only(ctx, ty, &b, false);
                    }
                }
            }
        }
    }
    fn rule(&self) -> String {
        "accepted inputs of all 25 types (generated valid values in random encodings, test-suite vectors, all strings <= 2 bytes) x every proper prefix (sampled above 1.5 KiB) x 270 suffixes (all single bytes, a copy of the input, valid items, garbage, truncated heads), tagged entry points likewise; the map inside a protected bstr truncated at every offset / followed by 8 suffixes in every message type and SuppPubInfo; from_slice vs from_cbor_value(parse) on accepted, prefix, suffixed, mutated and short inputs; every accepted input behind 16 tag numbers in every head width (self-described CBOR, encoded-CBOR, bignum, COSE tags ...) through both layers; bodies nested 240-262 deep inside each taggable message behind its tag in every width; to_vec vs serialise(to_cbor_value) and the tagged analogue on generated values (incl. ProtectedHeader values carrying wire bytes). Non-trivial = distinct accepted inputs / distinct encodings.".into()
    }
    fn assumptions(&self) -> Vec<String> {
        let mut v = super::std_assumptions();
        v.push("the 'parse' half of the Value-level API is ciborium::de::from_reader called by the harness and required to consume the whole input".into());
        v
    }
    fn finish(&self, m: &mut Ctx) -> Result<(), String> {
        if m.counters.get("accepted-inputs").copied().unwrap_or(0) < 2000 {
            return Err("fewer than 2000 accepted inputs".into());
        }
        Ok(())
    }
}
