//! C12 - no map handled by the crate ever carries the same label twice.

use super::common::{decode_oracle, witness, Outcome};
use crate::capi::{self, EK};
use crate::gen::{self, GenOpts};
use crate::json::J;
use crate::model::{self, Class, MClaims, MHeader, MKey, MLabel, MProt, MRecipient, MSignature, MSuppPub, MVal, Ty, Verdict};
use crate::mon::{scale, Check, Ctx, Phase, Tier};
use crate::rcbor::{self, hex, Item, Style};

pub struct C12;

/// encode `m` with each key in its own random style (so the two occurrences of a label are encoded
/// differently: other width, bignum form, indefinite text)
fn encode_map_mixed(ctx: &mut Ctx, m: &[(Item, Item)], mixed: bool) -> Vec<u8> {
    let mut out = Vec::new();
    rcbor::put_head(&mut out, 5, m.len() as u64, &mut Style::canonical());
    for (k, v) in m {
        if mixed {
            rcbor::encode_into(k, &mut out, &mut Style::wild(ctx.rng.next()));
        } else {
            rcbor::encode_into(k, &mut out, &mut Style::canonical());
        }
        rcbor::encode_into(v, &mut out, &mut Style::canonical());
    }
    out
}

/// A map (given as entries) with a planted duplicate, offered standalone and in every carrier.
/// `clean`: the map without the second occurrence is accepted by the model for `ty`.
fn offer_dup(ctx: &mut Ctx, ty: Ty, m: &[(Item, Item)], mixed: bool) {
    let bytes = encode_map_mixed(ctx, m, mixed);
    ctx.nontrivial_bytes(&bytes);
    // top level: must be rejected; with DuplicateMapKey when the duplicate is the only fault
    ctx.eval();
    let verdict = model::decode_bytes(ty, &bytes);
    let got = capi::from_slice(ty, &bytes);
    match (&verdict, &got) {
        (Verdict::Unspecified(_), _) => {
            ctx.count("unspecified");
            return;
        }
        (_, Ok(_)) => {
            ctx.violation(&format!("C12/decode/duplicate-accepted/{}", ty.name()), "a map with the same label twice was accepted".into(), witness(ty, &bytes, vec![]));
            return;
        }
        (_, Err(EK::Panic(s))) => {
            ctx.violation(&format!("C12/panic/{}", s), format!("panic at {}", s), witness(ty, &bytes, vec![]));
            return;
        }
        (Verdict::Reject(r), Err(k)) => {
            ctx.count(&format!("toplevel-errkind:{}", k.name()));
            ctx.sample(|| J::obj(vec![("type", J::Str(ty.name())), ("map_with_duplicate_label", J::Str(hex(&bytes))), ("model_rule", J::s(r.rule)), ("crate_error", J::Str(k.name())), ("also_offered_in", J::s("16 nested carriers (headers) / key sets"))]));
            if r.class == Class::Dup && *k != EK::Dup {
                ctx.violation(
                    &format!("C12/decode/wrong-error/{}/{}", ty.name(), k.name()),
                    format!("a duplicate label that is the first fault of the map is reported as {} instead of DuplicateMapKey", k.name()),
                    witness(ty, &bytes, vec![]),
                );
                return;
            }
        }
        (Verdict::Accept(_), Err(_)) => {
            ctx.harness_errors.push(format!("C12 generator: map without duplicate? {}", hex(&bytes)));
            return;
        }
    }
    // nested carriers: only rejection is required
    let map_item = match rcbor::decode(&bytes) {
        Ok(i) => i,
        Err(_) => return,
    };
    let carriers: Vec<(Ty, Item, &str)> = match ty {
        Ty::Header => {
            let pb = Item::Bytes(bytes.clone());
            let e = Item::Map(vec![]);
            let z = Item::Bytes(vec![]);
            let sig_p = Item::Array(vec![pb.clone(), e.clone(), z.clone()]);
            let sig_u = Item::Array(vec![z.clone(), map_item.clone(), z.clone()]);
            let rcp_p = Item::Array(vec![pb.clone(), e.clone(), Item::Null]);
            let rcp_u = Item::Array(vec![z.clone(), map_item.clone(), Item::Null]);
            let rcp_nested = Item::Array(vec![z.clone(), e.clone(), Item::Null, Item::Array(vec![Item::Array(vec![z.clone(), e.clone(), Item::Null, Item::Array(vec![rcp_p.clone()])])])]);
            let csig_in_unprot = Item::Map(vec![(Item::int(7), sig_p.clone())]);
            let csig_in_prot = Item::Bytes(rcbor::det(&Item::Map(vec![(Item::int(7), Item::Array(vec![sig_u.clone(), sig_p.clone()]))])));
            vec![
                (Ty::ProtMap, map_item.clone(), "ProtectedHeader::from_slice"),
                (Ty::Sign1, Item::Array(vec![pb.clone(), e.clone(), Item::Null, z.clone()]), "Sign1.protected"),
                (Ty::Sign1, Item::Array(vec![z.clone(), map_item.clone(), Item::Null, z.clone()]), "Sign1.unprotected"),
                (Ty::Mac0, Item::Array(vec![pb.clone(), map_item.clone(), Item::Null, z.clone()]), "Mac0.both"),
                (Ty::Encrypt0, Item::Array(vec![pb.clone(), e.clone(), Item::Null]), "Encrypt0.protected"),
                (Ty::Sign, Item::Array(vec![pb.clone(), e.clone(), Item::Null, Item::Array(vec![])]), "Sign.protected"),
                (Ty::Sign, Item::Array(vec![z.clone(), e.clone(), Item::Null, Item::Array(vec![sig_p.clone()])]), "Sign.signatures[0].protected"),
                (Ty::Sign, Item::Array(vec![z.clone(), e.clone(), Item::Null, Item::Array(vec![Item::Array(vec![z.clone(), e.clone(), z.clone()]), sig_u.clone()])]), "Sign.signatures[1].unprotected"),
                (Ty::Signature, sig_p.clone(), "Signature.protected"),
                (Ty::Encrypt, Item::Array(vec![z.clone(), e.clone(), Item::Null, Item::Array(vec![rcp_p.clone()])]), "Encrypt.recipients[0].protected"),
                (Ty::Mac, Item::Array(vec![z.clone(), e.clone(), Item::Null, z.clone(), Item::Array(vec![rcp_u.clone()])]), "Mac.recipients[0].unprotected"),
                (Ty::Recipient, rcp_nested, "Recipient.recipients[0].recipients[0].protected"),
                (Ty::Header, csig_in_unprot.clone(), "Header.counter_signature.protected"),
                (Ty::Sign1, Item::Array(vec![csig_in_prot, csig_in_unprot, Item::Null, z.clone()]), "Sign1.protected.counter_signatures[*]"),
                (Ty::SuppPub, Item::Array(vec![Item::int(16), pb.clone()]), "SuppPubInfo.protected"),
                (Ty::Kdf, Item::Array(vec![Item::int(1), Item::Array(vec![Item::Null, Item::Null, Item::Null]), Item::Array(vec![Item::Null, Item::Null, Item::Null]), Item::Array(vec![Item::int(16), pb])]), "KdfContext.supp_pub_info.protected"),
            ]
        }
        Ty::Key => vec![
            (Ty::KeySet, Item::Array(vec![map_item.clone()]), "KeySet[0]"),
            (Ty::KeySet, Item::Array(vec![Item::Map(vec![(Item::int(1), Item::int(4))]), map_item.clone()]), "KeySet[1]"),
        ],
        _ => vec![],
    };
    for (cty, item, name) in carriers {
        ctx.eval();
        let cb = rcbor::det(&item);
        match capi::from_slice(cty, &cb) {
            Ok(_) => ctx.violation(&format!("C12/decode/duplicate-accepted-nested/{}", name), format!("a duplicate label at {} was accepted", name), witness(cty, &cb, vec![("position", J::s(name))])),
            Err(EK::Panic(s)) => ctx.violation(&format!("C12/panic/{}", s), format!("panic at {}", s), witness(cty, &cb, vec![])),
            Err(k) => ctx.count(&format!("nested-errkind:{}:{}", name, k.name())),
        }
    }
}

fn base_map(ctx: &mut Ctx, ty: Ty) -> Vec<(Item, Item)> {
    let o = GenOpts { styled_prot: 0, built: false, max_depth: 1, mixed: false };
    loop {
        let it = match ty {
            Ty::Header => model::enc_header(&gen::gen_header(&mut ctx.rng, &o, 0)),
            Ty::Key => model::enc_key(&gen::gen_key(&mut ctx.rng)),
            _ => model::enc_claims(&gen::gen_claims(&mut ctx.rng)),
        };
        if let Item::Map(m) = it {
            if !m.is_empty() {
                let mut m = m;
                if ctx.rng.coin() {
                    ctx.rng.shuffle(&mut m);
                }
                return m;
            }
        }
    }
}

// ---- encode side -------------------------------------------------------------------------------

/// Does the output carry a repeated key in a crate-owned map?  Uses the reference decoder, which
/// walks exactly the crate-owned maps (header / key / claims at every nesting position).
fn output_has_dup(ty: Ty, bytes: &[u8]) -> bool {
    fn dup_in(it: &Item) -> bool {
        if let Item::Map(m) = it {
            for i in 0..m.len() {
                for j in 0..i {
                    if m[i].0 == m[j].0 {
                        return true;
                    }
                }
            }
        }
        false
    }
    match rcbor::decode(bytes) {
        Ok(it) => {
            let n = it.normalize();
            // quick structural test at the top level, then the type-directed walk
            if matches!(ty, Ty::Header | Ty::ProtMap | Ty::Key | Ty::Claims) && dup_in(&n) {
                return true;
            }
            matches!(model::decode(ty, &n), Verdict::Reject(r) if r.class == Class::Dup)
        }
        Err(_) => false,
    }
}

fn encode_case(ctx: &mut Ctx, v: &MVal, class: &str) {
    let ty = v.ty();
    let c = match capi::build(v) {
        Some(c) => c,
        None => return,
    };
    ctx.eval();
    ctx.count(&format!("encode:{}:{}", ty.name(), class));
    match capi::to_vec(c) {
        Err(EK::Panic(s)) => ctx.violation(&format!("C12/panic/{}", s), format!("encoding panicked at {}", s), J::obj(vec![("type", J::Str(ty.name()))])),
        Err(_) => ctx.count("encode-refused"),
        Ok(bytes) => {
            if output_has_dup(ty, &bytes) {
                ctx.violation(
                    &format!("C12/encode/{}/{}", root_of(v), class),
                    format!("encoding emitted a map with the same label twice ({}) instead of failing", class),
                    J::obj(vec![("type", J::Str(ty.name())), ("emitted", J::Str(hex(&bytes)))]),
                );
            } else {
                ctx.count("encode-ok-no-dup");
            }
        }
    }
}

/// which of the three map types holds the planted collision (signature component)
fn root_of(v: &MVal) -> &'static str {
    match v {
        MVal::Key(_) | MVal::KeySet(_) => "CoseKey",
        MVal::Claims(_) => "ClaimsSet",
        _ => "Header",
    }
}

fn dup_header(ctx: &mut Ctx, typed: bool) -> MHeader {
    let o = GenOpts::built();
    let mut h = gen::gen_header(&mut ctx.rng, &o, 1);
    if typed {
        // an extra naming a populated typed field
        let which = ctx.rng.below(7) as i64 + 1;
        match which {
            1 => h.alg = Some(gen::gen_alg(&mut ctx.rng)),
            2 => h.crit = vec![MLabel::Int(4)],
            3 => h.ct = Some(MLabel::Int(60)),
            4 => h.kid = vec![1],
            5 => {
                h.iv = vec![2];
                h.piv.clear();
            }
            6 => {
                h.piv = vec![3];
                h.iv.clear();
            }
            _ => {
                let n = 1 + ctx.rng.below(3);
                h.csigs = (0..n).map(|_| MSignature::default()).collect();
            }
        }
        let pos = ctx.rng.below(h.rest.len() + 1);
        h.rest.insert(pos, (MLabel::Int(which), gen::random_item(&mut ctx.rng, 1)));
    } else {
        if h.rest.is_empty() {
            h.rest.push((gen::pal_label(&mut ctx.rng), Item::int(1)));
            if let MLabel::Int(i) = h.rest[0].0 {
                if (1..=7).contains(&i) {
                    h.rest[0].0 = MLabel::Int(99);
                }
            }
        }
        let e = h.rest[ctx.rng.below(h.rest.len())].clone();
        let pos = ctx.rng.below(h.rest.len() + 1);
        h.rest.insert(pos, (e.0, if ctx.rng.coin() { e.1 } else { gen::random_item(&mut ctx.rng, 1) }));
    }
    h
}

impl Check for C12 {
    fn id(&self) -> &'static str {
        "C12"
    }
    fn phases(&self, tier: Tier, b: f64) -> Vec<Phase> {
        let q = tier == Tier::Quick;
        vec![
            Phase { name: "decode: every entry of a valid map duplicated at every position, valid and arbitrary second values, mixed key encodings, all carriers", cases: scale(if q { 7500 } else { 60000 }, b), exhaustive: false },
            Phase { name: "decode: label x position-pair matrix for maps of <= 4 entries over the label alphabet", cases: scale(if q { 7500 } else { 40000 }, b), exhaustive: false },
            Phase { name: "encode: extras repeating a label / naming a populated typed field, in Header, CoseKey, ClaimsSet and nested carriers", cases: scale(if q { 150000 } else { 1000000 }, b), exhaustive: false },
            Phase { name: "encode: every typed label of Header (7, with 1 and 2+ counter-signatures; also with both IV and Partial IV populated), CoseKey (5), ClaimsSet (7) as an extra", cases: 8 + 5 + 7 + 4, exhaustive: true },
            Phase { name: "birthday: 2^18 pairwise distinct labels in a header / key / claims map are not a duplicate, decoding and encoding", cases: 11, exhaustive: true },
            Phase { name: "decode: maps of 15-66 entries with one entry duplicated, the second occurrence at every position (detectors that switch strategy at a size see every index)", cases: 3 * 12, exhaustive: true },
        ]
    }
    fn run_case(&self, ctx: &mut Ctx, phase: usize, idx: u64) {
        match phase {
            5 => {
                let ty = [Ty::Header, Ty::Key, Ty::Claims][(idx % 3) as usize];
                let n = [15usize, 16, 17, 29, 30, 31, 32, 33, 63, 64, 65, 66][(idx / 3) as usize];
                // n distinct labels acceptable for the map, in scattered order
                let mut m: Vec<(Item, Item)> = (0..n).map(|k| {
                    let l = match ty {
                        Ty::Claims => if k % 3 == 0 { Item::text(&format!("c{}", k)) } else { Item::int(-65537 - k as i64) },
                        _ => if k % 3 == 0 { Item::text(&format!("p{}", k)) } else { Item::int(100 + 7 * k as i64) },
                    };
                    (l, Item::int(k as i64))
                }).collect();
                ctx.rng.shuffle(&mut m);
                if ty == Ty::Key {
                    m.insert(0, (Item::int(1), Item::int(2)));
                }
                for i in [0usize, 1, m.len() / 2, m.len() - 2, m.len() - 1] {
                    for pos in 0..=m.len() {
                        let mut m2 = m.clone();
                        m2.insert(pos, (m[i].0.clone(), Item::Null));
                        ctx.count("wide-dup-cases");
                        offer_dup(ctx, ty, &m2, false);
                    }
                }
            }
            4 => {
                super::common::birthday_case(ctx, idx);
            }
            0 => {
                let ty = [Ty::Header, Ty::Key, Ty::Claims][(idx % 3) as usize];
                let m = base_map(ctx, ty);
                if m.len() > 6 {
                    return;
                }
                for i in 0..m.len() {
                    for pos in 0..=m.len() {
                        for variant in 0..3 {
                            let val = match variant {
                                0 => m[i].1.clone(),
                                1 => gen::kind_palette(ctx.rng.below(gen::KIND_PALETTE_LEN)),
                                _ => gen::random_item(&mut ctx.rng, 1),
                            };
                            let mut m2 = m.clone();
                            m2.insert(pos, (m[i].0.clone(), val));
                            let mixed = variant != 0 || ctx.rng.coin();
                            offer_dup(ctx, ty, &m2, mixed);
                        }
                    }
                }
            }
            1 => {
                let ty = [Ty::Header, Ty::Key, Ty::Claims][(idx % 3) as usize];
                // small maps of extras only (labels from the whole alphabet) + mandatory kty for keys
                let n = 1 + ctx.rng.below(3);
                let mut m: Vec<(Item, Item)> = Vec::new();
                while m.len() < n {
                    let l = match ty {
                        Ty::Claims => gen::gen_claim_key(&mut ctx.rng),
                        _ => gen::pal_label(&mut ctx.rng),
                    };
                    let forbidden = match (&l, ty) {
                        (MLabel::Int(i), Ty::Header) => (1..=7).contains(i),
                        (MLabel::Int(i), Ty::Key) => (1..=5).contains(i),
                        (MLabel::Int(i), _) => (1..=7).contains(i),
                        _ => false,
                    };
                    if forbidden || m.iter().any(|(k, _)| *k == l.item()) {
                        continue;
                    }
                    m.push((l.item(), gen::random_item(&mut ctx.rng, 1)));
                }
                if ty == Ty::Key {
                    let pos = ctx.rng.below(m.len() + 1);
                    m.insert(pos, (Item::int(1), Item::int(2)));
                }
                for i in 0..m.len() {
                    for pos in 0..=m.len() {
                        let mut m2 = m.clone();
                        let v = gen::random_item(&mut ctx.rng, 1);
                        m2.insert(pos, (m[i].0.clone(), v));
                        offer_dup(ctx, ty, &m2, true);
                    }
                }
            }
            2 => {
                let typed = ctx.rng.coin();
                let class = if typed { "typed=extra" } else { "extra=extra" };
                match idx % 3 {
                    0 => {
                        let h = dup_header(ctx, typed);
                        let p = MProt { bytes: None, header: h.clone() };
                        let sig = MSignature { prot: p.clone(), unprot: MHeader::default(), sig: vec![] };
                        let mut wc = MHeader::default();
                        wc.csigs = vec![MSignature { prot: MProt::default(), unprot: h.clone(), sig: vec![] }];
                        let vals = [
                            MVal::Header(h.clone()),
                            MVal::ProtMap(p.clone()),
                            MVal::Sign1(model::MSign1 { prot: p.clone(), unprot: MHeader::default(), payload: None, sig: vec![] }),
                            MVal::Sign1(model::MSign1 { prot: MProt::default(), unprot: h.clone(), payload: None, sig: vec![] }),
                            MVal::Sign(model::MSign { prot: MProt::default(), unprot: MHeader::default(), payload: None, sigs: vec![MSignature::default(), sig.clone()] }),
                            MVal::Encrypt(model::MEncrypt { prot: MProt::default(), unprot: MHeader::default(), ct: None, recipients: vec![MRecipient { prot: MProt::default(), unprot: MHeader::default(), ct: None, recipients: vec![MRecipient { prot: p.clone(), unprot: MHeader::default(), ct: None, recipients: vec![] }] }] }),
                            MVal::Mac0(model::MMac0 { prot: MProt::default(), unprot: wc.clone(), payload: None, tag: vec![] }),
                            MVal::Header(wc),
                            MVal::SuppPub(MSuppPub { key_data_length: 1, prot: p, other: None }),
                            // a protected header that was decoded (it holds received bytes) and then edited
                            // in memory, serialised on its own
                            MVal::ProtMap(MProt { bytes: Some(vec![0xa1, 0x01, 0x26]), header: h.clone() }),
                            MVal::ProtMap(MProt { bytes: Some(vec![]), header: h.clone() }),
                        ];
                        let k = ctx.rng.below(vals.len());
                        encode_case(ctx, &vals[0], class);
                        encode_case(ctx, &vals[k], class);
                    }
                    1 => {
                        let mut k: MKey = gen::gen_key(&mut ctx.rng);
                        if typed {
                            let which = ctx.rng.below(5) as i64 + 1;
                            match which {
                                2 => k.kid = vec![1],
                                3 => k.alg = Some(MLabel::Int(-7)),
                                4 => k.key_ops = vec![MLabel::Int(1)],
                                5 => k.base_iv = vec![1],
                                _ => {}
                            }
                            let pos = ctx.rng.below(k.params.len() + 1);
                            k.params.insert(pos, (MLabel::Int(which), gen::random_item(&mut ctx.rng, 1)));
                        } else {
                            if k.params.is_empty() {
                                k.params.push((MLabel::Int(-1), Item::int(1)));
                            }
                            let e = k.params[ctx.rng.below(k.params.len())].clone();
                            let pos = ctx.rng.below(k.params.len() + 1);
                            k.params.insert(pos, e);
                        }
                        if ctx.rng.coin() {
                            encode_case(ctx, &MVal::Key(k), class);
                        } else {
                            let other = gen::gen_key(&mut ctx.rng);
                            encode_case(ctx, &MVal::KeySet(vec![other, k]), class);
                        }
                    }
                    _ => {
                        let mut c: MClaims = gen::gen_claims(&mut ctx.rng);
                        if typed {
                            let which = ctx.rng.below(7) as i64 + 1;
                            match which {
                                1 => c.iss = Some("i".into()),
                                2 => c.sub = Some("s".into()),
                                3 => c.aud = Some("a".into()),
                                4 => c.exp = Some(model::MTime::Int(1)),
                                5 => c.nbf = Some(model::MTime::Int(2)),
                                6 => c.iat = Some(model::MTime::Int(3)),
                                _ => c.cti = Some(vec![1]),
                            }
                            let pos = ctx.rng.below(c.rest.len() + 1);
                            c.rest.insert(pos, (MLabel::Int(which), gen::random_item(&mut ctx.rng, 1)));
                        } else {
                            if c.rest.is_empty() {
                                c.rest.push((MLabel::Int(38), Item::int(1)));
                            }
                            let e = c.rest[ctx.rng.below(c.rest.len())].clone();
                            let pos = ctx.rng.below(c.rest.len() + 1);
                            c.rest.insert(pos, e);
                        }
                        encode_case(ctx, &MVal::Claims(c), class);
                    }
                }
            }
            _ => {
                let class = "typed=extra";
                if idx < 8 {
                    let l = if idx < 7 { idx as i64 + 1 } else { 7 };
                    let mut h = MHeader::default();
                    h.alg = Some(MLabel::Int(-7));
                    h.crit = vec![MLabel::Int(4)];
                    h.ct = Some(MLabel::Int(60));
                    h.kid = vec![1];
                    if l == 6 {
                        h.piv = vec![3];
                    } else {
                        h.iv = vec![2];
                    }
                    h.csigs = if idx == 7 { vec![MSignature::default(), MSignature::default()] } else { vec![MSignature::default()] };
                    h.rest = vec![(MLabel::Int(99), Item::int(0)), (MLabel::Int(l), Item::int(5))];
                    encode_case(ctx, &MVal::Header(h), class);
                } else if idx >= 20 {
                    // an (ill-formed but constructible) header with both IVs populated
                    let l = if idx % 2 == 0 { 5 } else { 6 };
                    let mut h = MHeader::default();
                    h.iv = vec![1];
                    h.piv = vec![2];
                    if idx >= 22 {
                        h.alg = Some(MLabel::Int(-7));
                        h.kid = vec![3];
                    }
                    h.rest = vec![(MLabel::Int(l), Item::int(5))];
                    encode_case(ctx, &MVal::Header(h), class);
                } else if idx < 13 {
                    let l = idx as i64 - 7;
                    let k = MKey { kty: MLabel::Int(2), kid: vec![1], alg: Some(MLabel::Int(-7)), key_ops: vec![MLabel::Int(1)], base_iv: vec![2], params: vec![(MLabel::Int(-1), Item::int(1)), (MLabel::Int(l), Item::int(5))] };
                    encode_case(ctx, &MVal::Key(k), class);
                } else {
                    let l = idx as i64 - 12;
                    let c = MClaims { iss: Some("i".into()), sub: Some("s".into()), aud: Some("a".into()), exp: Some(model::MTime::Int(1)), nbf: Some(model::MTime::Int(2)), iat: Some(model::MTime::Int(3)), cti: Some(vec![1]), rest: vec![(MLabel::Int(l), Item::int(5))] };
                    encode_case(ctx, &MVal::Claims(c), class);
                }
            }
        }
    }
    fn rule(&self) -> String {
        "decode: valid header / key / claims maps (entries shuffled) with every entry duplicated at every position, the second occurrence carrying the same value, a wrong-kind value or a random value, keys of the two occurrences encoded in different styles (head width, bignum form, indefinite text); small maps over the whole label alphabet with every label x position pair; each offered at the top level (must be rejected, with DuplicateMapKey when the duplicate is the map's first fault) and in 16 nested carriers (protected/unprotected of messages, signers, recipients to depth 3, counter-signatures, key sets, KDF supplementary info: must be rejected). encode: in-memory Header / CoseKey / ClaimsSet values (alone and nested) whose extras repeat a label or name a populated typed field; to_vec must fail or emit no repeated key. Birthday workload: 2^18 pairwise distinct labels (8-character texts / 64-bit integers / private-use integers) in one map must all be accepted and come back in order (a duplicate detector keyed on anything shorter than the label would report a duplicate that is not there). Non-trivial = distinct encodings / distinct in-memory collisions.".into()
    }
    fn assumptions(&self) -> Vec<String> {
        super::std_assumptions()
    }
    fn finish(&self, m: &mut Ctx) -> Result<(), String> {
        if m.counters.get("toplevel-errkind:Dup").copied().unwrap_or(0) < 1000 {
            return Err("fewer than 1000 top-level duplicates observed".into());
        }
        Ok(())
    }
}

#[allow(dead_code)]
fn unused(ctx: &mut Ctx) {
    let _ = decode_oracle(ctx, Ty::Header, &[], "", false);
    let _: Option<Outcome> = None;
}
