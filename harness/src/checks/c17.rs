//! C17 - registry names and integers correspond one-to-one with the IANA assignments.

use super::common::decode_oracle;
use crate::json::J;
use crate::model::{Ty, LABEL_TYPES};
use crate::mon::{Check, Ctx, Phase, Tier};
use crate::rcbor::{self, Item};
use crate::registry::{self, Reg, ALL_REGS};

pub struct C17;

const WINDOW: i64 = 70000;
const CHUNK: i64 = 2000;

fn probe_points(r: Reg) -> Vec<i64> {
    let mut v: Vec<i64> = vec![i64::MIN, i64::MIN + 1, i64::MAX, i64::MAX - 1, -(1 << 32), 1 << 32, -(1 << 32) - 1, (1 << 32) - 1, -(1 << 31), 1 << 31, (1 << 31) - 1, -(1 << 31) - 1, -65536, -65537, -65535, -65538];
    for x in registry::values(r) {
        for m in [1i64 << 8, 1 << 16, 1 << 24, 1 << 32, 1 << 40, 1 << 48, 1 << 56] {
            for c in [x.wrapping_add(m), x.wrapping_sub(m), x.wrapping_add(2 * m), x.wrapping_add(m - 1)] {
                v.push(c);
            }
        }
        v.push(x.wrapping_neg());
        v.push(!x);
        v.push(x ^ i64::MIN);
        v.push(x.wrapping_add(1i64 << 62));
        v.push(x.wrapping_add(i64::MIN));
    }
    v.sort();
    v.dedup();
    v
}

/// uniform, random bit width (either sign), or a registered value displaced by a random multiple of 2^k
fn random_i64(ctx: &mut Ctx, r: Reg) -> i64 {
    match ctx.rng.below(4) {
        0 => ctx.rng.next() as i64,
        1 => {
            let w = 1 + ctx.rng.below(63) as u32;
            let v = (ctx.rng.next() >> (64 - w)) as i64;
            if ctx.rng.below(2) == 0 {
                v
            } else {
                v.wrapping_neg().wrapping_sub(1)
            }
        }
        _ => {
            let vals = registry::values(r);
            let x = vals[ctx.rng.below(vals.len())];
            let k = [8u32, 16, 24, 32, 40, 48, 56][ctx.rng.below(7)];
            let m = (ctx.rng.next() as i64) >> k << k;
            x.wrapping_add(m)
        }
    }
}

fn check_int(ctx: &mut Ctx, r: Reg, i: i64) {
    ctx.eval();
    let reg = registry::is_registered(r, i);
    match registry::crate_from_i64(r, i) {
        Some(back) => {
            if !reg {
                ctx.violation(&format!("C17/from_i64-accepts-unregistered/{:?}", r), format!("{:?}::from_i64({}) returns a name (whose value is {}) but IANA registers nothing there", r, i, back), J::obj(vec![("registry", J::Str(format!("{:?}", r))), ("i", J::Int(i))]));
            } else if back != i {
                ctx.violation(&format!("C17/to_i64-not-inverse/{:?}", r), format!("{:?}: to_i64(from_i64({})) = {}", r, i, back), J::obj(vec![("i", J::Int(i))]));
            }
        }
        None => {
            if reg {
                ctx.violation(&format!("C17/from_i64-misses-registered/{:?}", r), format!("{:?}::from_i64({}) is None but the value is registered", r, i), J::obj(vec![("i", J::Int(i))]));
            }
        }
    }
    // label decoding restricted to this registry (every registry, not only those the crate's own
    // structures use): a registered value decodes to its name, anything else is rejected
    if (-300..=12000).contains(&i) || reg {
        ctx.eval();
        match registry::crate_decode_reg_label(r, i) {
            Some(back) => {
                if !reg || back != i {
                    ctx.violation(&format!("C17/label-decoding/{:?}", r), format!("RegisteredLabel<{:?}> decodes {} to the name with value {} (registered: {})", r, i, back, reg), J::obj(vec![("i", J::Int(i))]));
                }
            }
            None => {
                if reg {
                    ctx.violation(&format!("C17/label-decoding-rejects-registered/{:?}", r), format!("RegisteredLabel<{:?}> rejects the registered value {}", r, i), J::obj(vec![("i", J::Int(i))]));
                }
            }
        }
    }
    if let Some(p) = registry::crate_is_private(r, i) {
        ctx.eval();
        if p != (i < registry::PRIVATE_MAX) {
            ctx.violation(&format!("C17/is_private/{:?}", r), format!("{:?}::is_private({}) = {}", r, i, p), J::obj(vec![("i", J::Int(i))]));
        }
    }
}

/// classification through label decoding and through every field typed by the registry
fn check_label_positions(ctx: &mut Ctx, i: i64) {
    check_label_positions_item(ctx, Item::int(i));
}

/// Texts that an implementation might be tempted to interpret: decimal spellings of every
/// registered value (plain, signed, zero-padded), of the private-use boundary and of the 64-bit
/// extremes, the names of every registry entry in the crate's and in lower-case spelling, the JWT
/// claim names, and texts whose length needs a 4-byte head.  "Text labels are always kept."
fn text_probes() -> Vec<String> {
    let mut v: Vec<String> = crate::gen::TEXTS.iter().chain(crate::gen::LOOKALIKE_TEXTS.iter()).map(|s| s.to_string()).collect();
    for r in ALL_REGS {
        for e in registry::entries(r) {
            v.push(e.iana.to_string());
            v.push(format!("{:+}", e.iana));
            v.push(format!("{:04}", e.iana));
            v.push(e.name.to_string());
            v.push(e.name.to_lowercase());
            v.push(e.name.to_uppercase());
            v.push(e.name.replace('_', "-"));
            v.push(e.name.replace('_', " "));
        }
    }
    for i in [-65535i64, -65536, -65537, -65538, -70000, -100000, i64::MIN, i64::MAX, 0, -0] {
        v.push(i.to_string());
        v.push(format!(" {}", i));
        v.push(format!("{}.0", i));
        v.push(format!("{:#x}", i));
    }
    for n in [23usize, 24, 255, 256, 65535, 65536, 65537, 70000] {
        v.push("t".repeat(n));
    }
    // JOSE / JWK spellings of operations, key types and algorithms
    for t in ["sign", "verify", "encrypt", "decrypt", "wrapKey", "unwrapKey", "deriveKey", "deriveBits", "EC", "OKP", "RSA", "oct", "dir", "HS256", "RS256", "ES256", "ES256K", "A128KW", "A192KW", "A256KW", "A128GCM", "A192GCM", "A256GCM", "ECDH-ES", "PS256", "EdDSA", "P-256", "Ed25519", "X25519"] {
        v.push(t.to_string());
    }
    // invisible / white-space / combining characters at either end (a text label is kept whatever it
    // starts or ends with; a media type only refuses real White_Space there)
    for c in crate::gen::EDGE_CHARS {
        for base in ["a/b", "x", "text/plain"] {
            v.push(format!("{}{}", c, base));
            v.push(format!("{}{}", base, c));
        }
    }
    v.sort();
    v.dedup();
    v
}

fn check_label_positions_item(ctx: &mut Ctx, n: Item) {
    for ty in LABEL_TYPES {
        decode_oracle(ctx, ty, &rcbor::det(&n), "label type", true);
    }
    let m = |v: Vec<(Item, Item)>| rcbor::det(&Item::Map(v));
    let party = Item::Array(vec![Item::Null, Item::Null, Item::Null]);
    let cases: Vec<(Ty, Vec<u8>, &str)> = vec![
        (Ty::Header, m(vec![(Item::int(1), n.clone())]), "header alg"),
        (Ty::Header, m(vec![(Item::int(2), Item::Array(vec![n.clone()]))]), "crit element"),
        (Ty::Header, m(vec![(Item::int(2), Item::Array(vec![Item::int(1), n.clone()]))]), "crit second element"),
        (Ty::Header, m(vec![(Item::int(2), Item::Array(vec![n.clone(), Item::int(4), Item::text("x")]))]), "crit first of three"),
        (Ty::Key, m(vec![(Item::int(1), Item::int(1)), (Item::int(4), Item::Array(vec![Item::int(1), n.clone()]))]), "key op second element"),
        (Ty::Header, m(vec![(n.clone(), Item::int(0)), (Item::int(2), Item::Array(vec![Item::int(1), n.clone()]))]), "crit element that is also a label of the map (before crit)"),
        (Ty::Header, m(vec![(Item::int(2), Item::Array(vec![n.clone()])), (n.clone(), Item::Bytes(vec![1]))]), "crit element that is also a label of the map (after crit)"),
        (Ty::Header, m(vec![(Item::int(3), n.clone())]), "content type"),
        (Ty::Key, m(vec![(Item::int(1), n.clone())]), "kty"),
        (Ty::Key, m(vec![(Item::int(1), Item::int(1)), (Item::int(3), n.clone())]), "key alg"),
        (Ty::Key, m(vec![(Item::int(1), Item::int(1)), (Item::int(4), Item::Array(vec![n.clone()]))]), "key op"),
        (Ty::Claims, m(vec![(n.clone(), Item::Null)]), "claim key"),
        (Ty::Kdf, rcbor::det(&Item::Array(vec![n.clone(), party.clone(), party.clone(), Item::Array(vec![Item::int(1), Item::Bytes(vec![])])])), "kdf alg"),
    ];
    let mut cases = cases;
    // the integer and the text that spells it in decimal are two labels (both orders)
    if let Item::Int(i) = &n {
        let t = Item::text(&i.to_string());
        cases.push((Ty::Claims, m(vec![(n.clone(), Item::int(1)), (t.clone(), Item::int(2))]), "claim key and its decimal spelling"));
        cases.push((Ty::Claims, m(vec![(t.clone(), Item::int(2)), (n.clone(), Item::int(1))]), "decimal spelling and the claim key"));
        cases.push((Ty::Header, m(vec![(n.clone(), Item::int(1)), (t.clone(), Item::int(2))]), "header label and its decimal spelling"));
        cases.push((Ty::Key, m(vec![(Item::int(1), Item::int(1)), (t, Item::int(2)), (n.clone(), Item::int(1))]), "key label and its decimal spelling"));
    }
    // a text key type in JOSE spelling next to operations / algorithms: each label is classified on its own
    for kty in ["EC", "OKP", "RSA", "oct", "EC2", "Symmetric"] {
        cases.push((Ty::Key, m(vec![(Item::int(1), Item::text(kty)), (Item::int(4), Item::Array(vec![Item::int(1), n.clone()]))]), "key op beside a text key type"));
        cases.push((Ty::Key, m(vec![(Item::int(4), Item::Array(vec![n.clone()])), (Item::int(3), n.clone()), (Item::int(1), Item::text(kty))]), "key op and alg before a text key type"));
    }
    // the KDF algorithm beside every plausible key length
    for len in [128i64, 192, 256, 384, 512, 0] {
        cases.push((Ty::Kdf, rcbor::det(&Item::Array(vec![n.clone(), party.clone(), party.clone(), Item::Array(vec![Item::int(len), Item::Bytes(vec![])])])), "kdf alg beside a key length"));
    }
    // claim keys with a value of every kind a typed claim could want (a text that spells a claim name
    // stays a text whatever its value looks like)
    for v in [Item::int(1000), Item::text("t"), Item::Bytes(vec![1]), Item::Float(1.5), Item::Array(vec![]), Item::Map(vec![])] {
        cases.push((Ty::Claims, m(vec![(n.clone(), v.clone())]), "claim key with a typed-looking value"));
        cases.push((Ty::Claims, m(vec![(Item::int(1), Item::text("i")), (n.clone(), v.clone()), (Item::int(4), Item::int(2000))]), "claim key between typed claims"));
    }
    for (ty, b, what) in cases {
        decode_oracle(ctx, ty, &b, what, true);
        // the same map wherever such a map can occur (carrier roots, counter signatures, later
        // signers / recipients, key sets)
        let carriers = match ty {
            Ty::Header => crate::hostile::header_carriers(&b),
            Ty::Key => crate::hostile::key_carriers(&b),
            _ => vec![],
        };
        for (cty, cb, cname) in carriers.into_iter().skip(1) {
            ctx.count("carried");
            decode_oracle(ctx, cty, &cb, cname, false);
        }
    }
}

impl Check for C17 {
    fn id(&self) -> &'static str {
        "C17"
    }
    fn phases(&self, tier: Tier, b: f64) -> Vec<Phase> {
        let q = tier == Tier::Quick;
        vec![
            Phase { name: "every name of every registry: to_i64, discriminant, from_i64 of the IANA value, round trip", cases: 16, exhaustive: true },
            Phase { name: "from_i64 / is_private for every integer in [-70000, 70000] (16 registries)", cases: (2 * WINDOW / CHUNK + 1) as u64, exhaustive: true },
            Phase { name: "from_i64 / is_private at 64-bit extremes and at every registered value shifted by 2^8..2^56, negated, complemented, sign-flipped", cases: 16, exhaustive: true },
            Phase { name: "label decoding classification (9 label types + 8 typed fields) on [-66000, -65000], [-300, 12000] and the probe points", cases: ((1000 + 12300) / 100 + 1 + 16) as u64, exhaustive: true },
            Phase { name: "from_i64 / is_private on random 64-bit integers: uniform, random bit widths, registered values plus random multiples of 2^8..2^56 (thorough)", cases: if q { 0 } else { crate::mon::scale(40000, b) }, exhaustive: false },
            Phase { name: "label decoding classification on every integer of [-70000, 70000] (thorough)", cases: if q { 0 } else { (2 * WINDOW / 100 + 1) as u64 }, exhaustive: true },
            Phase { name: "label decoding classification on random 64-bit integers (thorough)", cases: if q { 0 } else { crate::mon::scale(40, b) }, exhaustive: false },
            Phase { name: "text labels are kept as text in the 9 label types and 8 typed fields: decimal spellings and names of every registry entry, boundary spellings, long texts", cases: (text_probes().len() as u64 + 19) / 20, exhaustive: true },
            Phase { name: "birthday: 2^18 pairwise distinct text labels in a header / key / claims map are all kept", cases: 3, exhaustive: true },
        ]
    }
    fn run_case(&self, ctx: &mut Ctx, phase: usize, idx: u64) {
        match phase {
            8 => {
                let w = [0u64, 2, 4][idx as usize];
                super::common::birthday_case(ctx, w);
            }
            0 => {
                let r = ALL_REGS[idx as usize];
                let es = registry::entries(r);
                let mut seen = std::collections::HashMap::new();
                for e in &es {
                    ctx.eval();
                    ctx.nontrivial(crate::rng::mix(idx, e.iana as u64));
                    if e.crate_to_i64 != e.iana || e.crate_discriminant != e.iana {
                        ctx.violation(&format!("C17/name-has-wrong-integer/{:?}::{}", r, e.name), format!("{:?}::{} is {} (to_i64) / {} (as i64) but IANA registers {}", r, e.name, e.crate_to_i64, e.crate_discriminant, e.iana), J::Null);
                    }
                    if !e.from_iana_is_name {
                        ctx.violation(&format!("C17/integer-maps-to-other-name/{:?}::{}", r, e.name), format!("{:?}::from_i64({}) does not give {}", r, e.iana, e.name), J::Null);
                    }
                    if !e.roundtrip {
                        ctx.violation(&format!("C17/name-roundtrip/{:?}::{}", r, e.name), format!("from_i64(to_i64({})) is not {}", e.name, e.name), J::Null);
                    }
                    if let Some(prev) = seen.insert(e.crate_to_i64, e.name) {
                        ctx.violation(&format!("C17/two-names-one-integer/{:?}", r), format!("{} and {} share {}", prev, e.name, e.crate_to_i64), J::Null);
                    }
                }
                ctx.add(&format!("names:{:?}", r), es.len() as u64);
                ctx.sample(|| J::obj(vec![("registry", J::Str(format!("{:?}", r))), ("names_checked", J::UInt(es.len() as u64)), ("first", J::Str(format!("{} = {}", es[0].name, es[0].iana)))]));
            }
            1 => {
                let lo = -WINDOW + idx as i64 * CHUNK;
                let hi = (lo + CHUNK - 1).min(WINDOW);
                for r in ALL_REGS {
                    for i in lo..=hi {
                        check_int(ctx, r, i);
                    }
                }
                ctx.nontrivial(idx ^ 0x17);
            }
            2 => {
                let r = ALL_REGS[idx as usize];
                for i in probe_points(r) {
                    ctx.nontrivial(crate::rng::mix(idx + 100, i as u64));
                    check_int(ctx, r, i);
                }
            }
            4 => {
                for _ in 0..50 {
                    let r = ALL_REGS[ctx.rng.below(ALL_REGS.len())];
                    let i = random_i64(ctx, r);
                    ctx.nontrivial(crate::rng::mix(0x1704, i as u64));
                    check_int(ctx, r, i);
                }
            }
            5 => {
                let lo = -WINDOW + idx as i64 * 100;
                for i in lo..(lo + 100).min(WINDOW + 1) {
                    check_label_positions(ctx, i);
                }
                ctx.nontrivial(idx ^ 0x1705);
            }
            7 => {
                let t = text_probes();
                for x in t.iter().skip(idx as usize * 20).take(20) {
                    ctx.nontrivial(crate::rng::mix(0x1707, crate::rng::hash_bytes(x.as_bytes())));
                    ctx.count("text-label-probes");
                    check_label_positions_item(ctx, Item::text(x));
                }
            }
            6 => {
                for _ in 0..10 {
                    let r = ALL_REGS[ctx.rng.below(ALL_REGS.len())];
                    let i = random_i64(ctx, r);
                    ctx.nontrivial(crate::rng::mix(0x1706, i as u64));
                    check_label_positions(ctx, i);
                }
            }
            _ => {
                let nchunks = ((1000 + 12300) / 100 + 1) as u64;
                if idx < nchunks {
                    let start = idx as i64 * 100;
                    for k in start..start + 100 {
                        let i = if k < 1001 { -66000 + k } else { -300 + (k - 1001) };
                        if i > 12000 {
                            break;
                        }
                        check_label_positions(ctx, i);
                    }
                } else {
                    let r = ALL_REGS[(idx - nchunks) as usize];
                    for i in probe_points(r) {
                        check_label_positions(ctx, i);
                    }
                }
            }
        }
    }
    fn rule(&self) -> String {
        "exhaustive: every name of the 16 registry enumerations against a frozen IANA table (to_i64, discriminant, from_i64 of the registered value, round trip, no two names on one integer); from_i64 and is_private for every integer in [-70000, 70000] (covers every assigned value and the private-use boundary) plus 64-bit extremes and every registered value shifted by 2^8 ... 2^56, negated, complemented and sign-flipped (aliases under truncation); label decoding through the 9 label types and 8 typed fields (alg in header/key/KDF context, crit element, content type, kty, key op, claim key) on [-66000,-65000] u [-300,12000] and the probe points, judged by the reference model (registered -> name; unregistered private -> kept; otherwise rejected); every header-map and key-map case is repeated inside 28 header carriers (protected / unprotected buckets of every structure, counter signatures, later signers and recipients) and 4 key-set positions. The thorough tier adds label decoding on every integer of [-70000, 70000] and from_i64 / is_private / label decoding on random 64-bit integers (uniform, random widths, registered values displaced by random multiples of 2^8..2^56). Text labels: every text of a probe list (decimal, signed and zero-padded spellings of every registered value, names of every registry entry in several spellings, JWT claim names, private-use boundary and 64-bit extremes as text, texts of 23..70000 bytes) must be kept as text by every label type and typed field. Birthday workload: 2^18 pairwise distinct labels (8-character texts / 64-bit integers / private-use integers) in one map must all be accepted and come back in order (a duplicate detector keyed on anything shorter than the label would report a duplicate that is not there). Non-trivial = distinct (registry, integer) groups.".into()
    }
    fn assumptions(&self) -> Vec<String> {
        vec!["the frozen table in harness/src/registry.rs transcribes the IANA COSE, CBOR-tag, CoAP content-format and CWT registries as of the snapshot the crate documents".into()]
    }
    fn finish(&self, m: &mut Ctx) -> Result<(), String> {
        let total: u64 = ALL_REGS.iter().map(|r| m.counters.get(&format!("names:{:?}", r)).copied().unwrap_or(0)).sum();
        let expected: u64 = ALL_REGS.iter().map(|r| registry::entries(*r).len() as u64).sum();
        if total != expected || expected < 200 {
            return Err(format!("{} registry names checked, {} expected", total, expected));
        }
        Ok(())
    }
}
