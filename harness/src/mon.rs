//! Monitors shared by all checks: panic monitor (E4), per-case context with counters, distinct-case
//! set, samples and violations; the sharded runner; result serialisation.

use crate::json::J;
use crate::rng::{hash_bytes, Rng};
use std::cell::RefCell;
use std::collections::{BTreeMap, HashSet};
use std::panic::{catch_unwind, AssertUnwindSafe};
use std::sync::Once;
use std::time::Instant;

#[derive(Clone, Copy, Debug, PartialEq, Eq)]
pub enum Tier {
    Quick,
    Thorough,
}

// ---------------------------------------------------------------------------------------------
// panic monitor

#[derive(Clone, Debug)]
pub struct PanicInfo {
    pub msg: String,
    pub file: String,
    pub line: u32,
}

impl PanicInfo {
    /// panics raised by harness code (a harness defect) as opposed to the crate under test
    pub fn in_harness(&self) -> bool {
        // the harness is the crate being compiled, so its own files are reported relative to its
        // manifest ("src/gen.rs"); coset is a path dependency elsewhere and its files, like those of
        // the registry crates and of the standard library, are reported with absolute paths
        !self.file.starts_with('/') || self.file.contains("harness/src") || self.file.contains("cosetmon")
    }
    pub fn site(&self) -> String {
        // keep only the path below src/ so that the signature survives a different checkout root
        let f = match self.file.rfind("/src/") {
            Some(i) => &self.file[i + 1..],
            None => &self.file,
        };
        format!("{}:{}", f, self.line)
    }
}

thread_local! {
    static LAST_PANIC: RefCell<Option<PanicInfo>> = const { RefCell::new(None) };
}

static HOOK: Once = Once::new();

pub fn install_panic_hook() {
    HOOK.call_once(|| {
        let verbose = std::env::var("VERIF_PANIC_TRACE").is_ok();
        std::panic::set_hook(Box::new(move |info| {
            let msg = if let Some(s) = info.payload().downcast_ref::<&str>() {
                s.to_string()
            } else if let Some(s) = info.payload().downcast_ref::<String>() {
                s.clone()
            } else {
                "<non-string panic>".to_string()
            };
            let (file, line) = match info.location() {
                Some(l) => (l.file().to_string(), l.line()),
                None => ("<unknown>".to_string(), 0),
            };
            if verbose {
                eprintln!("panic at {}:{}: {}", file, line, msg);
            }
            LAST_PANIC.with(|p| *p.borrow_mut() = Some(PanicInfo { msg, file, line }));
        }));
    });
}

/// Run `f`; a panic becomes `Err(PanicInfo)`.
pub fn guard<T>(f: impl FnOnce() -> T) -> Result<T, PanicInfo> {
    match catch_unwind(AssertUnwindSafe(f)) {
        Ok(v) => Ok(v),
        Err(payload) => {
            let info = LAST_PANIC.with(|p| p.borrow().clone()).unwrap_or(PanicInfo { msg: "<no info>".into(), file: "<unknown>".into(), line: 0 });
            // A panic raised by the harness's own code inside a guarded closure is a harness defect, not
            // an observation about the crate: let it travel on to the runner, which records it as a
            // harness error (inconclusive), instead of handing it to an oracle as a crate panic.
            if info.in_harness() {
                std::panic::resume_unwind(payload);
            }
            LAST_PANIC.with(|p| p.borrow_mut().take());
            Err(info)
        }
    }
}

/// the outermost guard around one case (the runner's): harness panics stop here
pub fn guard_case<T>(f: impl FnOnce() -> T) -> Result<T, PanicInfo> {
    match catch_unwind(AssertUnwindSafe(f)) {
        Ok(v) => Ok(v),
        Err(_) => Err(LAST_PANIC.with(|p| p.borrow_mut().take()).unwrap_or(PanicInfo { msg: "<no info>".into(), file: "<unknown>".into(), line: 0 })),
    }
}

// ---------------------------------------------------------------------------------------------
// per-thread context

#[derive(Clone, Debug)]
pub struct Violation {
    pub sig: String,
    pub detail: String,
    pub witness: J,
    pub phase: usize,
    pub idx: u64,
}

pub struct Phase {
    pub name: &'static str,
    pub cases: u64,
    /// the phase enumerates a finite space completely (never cut by the deadline)
    pub exhaustive: bool,
}

pub struct Ctx {
    pub prop: &'static str,
    pub tier: Tier,
    pub seed: u64,
    pub budget: f64,
    pub phase: usize,
    pub idx: u64,
    pub rng: Rng,
    pub evals: u64,
    pub nontrivial: HashSet<u64>,
    /// the distinct-state set is exact while it is small; beyond `NT_CAP` entries per context it
    /// becomes an adaptive sample (hashes whose low `nt_level` bits are zero) and the reported count
    /// is `len << nt_level`, flagged as an estimate
    pub nt_level: u32,
    pub counters: BTreeMap<String, u64>,
    pub samples: Vec<(u64, J)>,
    pub violations: Vec<Violation>,
    pub vio_counts: BTreeMap<String, u64>,
    pub harness_errors: Vec<String>,
    /// injectivity monitor: 128-bit digest of produced bytes -> (digest of the input tuple, phase, idx)
    pub inj: std::collections::HashMap<(u64, u64), (u64, usize, u64)>,
    pub replaying: bool,
    /// free-form per-check maxima (e.g. max nesting depth decoded)
    pub maxima: BTreeMap<String, u64>,
}

pub const NT_CAP: usize = 6_000_000;

pub fn prop_num(prop: &str) -> u64 {
    hash_bytes(prop.as_bytes())
}

impl Ctx {
    pub fn new(prop: &'static str, tier: Tier, seed: u64, budget: f64) -> Ctx {
        Ctx {
            prop,
            tier,
            seed,
            budget,
            phase: 0,
            idx: 0,
            rng: Rng::new(seed),
            evals: 0,
            nontrivial: HashSet::new(),
            nt_level: 0,
            counters: BTreeMap::new(),
            samples: Vec::new(),
            violations: Vec::new(),
            vio_counts: BTreeMap::new(),
            harness_errors: Vec::new(),
            inj: std::collections::HashMap::new(),
            replaying: false,
            maxima: BTreeMap::new(),
        }
    }
    pub fn begin_case(&mut self, phase: usize, idx: u64) {
        self.phase = phase;
        self.idx = idx;
        self.rng = Rng::for_case(self.seed, prop_num(self.prop), phase as u64, idx);
    }
    #[inline]
    pub fn eval(&mut self) {
        self.evals += 1;
    }
    pub fn count(&mut self, key: &str) {
        *self.counters.entry(key.to_string()).or_insert(0) += 1;
    }
    pub fn add(&mut self, key: &str, n: u64) {
        *self.counters.entry(key.to_string()).or_insert(0) += n;
    }
    pub fn max(&mut self, key: &str, v: u64) {
        let e = self.maxima.entry(key.to_string()).or_insert(0);
        if v > *e {
            *e = v;
        }
    }
    pub fn nontrivial(&mut self, h: u64) {
        let h = crate::rng::mix(0x6e74, h);
        if h & ((1u64 << self.nt_level) - 1) != 0 {
            return;
        }
        self.nontrivial.insert(h);
        if self.nontrivial.len() > NT_CAP {
            self.nt_raise(self.nt_level + 1);
        }
    }
    fn nt_raise(&mut self, level: u32) {
        self.nt_level = level;
        let mask = (1u64 << level) - 1;
        self.nontrivial.retain(|h| h & mask == 0);
    }
    pub fn nontrivial_bytes(&mut self, b: &[u8]) {
        self.nontrivial(hash_bytes(b));
    }
    pub fn distinct_nontrivial(&self) -> u64 {
        (self.nontrivial.len() as u64) << self.nt_level
    }
    /// keep a few representative cases (lowest case-hash first so that the merged choice is
    /// deterministic)
    pub fn sample(&mut self, j: impl FnOnce() -> J) {
        let key = crate::rng::mix(self.phase as u64, self.idx);
        if self.samples.len() < 6 || key < self.samples.last().map(|x| x.0).unwrap_or(u64::MAX) {
            let v = j();
            self.samples.push((key, v));
            self.samples.sort_by_key(|x| x.0);
            self.samples.dedup_by_key(|x| x.0);
            self.samples.truncate(6);
        }
    }
    pub fn violation(&mut self, sig: &str, detail: String, witness: J) {
        let n = self.vio_counts.entry(sig.to_string()).or_insert(0);
        *n += 1;
        if *n <= 3 || self.replaying {
            if self.replaying {
                eprintln!("violation {}: {}\n  witness: {}", sig, detail, witness.to_string());
            }
            self.violations.push(Violation {
                sig: sig.to_string(),
                detail,
                witness,
                phase: self.phase,
                idx: self.idx,
            });
        }
    }
    /// Injectivity monitor: `out` was produced from the input tuple whose canonical description is
    /// `tuple`; two different tuples under the same bytes are a violation.
    pub fn injective(&mut self, family: &str, out: &[u8], tuple: &[u8], sig: &str) {
        let k = (
            hash_bytes(out) ^ hash_bytes(family.as_bytes()),
            crate::rng::mix(hash_bytes(out), out.len() as u64),
        );
        let t = crate::rng::mix(hash_bytes(tuple), tuple.len() as u64);
        match self.inj.get(&k) {
            Some((t0, ph, ix)) if *t0 != t => {
                let (ph, ix) = (*ph, *ix);
                self.violation(
                    sig,
                    format!(
                        "two different input tuples give the same {} bytes (other case: phase {} idx {})",
                        family, ph, ix
                    ),
                    J::obj(vec![
                        ("bytes", J::Str(crate::rcbor::hex(out))),
                        ("tuple", J::Str(crate::rcbor::hex(tuple))),
                    ]),
                );
            }
            Some(_) => {}
            None => {
                self.inj.insert(k, (t, self.phase, self.idx));
            }
        }
    }
    fn merge(&mut self, o: Ctx) {
        self.evals += o.evals;
        let level = self.nt_level.max(o.nt_level);
        if level > self.nt_level {
            self.nt_raise(level);
        }
        let mask = (1u64 << level) - 1;
        self.nontrivial.extend(o.nontrivial.into_iter().filter(|h| h & mask == 0));
        while self.nontrivial.len() > 4 * NT_CAP {
            self.nt_raise(self.nt_level + 1);
        }
        for (k, v) in o.counters {
            *self.counters.entry(k).or_insert(0) += v;
        }
        for (k, v) in o.maxima {
            let e = self.maxima.entry(k).or_insert(0);
            if v > *e {
                *e = v;
            }
        }
        self.samples.extend(o.samples);
        self.samples.sort_by_key(|x| x.0);
        self.samples.dedup_by_key(|x| x.0);
        self.samples.truncate(6);
        for (k, v) in o.vio_counts {
            *self.vio_counts.entry(k).or_insert(0) += v;
        }
        self.violations.extend(o.violations);
        self.harness_errors.extend(o.harness_errors);
        for (k, v) in o.inj {
            match self.inj.get(&k) {
                Some(v0) if v0.0 != v.0 => {
                    let (ph, ix) = (v0.1, v0.2);
                    self.phase = v.1;
                    self.idx = v.2;
                    self.violation(
                        &format!("{}/injectivity", self.prop),
                        format!(
                            "two different input tuples give the same structure bytes (cases phase {} idx {} and phase {} idx {})",
                            ph, ix, v.1, v.2
                        ),
                        J::Null,
                    );
                }
                Some(_) => {}
                None => {
                    self.inj.insert(k, v);
                }
            }
        }
    }
}

pub trait Check: Sync {
    fn id(&self) -> &'static str;
    fn phases(&self, tier: Tier, budget: f64) -> Vec<Phase>;
    fn run_case(&self, ctx: &mut Ctx, phase: usize, idx: u64);
    /// how cases are generated and which count as non-trivial
    fn rule(&self) -> String;
    fn assumptions(&self) -> Vec<String> {
        vec![]
    }
    /// post-conditions on the merged run (coverage floors): Err = inconclusive
    fn finish(&self, _merged: &mut Ctx) -> Result<(), String> {
        Ok(())
    }
    /// number of worker threads to use (checks that measure per-thread resources may want fewer)
    fn threads(&self) -> usize {
        default_threads()
    }
}

pub fn default_threads() -> usize {
    std::env::var("VERIF_THREADS")
        .ok()
        .and_then(|s| s.parse().ok())
        .unwrap_or_else(|| {
            std::thread::available_parallelism()
                .map(|n| n.get())
                .unwrap_or(4)
                .min(16)
        })
}

pub struct RunResult {
    pub merged: Ctx,
    pub phases: Vec<(String, u64, u64, bool)>, // name, planned, run, exhaustive
    pub wall_s: f64,
    pub deadline_hit: bool,
    pub inconclusive: Option<String>,
}

pub fn scale(n: u64, budget: f64) -> u64 {
    ((n as f64) * budget).max(1.0) as u64
}

pub fn run_check(chk: &dyn Check, tier: Tier, seed: u64, budget: f64, max_s: f64) -> RunResult {
    install_panic_hook();
    crate::capi::probe_orders();
    let t0 = Instant::now();
    let phases = chk.phases(tier, budget);
    let nthreads = chk.threads().max(1);
    let mut merged = Ctx::new(chk.id(), tier, seed, budget);
    let mut pinfo = Vec::new();
    let mut deadline_hit = false;
    // Secondary build configurations (coset's `std` feature, the debug-assertions profile) repeat the
    // workload thinned out: random phases through the budget, enumerated phases through this stride.
    // Their coverage floors are not judged (the primary run's are).
    let stride: u64 = std::env::var("VERIF_SECONDARY_STRIDE").ok().and_then(|s| s.parse().ok()).filter(|k| *k >= 1).unwrap_or(1);
    // debugging aid: VERIF_ONLY_PHASE=k runs a single phase (the coverage floors then usually fail)
    let only_phase: Option<usize> = std::env::var("VERIF_ONLY_PHASE").ok().and_then(|s| s.parse().ok());
    for (pi, ph) in phases.iter().enumerate() {
        if only_phase.map(|k| k != pi).unwrap_or(false) {
            continue;
        }
        let step = if ph.exhaustive { stride } else { 1 };
        let ran = std::sync::atomic::AtomicU64::new(0);
        let stop = std::sync::atomic::AtomicBool::new(false);
        let results: Vec<Ctx> = std::thread::scope(|s| {
            let mut hs = Vec::new();
            for t in 0..nthreads {
                let ran = &ran;
                let stop = &stop;
                let ph = &ph;
                let h = std::thread::Builder::new()
                    .stack_size(64 << 20)
                    .spawn_scoped(s, move || {
                        let mut ctx = Ctx::new(chk.id(), tier, seed, budget);
                        let mut idx = t as u64 * step + (seed % step);
                        while idx < ph.cases {
                            if !ph.exhaustive && (idx / nthreads as u64) % 64 == 0 {
                                if t0.elapsed().as_secs_f64() > max_s {
                                    stop.store(true, std::sync::atomic::Ordering::Relaxed);
                                }
                                if stop.load(std::sync::atomic::Ordering::Relaxed) {
                                    break;
                                }
                            }
                            ctx.begin_case(pi, idx);
                            let r = guard_case(|| chk.run_case(&mut ctx, pi, idx));
                            if let Err(p) = r {
                                if p.in_harness() {
                                    ctx.harness_errors.push(format!(
                                        "harness panic in phase {} idx {}: {} at {}:{}",
                                        pi, idx, p.msg, p.file, p.line
                                    ));
                                } else {
                                    let sig = format!("{}/panic/{}", chk.id(), p.site());
                                    ctx.violation(
                                        &sig,
                                        format!("panic escaped from the crate: {} at {}:{}", p.msg, p.file, p.line),
                                        J::Null,
                                    );
                                }
                            }
                            ran.fetch_add(1, std::sync::atomic::Ordering::Relaxed);
                            idx += nthreads as u64 * step;
                        }
                        ctx
                    })
                    .expect("spawn");
                hs.push(h);
            }
            hs.into_iter().map(|h| h.join().expect("worker died")).collect()
        });
        for c in results {
            merged.merge(c);
        }
        let r = ran.load(std::sync::atomic::Ordering::Relaxed);
        if stop.load(std::sync::atomic::Ordering::Relaxed) {
            deadline_hit = true;
        }
        pinfo.push((ph.name.to_string(), ph.cases, r, ph.exhaustive && r == ph.cases));
    }
    let floors = if stride > 1 { Ok(()) } else { chk.finish(&mut merged) };
    let inconclusive = match floors {
        Ok(()) => {
            if !merged.harness_errors.is_empty() {
                Some(format!("{} harness errors, first: {}", merged.harness_errors.len(), merged.harness_errors[0]))
            } else {
                None
            }
        }
        Err(e) => Some(e),
    };
    RunResult {
        merged,
        phases: pinfo,
        wall_s: t0.elapsed().as_secs_f64(),
        deadline_hit,
        inconclusive,
    }
}

pub fn result_json(chk: &dyn Check, r: &RunResult) -> J {
    let m = &r.merged;
    J::obj(vec![
        ("property", J::s(chk.id())),
        ("tier", J::s(if m.tier == Tier::Quick { "quick" } else { "thorough" })),
        ("seed", J::UInt(m.seed)),
        ("budget", J::Num(m.budget)),
        ("evaluations", J::UInt(m.evals)),
        // the retained set is a true (measured) lower bound; once it is a sample the estimate is given next to it
        ("distinct_nontrivial", J::UInt(m.nontrivial.len() as u64)),
        ("distinct_nontrivial_exact", J::Bool(m.nt_level == 0)),
        ("distinct_nontrivial_estimate", J::UInt(m.distinct_nontrivial())),
        ("rule", J::Str(chk.rule())),
        ("assumptions", J::Arr(chk.assumptions().into_iter().map(J::Str).collect())),
        (
            "phases",
            J::Arr(
                r.phases
                    .iter()
                    .map(|(n, planned, ran, ex)| {
                        J::obj(vec![
                            ("name", J::s(n)),
                            ("planned", J::UInt(*planned)),
                            ("ran", J::UInt(*ran)),
                            ("exhaustive", J::Bool(*ex)),
                        ])
                    })
                    .collect(),
            ),
        ),
        (
            "counters",
            J::Obj(m.counters.iter().map(|(k, v)| (k.clone(), J::UInt(*v))).collect()),
        ),
        (
            "maxima",
            J::Obj(m.maxima.iter().map(|(k, v)| (k.clone(), J::UInt(*v))).collect()),
        ),
        ("samples", J::Arr(m.samples.iter().map(|x| x.1.clone()).collect())),
        (
            "violations",
            J::Arr(
                m.violations
                    .iter()
                    .map(|v| {
                        J::obj(vec![
                            ("sig", J::s(&v.sig)),
                            ("detail", J::s(&v.detail)),
                            ("witness", v.witness.clone()),
                            ("phase", J::UInt(v.phase as u64)),
                            ("idx", J::UInt(v.idx)),
                        ])
                    })
                    .collect(),
            ),
        ),
        (
            "violation_counts",
            J::Obj(m.vio_counts.iter().map(|(k, v)| (k.clone(), J::UInt(*v))).collect()),
        ),
        ("harness_errors", J::Arr(m.harness_errors.iter().take(10).map(|s| J::s(s)).collect())),
        ("deadline_hit", J::Bool(r.deadline_hit)),
        (
            "inconclusive",
            match &r.inconclusive {
                Some(s) => J::s(s),
                None => J::Null,
            },
        ),
        ("wall_s", J::Num((r.wall_s * 100.0).round() / 100.0)),
    ])
}
