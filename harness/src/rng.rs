//! xoshiro256** seeded through splitmix64; every case derives its own generator from
//! (seed, property, phase, case index) so that a case is a pure function of those four numbers.

#[derive(Clone, Debug)]
pub struct Rng {
    s: [u64; 4],
}

pub fn splitmix(x: &mut u64) -> u64 {
    *x = x.wrapping_add(0x9E37_79B9_7F4A_7C15);
    let mut z = *x;
    z = (z ^ (z >> 30)).wrapping_mul(0xBF58_476D_1CE4_E5B9);
    z = (z ^ (z >> 27)).wrapping_mul(0x94D0_49BB_1331_11EB);
    z ^ (z >> 31)
}

pub fn mix(a: u64, b: u64) -> u64 {
    let mut x = a ^ b.rotate_left(32) ^ 0x6A09_E667_F3BC_C909;
    let r = splitmix(&mut x);
    r ^ splitmix(&mut x)
}

impl Rng {
    pub fn new(seed: u64) -> Self {
        let mut x = seed;
        let s = [
            splitmix(&mut x),
            splitmix(&mut x),
            splitmix(&mut x),
            splitmix(&mut x),
        ];
        Rng { s }
    }
    pub fn for_case(seed: u64, prop: u64, phase: u64, idx: u64) -> Self {
        Rng::new(mix(mix(mix(seed, prop), phase), idx))
    }
    pub fn next(&mut self) -> u64 {
        let r = self.s[1].wrapping_mul(5).rotate_left(7).wrapping_mul(9);
        let t = self.s[1] << 17;
        self.s[2] ^= self.s[0];
        self.s[3] ^= self.s[1];
        self.s[1] ^= self.s[2];
        self.s[0] ^= self.s[3];
        self.s[2] ^= t;
        self.s[3] = self.s[3].rotate_left(45);
        r
    }
    /// uniform in [0, n)
    pub fn below(&mut self, n: usize) -> usize {
        if n <= 1 {
            return 0;
        }
        (self.next() % (n as u64)) as usize
    }
    pub fn range(&mut self, lo: i64, hi: i64) -> i64 {
        lo + (self.next() % ((hi - lo + 1) as u64)) as i64
    }
    pub fn coin(&mut self) -> bool {
        self.next() & 1 == 1
    }
    /// true with probability num/den
    pub fn chance(&mut self, num: u32, den: u32) -> bool {
        (self.next() % den as u64) < num as u64
    }
    pub fn pick<'a, T>(&mut self, v: &'a [T]) -> &'a T {
        &v[self.below(v.len())]
    }
    pub fn bytes(&mut self, n: usize) -> Vec<u8> {
        (0..n).map(|_| self.next() as u8).collect()
    }
    pub fn shuffle<T>(&mut self, v: &mut [T]) {
        for i in (1..v.len()).rev() {
            let j = self.below(i + 1);
            v.swap(i, j);
        }
    }
}

/// FNV-1a, used for case signatures (distinct counting).
pub fn hash_bytes(b: &[u8]) -> u64 {
    let mut h: u64 = 0xcbf2_9ce4_8422_2325;
    for x in b {
        h ^= *x as u64;
        h = h.wrapping_mul(0x0000_0100_0000_01b3);
    }
    h ^ (h >> 29)
}
