//! cosetmon: runtime monitors for google/coset (see /verif/DESIGN.md).
pub mod alloc;
pub mod capi;
pub mod checks;
pub mod gen;
pub mod hostile;
pub mod json;
pub mod model;
pub mod mon;
pub mod rcbor;
pub mod registry;
pub mod rng;
