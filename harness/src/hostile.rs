//! C01 machinery: measured decoding of hostile inputs, follow-up operations on accepted values,
//! bomb generators and the one-shot child mode (E2).

use crate::alloc;
use crate::capi::{self, CVal, EK};
use crate::model::{Ty, LABEL_TYPES, STRUCT_TYPES, TAGGED_TYPES};
use crate::mon::guard;
use crate::rcbor::{self, Item};

#[repr(C)]
struct Timespec {
    tv_sec: i64,
    tv_nsec: i64,
}
extern "C" {
    fn clock_gettime(clk: i32, ts: *mut Timespec) -> i32;
}

/// CPU time consumed by the calling thread, in nanoseconds (insensitive to other load).
pub fn thread_cpu_ns() -> u64 {
    let mut ts = Timespec { tv_sec: 0, tv_nsec: 0 };
    // CLOCK_THREAD_CPUTIME_ID = 3 on Linux
    let r = unsafe { clock_gettime(3, &mut ts) };
    if r != 0 {
        return 0;
    }
    ts.tv_sec as u64 * 1_000_000_000 + ts.tv_nsec as u64
}

/// every byte-level decoding entry point: (name, type, tagged)
pub fn entry_points() -> Vec<(Ty, bool)> {
    let mut v: Vec<(Ty, bool)> = STRUCT_TYPES.iter().map(|t| (*t, false)).collect();
    v.extend(LABEL_TYPES.iter().map(|t| (*t, false)));
    v.extend(TAGGED_TYPES.iter().map(|t| (*t, true)));
    v
}

#[derive(Clone, Debug, Default)]
pub struct Measure {
    pub accepted: bool,
    pub panic: Option<String>,
    pub peak: usize,
    pub total: usize,
    pub calls: usize,
    pub max_request: usize,
    pub stack_used: usize,
    pub cpu_ns: u64,
}

/// hard cap on live bytes during one decode: min(4 GiB, 64 MiB + 4000 n)
pub fn cap_for(n: usize) -> usize {
    ((64usize << 20) + 4000 * n).min(4usize << 30)
}

/// Decode `b` as `ty` under the resource monitor.  The decoded value (if any) is returned so that
/// follow-up operations can run outside the measured window.
pub fn measured_decode(ty: Ty, tagged: bool, b: &[u8]) -> (Measure, Option<CVal>) {
    let base = alloc::stack_here();
    let t0 = thread_cpu_ns();
    alloc::start(cap_for(b.len()));
    let r = if tagged { capi::from_tagged_slice(ty, b) } else { capi::from_slice(ty, b) };
    let st = alloc::stop();
    let cpu = thread_cpu_ns().saturating_sub(t0);
    let mut m = Measure {
        accepted: r.is_ok(),
        panic: None,
        peak: st.peak,
        total: st.total,
        calls: st.calls,
        max_request: st.max_request,
        stack_used: if st.stack_low != 0 && st.stack_low < base { base - st.stack_low } else { 0 },
        cpu_ns: cpu,
    };
    match r {
        Ok(v) => (m, Some(v)),
        Err(EK::Panic(s)) => {
            m.panic = Some(s);
            (m, None)
        }
        Err(_) => (m, None),
    }
}

/// Every follow-up operation the property names, on an accepted value, each under the panic
/// monitor and only where the documented precondition holds.  Returns the panics observed as
/// (operation, site).
pub fn follow_ups(v: &CVal, aad: &[u8], detached: &[u8], heavy: bool) -> Vec<(String, String)> {
    let mut bad: Vec<(String, String)> = Vec::new();
    let mut run = |name: &str, f: &mut dyn FnMut()| {
        if let Err(p) = guard(|| f()) {
            bad.push((name.to_string(), p.site()));
        }
    };
    let c = v.clone();
    run("clone", &mut || {
        let _ = v.clone();
    });
    run("eq", &mut || {
        let _ = *v == c;
        let _ = c == *v;
    });
    run("to_vec", &mut || {
        let _ = capi::to_vec(v.clone());
    });
    run("to_cbor_value", &mut || {
        let _ = capi::to_value(v.clone());
    });
    if v.ty().tag().is_some() {
        run("to_tagged_vec", &mut || {
            let _ = capi::to_tagged_vec(v.clone());
        });
    }
    let ok = |_: &[u8], _: &[u8]| -> Result<(), ()> { Ok(()) };
    let err = |_: &[u8], _: &[u8]| -> Result<(), ()> { Err(()) };
    let dec_ok = |_: &[u8], _: &[u8]| -> Result<Vec<u8>, ()> { Ok(vec![1]) };
    let dec_err = |_: &[u8], _: &[u8]| -> Result<Vec<u8>, ()> { Err(()) };
    fn rcp_all(r: &coset::CoseRecipient, aad: &[u8], run: &mut dyn FnMut(&str, &mut dyn FnMut()), depth: u32) {
        if r.ciphertext.is_some() {
            for c in [coset::EncryptionContext::EncRecipient, coset::EncryptionContext::MacRecipient, coset::EncryptionContext::RecRecipient] {
                run("CoseRecipient::decrypt", &mut || {
                    let _ = r.decrypt(c, aad, |_c: &[u8], _d: &[u8]| -> Result<Vec<u8>, ()> { Ok(vec![]) });
                });
            }
        }
        if depth < 3 {
            for x in r.recipients.iter().take(3) {
                rcp_all(x, aad, run, depth + 1);
            }
        }
    }
    match v {
        CVal::Sign1(m) => {
            run("CoseSign1::tbs_data", &mut || {
                let _ = m.tbs_data(aad);
            });
            run("CoseSign1::verify_signature", &mut || {
                let _ = m.verify_signature(aad, ok);
                let _ = m.verify_signature(aad, err);
            });
            if m.payload.is_none() {
                run("CoseSign1::tbs_detached_data", &mut || {
                    let _ = m.tbs_detached_data(detached, aad);
                });
                run("CoseSign1::verify_detached_signature", &mut || {
                    let _ = m.verify_detached_signature(detached, aad, ok);
                });
            }
        }
        CVal::Sign(m) => {
            let n = if heavy { m.signatures.len() } else { m.signatures.len().min(4) };
            for i in 0..n {
                run("CoseSign::tbs_data", &mut || {
                    let _ = m.tbs_data(aad, &m.signatures[i]);
                });
                run("CoseSign::verify_signature", &mut || {
                    let _ = m.verify_signature(i, aad, ok);
                });
                if m.payload.is_none() {
                    run("CoseSign::tbs_detached_data", &mut || {
                        let _ = m.tbs_detached_data(detached, aad, &m.signatures[i]);
                    });
                    run("CoseSign::verify_detached_signature", &mut || {
                        let _ = m.verify_detached_signature(i, detached, aad, err);
                    });
                }
            }
        }
        CVal::Mac(m) => {
            if m.payload.is_some() {
                run("CoseMac::verify_tag", &mut || {
                    let _ = m.verify_tag(aad, ok);
                    let _ = m.verify_tag(aad, err);
                });
            }
            for r in m.recipients.iter().take(4) {
                rcp_all(r, aad, &mut run, 0);
            }
        }
        CVal::Mac0(m) => {
            if m.payload.is_some() {
                run("CoseMac0::verify_tag", &mut || {
                    let _ = m.verify_tag(aad, ok);
                });
            }
        }
        CVal::Encrypt(m) => {
            if m.ciphertext.is_some() {
                run("CoseEncrypt::decrypt", &mut || {
                    let _ = m.decrypt(aad, dec_ok);
                    let _ = m.decrypt(aad, dec_err);
                });
            }
            for r in m.recipients.iter().take(4) {
                rcp_all(r, aad, &mut run, 0);
            }
        }
        CVal::Encrypt0(m) => {
            if m.ciphertext.is_some() {
                run("CoseEncrypt0::decrypt", &mut || {
                    let _ = m.decrypt(aad, dec_ok);
                });
            }
        }
        CVal::Recipient(r) => rcp_all(r, aad, &mut run, 0),
        CVal::Key(k) => {
            run("CoseKey::canonicalize", &mut || {
                let mut a = k.clone();
                a.canonicalize(coset::CborOrdering::Lexicographic);
                let mut b = k.clone();
                b.canonicalize(coset::CborOrdering::LengthFirstLexicographic);
            });
        }
        CVal::KeySet(ks) => {
            for k in ks.0.iter().take(4) {
                run("CoseKey::canonicalize", &mut || {
                    let mut a = k.clone();
                    a.canonicalize(coset::CborOrdering::LengthFirstLexicographic);
                });
            }
        }
        CVal::Label(l) => {
            run("Label::cmp", &mut || {
                let o = coset::Label::Int(0);
                let _ = l.cmp(&o);
                let _ = l.cmp_canonical(&o);
                let _ = l.cmp_canonical(l);
            });
        }
        CVal::ProtMap(p) => {
            // a protected header decoded on its own, handed to the three structure functions
            run("sig_structure_data(decoded ProtectedHeader)", &mut || {
                let _ = coset::sig_structure_data(coset::SignatureContext::CoseSign1, p.clone(), None, aad, detached);
                let _ = coset::sig_structure_data(coset::SignatureContext::CoseSignature, coset::ProtectedHeader::default(), Some(p.clone()), aad, detached);
            });
            run("mac_structure_data(decoded ProtectedHeader)", &mut || {
                let _ = coset::mac_structure_data(coset::MacContext::CoseMac0, p.clone(), aad, detached);
            });
            run("enc_structure_data(decoded ProtectedHeader)", &mut || {
                let _ = coset::enc_structure_data(coset::EncryptionContext::CoseEncrypt0, p.clone(), aad);
            });
        }
        CVal::Header(h) => {
            for cs in h.counter_signatures.iter().take(3) {
                run("sig_structure_data(CounterSignature)", &mut || {
                    let _ = coset::sig_structure_data(coset::SignatureContext::CounterSignature, coset::ProtectedHeader::default(), Some(cs.protected.clone()), aad, detached);
                });
            }
        }
        _ => {}
    }
    run("drop", &mut || {
        let x = v.clone();
        drop(x);
    });
    bad
}

// ---------------------------------------------------------------------------------------------
// bombs

fn bstr_wrap(inner: &[u8]) -> Vec<u8> {
    let mut out = Vec::new();
    rcbor::put_head(&mut out, 2, inner.len() as u64, &mut rcbor::Style::canonical());
    out.extend_from_slice(inner);
    out
}

/// B1: a header whose counter signature's protected header holds a header whose counter signature
/// ... `depth` levels.  form: 0 bare signature, 1 array of one signature, 2 array of two.
/// Built iteratively from the inside out.
pub fn b1_header(depth: usize, form: u8) -> Vec<u8> {
    // {4: h'11', 99: "a\u{2603}\u{10151}\u{e9}"}: the innermost header carries a text with 2-, 3- and 4-byte characters
    let mut inner: Vec<u8> = vec![0xa2, 0x04, 0x41, 0x11, 0x18, 0x63, 0x6a, 0x61, 0xe2, 0x98, 0x83, 0xf0, 0x90, 0x85, 0x91, 0xc3, 0xa9];
    for level in 0..depth {
        // sig = [bstr(inner), {}, h'']   or, for the mixed forms 3 / 4 on alternate levels,
        // sig = [h'', inner, h'']  (nesting through the unprotected header)
        let through_unprotected = match form {
            3 => level % 2 == 0,
            4 => level % 3 != 0,
            // long runs through unprotected headers (bounded by the CBOR parser per byte string)
            // separated by single protected hops (each of which gives the parser a fresh budget)
            5 => level % 121 != 120,
            _ => false,
        };
        let mut sig = vec![0x83];
        if through_unprotected {
            sig.push(0x40);
            sig.extend_from_slice(&inner);
            sig.push(0x40);
        } else {
            sig.extend_from_slice(&bstr_wrap(&inner));
            sig.extend_from_slice(&[0xa0, 0x40]);
        }
        let mut next = vec![0xa1, 0x07];
        match form {
            0 | 3 | 4 | 5 => next.extend_from_slice(&sig),
            1 => {
                next.push(0x81);
                next.extend_from_slice(&sig);
            }
            _ => {
                next.push(0x82);
                next.extend_from_slice(&sig);
                next.extend_from_slice(&[0x83, 0x40, 0xa0, 0x40]);
            }
        }
        inner = next;
    }
    inner
}

/// B2: counter signatures nested through *unprotected* headers (CBOR-level nesting)
pub fn b2_header(depth: usize, form: u8) -> Vec<u8> {
    let mut inner: Vec<u8> = vec![0xa0];
    for _ in 0..depth {
        let mut sig = vec![0x83, 0x40];
        sig.extend_from_slice(&inner);
        sig.push(0x40);
        let mut next = vec![0xa1, 0x07];
        if form == 1 {
            next.push(0x81);
        }
        next.extend_from_slice(&sig);
        inner = next;
    }
    inner
}

/// B3: recipients nested `depth` deep; `leaf_protected` is the innermost recipient's protected bstr content
pub fn b3_recipient(depth: usize, leaf_protected: &[u8]) -> Vec<u8> {
    let mut inner: Vec<u8> = vec![0x83];
    inner.extend_from_slice(&bstr_wrap(leaf_protected));
    inner.extend_from_slice(&[0xa0, 0xf6]);
    for _ in 0..depth {
        let mut next = vec![0x84, 0x40, 0xa0, 0xf6, 0x81];
        next.extend_from_slice(&inner);
        inner = next;
    }
    inner
}

/// B4: `depth` nested arrays / maps / tags around an integer
pub fn b4_nested(depth: usize, kind: u8) -> Vec<u8> {
    let mut out = Vec::new();
    for _ in 0..depth {
        match kind {
            0 => out.push(0x81),
            1 => out.extend_from_slice(&[0xa1, 0x00]),
            2 => out.push(0xc6),
            _ => out.push(0x9f),
        }
    }
    out.push(0x01);
    if kind >= 3 {
        for _ in 0..depth {
            out.push(0xff);
        }
    }
    out
}

/// B8: a header map wrapped in `depth` byte strings instead of one (form 0), each level additionally
/// under tag 24 (form 1), or each level as the only element of an array (form 2).  Whatever re-parses
/// the content of a byte string must not do so once per level without a bound.
pub fn b8_wrapped(depth: usize, form: u8) -> Vec<u8> {
    let mut cur: Vec<u8> = vec![0xa1, 0x04, 0x41, 0x01];
    for _ in 0..depth {
        let mut next = Vec::with_capacity(cur.len() + 6);
        match form {
            1 => next.extend_from_slice(&[0xd8, 0x18]),
            2 => next.push(0x81),
            _ => {}
        }
        rcbor::put_head(&mut next, 2, cur.len() as u64, &mut rcbor::Style::canonical());
        next.extend_from_slice(&cur);
        cur = next;
    }
    cur
}

/// place a header (map bytes) into a carrier
pub fn carry_header(root: u8, header: &[u8]) -> (Ty, Vec<u8>) {
    let p = bstr_wrap(header);
    match root {
        0 => (Ty::Header, header.to_vec()),
        1 => {
            // Sign1.protected
            let mut v = vec![0x84];
            v.extend_from_slice(&p);
            v.extend_from_slice(&[0xa0, 0xf6, 0x40]);
            (Ty::Sign1, v)
        }
        2 => {
            let mut v = vec![0x84, 0x40];
            v.extend_from_slice(header);
            v.extend_from_slice(&[0xf6, 0x40]);
            (Ty::Sign1, v)
        }
        3 => {
            // a signer of COSE_Sign
            let mut v = vec![0x84, 0x40, 0xa0, 0xf6, 0x81, 0x83];
            v.extend_from_slice(&p);
            v.extend_from_slice(&[0xa0, 0x40]);
            (Ty::Sign, v)
        }
        4 => {
            // Mac.protected
            let mut v = vec![0x85];
            v.extend_from_slice(&p);
            v.extend_from_slice(&[0xa0, 0x41, 0x00, 0x40, 0x80]);
            (Ty::Mac, v)
        }
        5 => {
            let mut v = vec![0x83];
            v.extend_from_slice(&p);
            v.extend_from_slice(&[0xa0, 0x41, 0x00]);
            (Ty::Encrypt0, v)
        }
        6 => {
            // nested recipient of COSE_Encrypt
            let mut v = vec![0x84, 0x40, 0xa0, 0xf6, 0x81, 0x84, 0x40, 0xa0, 0xf6, 0x81, 0x83];
            v.extend_from_slice(&p);
            v.extend_from_slice(&[0xa0, 0x40]);
            (Ty::Encrypt, v)
        }
        7 => {
            let mut v = vec![0x82, 0x10];
            v.extend_from_slice(&p);
            (Ty::SuppPub, v)
        }
        8 => {
            let mut v = vec![0x84, 0x01, 0x83, 0xf6, 0xf6, 0xf6, 0x83, 0xf6, 0xf6, 0xf6, 0x82, 0x10];
            v.extend_from_slice(&p);
            (Ty::Kdf, v)
        }
        9 => (Ty::ProtMap, header.to_vec()),
        10 => {
            let mut v = vec![0x83];
            v.extend_from_slice(&p);
            v.extend_from_slice(&[0xa0, 0x40]);
            (Ty::Signature, v)
        }
        _ => {
            let mut v = vec![0x84];
            v.extend_from_slice(&p);
            v.extend_from_slice(header);
            v.extend_from_slice(&[0xf6, 0x40]);
            (Ty::Mac0, v)
        }
    }
}
pub const N_ROOTS: u8 = 12;

/// A header map (already encoded) at every kind of position a header can occupy: the twelve
/// carrier roots, counter signatures (bare / array form, first and later element, through a
/// protected or an unprotected header, two levels deep), a signer / recipient at index >= 1.
pub fn header_carriers(header: &[u8]) -> Vec<(Ty, Vec<u8>, &'static str)> {
    const NAMES: [&str; 12] = [
        "Header",
        "Sign1.protected",
        "Sign1.unprotected",
        "Sign signer protected",
        "Mac.protected",
        "Encrypt0.protected",
        "Encrypt nested recipient protected",
        "SuppPubInfo.protected",
        "KDF context SuppPubInfo.protected",
        "ProtectedHeader map",
        "Signature.protected",
        "Mac0 protected and unprotected",
    ];
    let mut out: Vec<(Ty, Vec<u8>, &'static str)> = Vec::new();
    for root in 0..N_ROOTS {
        let (ty, b) = carry_header(root, header);
        out.push((ty, b, NAMES[root as usize]));
    }
    let p = bstr_wrap(header);
    let cat = |parts: &[&[u8]]| -> Vec<u8> { parts.iter().flat_map(|x| x.iter().copied()).collect() };
    // counter signatures in a bare header
    let cs_unprot = cat(&[&[0xa1, 0x07, 0x83, 0x40], header, &[0x40]]);
    let cs_prot = cat(&[&[0xa1, 0x07, 0x83], &p, &[0xa0, 0x40]]);
    let cs_arr2_prot = cat(&[&[0xa1, 0x07, 0x82, 0x83, 0x40, 0xa0, 0x40, 0x83], &p, &[0xa0, 0x41, 0x01]]);
    let cs_arr3_unprot = cat(&[&[0xa1, 0x07, 0x83, 0x83, 0x40, 0xa0, 0x40, 0x83, 0x40, 0xa0, 0x41, 0x01, 0x83, 0x40], header, &[0x41, 0x02]]);
    let cs_arr1_unprot = cat(&[&[0xa1, 0x07, 0x81, 0x83, 0x40], header, &[0x40]]);
    out.push((Ty::Header, cs_unprot.clone(), "counter signature unprotected"));
    out.push((Ty::Header, cs_prot.clone(), "counter signature protected"));
    out.push((Ty::Header, cs_arr2_prot, "second of two counter signatures, protected"));
    out.push((Ty::Header, cs_arr3_unprot, "third of three counter signatures, unprotected"));
    out.push((Ty::Header, cs_arr1_unprot, "array of one counter signature, unprotected"));
    // ... carried by a message
    let (ty, b) = carry_header(1, &cs_prot);
    out.push((ty, b, "counter signature protected, inside Sign1.protected"));
    let (ty, b) = carry_header(2, &cs_unprot);
    out.push((ty, b, "counter signature unprotected, inside Sign1.unprotected"));
    let (ty, b) = carry_header(6, &cs_unprot);
    out.push((ty, b, "counter signature unprotected, inside a nested recipient's protected header"));
    // two levels of counter signatures
    let cs2 = cat(&[&[0xa1, 0x07, 0x83], &bstr_wrap(&cs_unprot), &[0xa0, 0x40]]);
    out.push((Ty::Header, cs2, "counter signature inside a counter signature"));
    // second signer / second recipient / unprotected header of a recipient
    out.push((Ty::Sign, cat(&[&[0x84, 0x40, 0xa0, 0xf6, 0x82, 0x83, 0x40, 0xa0, 0x40, 0x83, 0x40], header, &[0x41, 0x05]]), "second signer unprotected"));
    out.push((Ty::Sign, cat(&[&[0x84, 0x40, 0xa0, 0xf6, 0x83, 0x83, 0x40, 0xa0, 0x40, 0x83, 0x40, 0xa0, 0x41, 0x01, 0x83], &p, &[0xa0, 0x41, 0x05]]), "third signer protected"));
    out.push((Ty::Encrypt, cat(&[&[0x84, 0x40, 0xa0, 0xf6, 0x82, 0x83, 0x40, 0xa0, 0x40, 0x83, 0x40], header, &[0xf6]]), "second recipient unprotected"));
    out.push((Ty::Mac, cat(&[&[0x85, 0x40, 0xa0, 0x41, 0x00, 0x40, 0x81, 0x83], &p, &[0xa0, 0x40]]), "Mac recipient protected"));
    out.push((Ty::Recipient, cat(&[&[0x84, 0x40, 0xa0, 0xf6, 0x82, 0x83, 0x40, 0xa0, 0x40, 0x83, 0x40], header, &[0x40]]), "second nested recipient unprotected"));
    out.push((Ty::Encrypt, cat(&[&[0x84, 0x40], header, &[0xf6, 0x81, 0x83, 0x40, 0xa0, 0x40]]), "Encrypt.unprotected"));
    out
}

/// A key map (already encoded) as a bare key and at several indices of a key set.
pub fn key_carriers(key: &[u8]) -> Vec<(Ty, Vec<u8>, &'static str)> {
    let cat = |parts: &[&[u8]]| -> Vec<u8> { parts.iter().flat_map(|x| x.iter().copied()).collect() };
    let good: [u8; 3] = [0xa1, 0x01, 0x04];
    vec![
        (Ty::Key, key.to_vec(), "Key"),
        (Ty::KeySet, cat(&[&[0x81], key]), "only key of a key set"),
        (Ty::KeySet, cat(&[&[0x82], &good, key]), "second key of a key set"),
        (Ty::KeySet, cat(&[&[0x83], key, &good, &good]), "first of three keys"),
        (Ty::KeySet, cat(&[&[0x83], &good, &good, key]), "third of three keys"),
    ]
}

fn head(out: &mut Vec<u8>, major: u8, n: u64) {
    rcbor::put_head(out, major, n, &mut rcbor::Style::canonical());
}

/// B7: flat scale families, parameterised by n; returns (type, bytes, family name)
pub fn b7_flat(family: u8, n: usize) -> (Ty, Vec<u8>, &'static str) {
    let mut v = Vec::new();
    match family {
        0 => {
            // Sign1 with an n-byte payload
            v.extend_from_slice(&[0x84, 0x40, 0xa0]);
            head(&mut v, 2, n as u64);
            v.extend(std::iter::repeat(0x5a).take(n));
            v.push(0x40);
            (Ty::Sign1, v, "payload of n bytes")
        }
        1 => {
            // header with n integer-labelled extras
            head(&mut v, 5, n as u64);
            for i in 0..n {
                rcbor::encode_into(&Item::int(1000 + i as i64), &mut v, &mut rcbor::Style::canonical());
                v.push(0x00);
            }
            (Ty::Header, v, "header map with n extras (integer labels)")
        }
        2 => {
            // key with n long-text-labelled extras
            head(&mut v, 5, n as u64 + 1);
            v.extend_from_slice(&[0x01, 0x02]);
            for i in 0..n {
                let t = format!("label-{:012}", i);
                rcbor::encode_into(&Item::Text(t), &mut v, &mut rcbor::Style::canonical());
                v.push(0xf6);
            }
            (Ty::Key, v, "key map with n extras (text labels)")
        }
        3 => {
            // crit array of n entries
            v.extend_from_slice(&[0xa1, 0x02]);
            head(&mut v, 4, n as u64);
            v.extend(std::iter::repeat(0x04).take(n));
            (Ty::Header, v, "crit array of n entries")
        }
        4 => {
            // key_ops of n (repeated -> rejected after scanning) / distinct texts
            v.extend_from_slice(&[0xa2, 0x01, 0x02, 0x04]);
            head(&mut v, 4, n as u64);
            for i in 0..n {
                rcbor::encode_into(&Item::Text(format!("{:x}", i)), &mut v, &mut rcbor::Style::canonical());
            }
            (Ty::Key, v, "key_ops array of n distinct texts")
        }
        5 => {
            // COSE_Sign with n signers
            v.extend_from_slice(&[0x84, 0x40, 0xa0, 0xf6]);
            head(&mut v, 4, n as u64);
            for _ in 0..n {
                v.extend_from_slice(&[0x83, 0x40, 0xa0, 0x40]);
            }
            (Ty::Sign, v, "COSE_Sign with n signers")
        }
        6 => {
            head(&mut v, 4, n as u64);
            for _ in 0..n {
                v.extend_from_slice(&[0xa1, 0x01, 0x04]);
            }
            (Ty::KeySet, v, "key set of n keys")
        }
        7 => {
            // KDF context with n SuppPrivInfo strings
            head(&mut v, 4, n as u64 + 4);
            v.extend_from_slice(&[0x01, 0x83, 0xf6, 0xf6, 0xf6, 0x83, 0xf6, 0xf6, 0xf6, 0x82, 0x10, 0x40]);
            v.extend(std::iter::repeat(0x40).take(n));
            (Ty::Kdf, v, "KDF context with n SuppPrivInfo strings")
        }
        8 => {
            // indefinite byte string of n one-byte chunks as payload
            v.extend_from_slice(&[0x84, 0x40, 0xa0, 0x5f]);
            for _ in 0..n {
                v.extend_from_slice(&[0x41, 0x00]);
            }
            v.extend_from_slice(&[0xff, 0x40]);
            (Ty::Sign1, v, "payload as indefinite string of n chunks")
        }
        9 => {
            // valid message followed by n trailing bytes
            v.extend_from_slice(&[0x84, 0x40, 0xa0, 0xf6, 0x40]);
            v.extend(std::iter::repeat(0x00).take(n));
            (Ty::Sign1, v, "n trailing bytes")
        }
        10 => {
            // COSE_Encrypt with n recipients
            v.extend_from_slice(&[0x84, 0x40, 0xa0, 0xf6]);
            head(&mut v, 4, n as u64);
            for _ in 0..n {
                v.extend_from_slice(&[0x83, 0x40, 0xa0, 0xf6]);
            }
            (Ty::Encrypt, v, "COSE_Encrypt with n recipients")
        }
        11 => {
            // claims set with n private claims
            head(&mut v, 5, n as u64);
            for i in 0..n {
                rcbor::encode_into(&Item::int(-70000 - i as i64), &mut v, &mut rcbor::Style::canonical());
                v.push(0x01);
            }
            (Ty::Claims, v, "claims set with n private claims")
        }
        12 => {
            // header with n counter signatures
            v.extend_from_slice(&[0xa1, 0x07]);
            head(&mut v, 4, n.max(2) as u64);
            for _ in 0..n.max(2) {
                v.extend_from_slice(&[0x83, 0x40, 0xa0, 0x40]);
            }
            (Ty::Header, v, "header with n counter signatures")
        }
        13 => {
            // extra value: array of n integers inside a protected header
            let mut h = vec![0xa1, 0x18, 0x63];
            head(&mut h, 4, n as u64);
            h.extend(std::iter::repeat(0x00).take(n));
            v.push(0x83);
            v.extend_from_slice(&bstr_wrap(&h));
            v.extend_from_slice(&[0xa0, 0xf6]);
            (Ty::Encrypt0, v, "protected header with an n-element array extra")
        }
        15 | 16 | 17 | 18 | 19 | 20 => {
            // maps whose n extra labels arrive in descending (15-17) or pseudo-random (18-20) order
            let (ty, first): (Ty, Vec<u8>) = match family % 3 {
                0 => (Ty::Header, vec![]),
                1 => (Ty::Key, vec![0x01, 0x02]),
                _ => (Ty::Claims, vec![]),
            };
            head(&mut v, 5, n as u64 + if first.is_empty() { 0 } else { 1 });
            v.extend_from_slice(&first);
            for i in 0..n {
                let k = if family < 18 { n - 1 - i } else { (i * 7919 + 13) % n };
                // private-use / key-type-specific negative labels, all distinct
                rcbor::encode_into(&Item::int(-70000 - k as i64), &mut v, &mut rcbor::Style::canonical());
                v.push(0x00);
            }
            (ty, v, match family {
                15 => "header map with n extras in descending label order",
                16 => "key map with n extras in descending label order",
                17 => "claims set with n claims in descending key order",
                18 => "header map with n extras in scattered label order",
                19 => "key map with n extras in scattered label order",
                _ => "claims set with n claims in scattered key order",
            })
        }
        21 | 22 | 23 | 24 | 25 | 26 => {
            // maps whose n labels all collide under popular non-cryptographic hashes: texts built from
            // the blocks "Aa" / "BB" (equal under every 31-multiplier string hash), or integers whose
            // two 32-bit halves are equal (hi ^ lo == 0).  A hash-bucketed duplicate detector degrades
            // to a linear scan per label.
            let (ty, first): (Ty, Vec<u8>) = match family % 3 {
                0 => (Ty::Header, vec![]),
                1 => (Ty::Key, vec![0x01, 0x02]),
                _ => (Ty::Claims, vec![]),
            };
            let texts = family < 24;
            head(&mut v, 5, n as u64 + if first.is_empty() { 0 } else { 1 });
            v.extend_from_slice(&first);
            let bits = (usize::BITS - n.max(2).next_power_of_two().leading_zeros() - 1) as usize;
            for i in 0..n {
                if texts {
                    let mut t = String::with_capacity(2 * bits);
                    for b in 0..bits.max(1) {
                        t.push_str(if (i >> b) & 1 == 0 { "Aa" } else { "BB" });
                    }
                    rcbor::encode_into(&Item::Text(t), &mut v, &mut rcbor::Style::canonical());
                } else {
                    let x = (i as i64 + 70000) & 0x7fff_ffff;
                    // negative, below the private-use boundary: acceptable as a claim key too
                    rcbor::encode_into(&Item::int(-((x << 32) | x)), &mut v, &mut rcbor::Style::canonical());
                }
                v.push(0x00);
            }
            (ty, v, match family {
                21 => "header map with n text labels that collide under 31-multiplier hashes",
                22 => "key map with n text labels that collide under 31-multiplier hashes",
                23 => "claims set with n text keys that collide under 31-multiplier hashes",
                24 => "header map with n integer labels whose 32-bit halves are equal",
                25 => "key map with n integer labels whose 32-bit halves are equal",
                _ => "claims set with n integer keys whose 32-bit halves are equal",
            })
        }
        _ => {
            // kid of n bytes in unprotected header of a recipient
            v.extend_from_slice(&[0x83, 0x40, 0xa1, 0x04]);
            head(&mut v, 2, n as u64);
            v.extend(std::iter::repeat(0x07).take(n));
            v.push(0xf6);
            (Ty::Recipient, v, "kid of n bytes")
        }
    }
}
pub const N_FLAT: u8 = 27;

// ---------------------------------------------------------------------------------------------
// E2: one-shot child.  Reads lines "<type index> <tagged 0|1> <hex>" from stdin, decodes each on a
// thread with the given stack, prints a marker line before and a result line after each input.

pub fn all_types_indexed() -> Vec<Ty> {
    let mut v = STRUCT_TYPES.to_vec();
    v.extend(LABEL_TYPES);
    v
}

/// Child protocol (one request per stdin line, one `BEGIN i` marker before and one `END i ...` line
/// after each):
///   `A <hex>`            decode at every entry point (31 decodes) + follow-ups on accepted values
///   `T <ti> <tg> <hex>`  decode as type #ti (tagged if tg=1) + follow-ups; precise measurements
/// Each request runs on a fresh thread with `stack_bytes` of stack.
pub fn child_main(stack_bytes: usize) -> i32 {
    use std::io::{BufRead, Write};
    crate::mon::install_panic_hook();
    let stdin = std::io::stdin();
    let types = all_types_indexed();
    let out = std::io::stdout();
    for (i, line) in stdin.lock().lines().enumerate() {
        let line = match line {
            Ok(l) => l,
            Err(_) => break,
        };
        let mut it = line.split_whitespace();
        let mode = it.next().unwrap_or("");
        let (targets, hx): (Vec<(Ty, bool)>, &str) = match mode {
            "A" => (entry_points(), it.next().unwrap_or("")),
            "T" => {
                let ti = it.next().and_then(|x| x.parse::<usize>().ok()).unwrap_or(0);
                let tg = it.next() == Some("1");
                (vec![(types[ti % types.len()], tg)], it.next().unwrap_or(""))
            }
            _ => continue,
        };
        let bytes = match rcbor::unhex(hx) {
            Some(b) => b,
            None => continue,
        };
        {
            let mut o = out.lock();
            let _ = writeln!(o, "BEGIN {}", i);
            let _ = o.flush();
        }
        let h = std::thread::Builder::new().stack_size(stack_bytes).spawn(move || {
            let mut agg = Measure::default();
            let mut naccepted = 0u32;
            let mut panics: Vec<String> = Vec::new();
            let mut fu_ns = 0u64;
            for (ty, tagged) in targets {
                let (m, v) = measured_decode(ty, tagged, &bytes);
                if let Some(p) = &m.panic {
                    panics.push(format!("decode:{}{}@{}", ty.name(), if tagged { "(tagged)" } else { "" }, p));
                }
                agg.peak = agg.peak.max(m.peak);
                agg.total = agg.total.max(m.total);
                agg.calls = agg.calls.max(m.calls);
                agg.max_request = agg.max_request.max(m.max_request);
                agg.stack_used = agg.stack_used.max(m.stack_used);
                agg.cpu_ns = agg.cpu_ns.max(m.cpu_ns);
                if let Some(v) = v {
                    naccepted += 1;
                    let t1 = thread_cpu_ns();
                    for (op, site) in follow_ups(&v, &bytes[..bytes.len().min(7)], &[4, 5], false) {
                        panics.push(format!("{}:{}@{}", op, ty.name(), site));
                    }
                    drop(v);
                    fu_ns += thread_cpu_ns().saturating_sub(t1);
                }
            }
            (agg, naccepted, panics, fu_ns)
        });
        let res = match h {
            Ok(h) => h.join(),
            Err(_) => return 3,
        };
        let mut o = out.lock();
        match res {
            Ok((m, na, panics, fu_ns)) => {
                let _ = writeln!(
                    o,
                    "END {} accepted={} peak={} total={} calls={} maxreq={} stack={} cpu_ns={} followup_ns={} panics={}",
                    i,
                    na,
                    m.peak,
                    m.total,
                    m.calls,
                    m.max_request,
                    m.stack_used,
                    m.cpu_ns,
                    fu_ns,
                    if panics.is_empty() { "-".to_string() } else { panics.join(",").replace(' ', "_") }
                );
            }
            Err(_) => {
                let _ = writeln!(o, "END {} thread-panicked", i);
            }
        }
        let _ = o.flush();
    }
    0
}

// ---------------------------------------------------------------------------------------------
// parent side of E2

#[derive(Clone, Debug)]
pub enum Req {
    All(Vec<u8>),
    Typed(Ty, bool, Vec<u8>),
}

impl Req {
    pub fn bytes(&self) -> &[u8] {
        match self {
            Req::All(b) => b,
            Req::Typed(_, _, b) => b,
        }
    }
    fn line(&self) -> String {
        match self {
            Req::All(b) => format!("A {}\n", rcbor::hex(b)),
            Req::Typed(t, tg, b) => {
                let ti = all_types_indexed().iter().position(|x| x == t).unwrap_or(0);
                format!("T {} {} {}\n", ti, *tg as u8, rcbor::hex(b))
            }
        }
    }
}

#[derive(Clone, Debug)]
pub enum Reply {
    Done { accepted: u32, m: Measure, followup_ns: u64, panics: Vec<String> },
    /// the child died while this request was in flight
    Crashed { how: String, stderr_tail: String },
    /// the watchdog fired while this request was in flight
    TimedOut,
    /// the child never got to it (should not happen: the parent restarts after a death)
    NotRun,
}

fn parse_end(line: &str) -> Option<(usize, Reply)> {
    let mut it = line.split_whitespace();
    if it.next()? != "END" {
        return None;
    }
    let i: usize = it.next()?.parse().ok()?;
    let mut m = Measure::default();
    let mut accepted = 0;
    let mut fu = 0;
    let mut panics = Vec::new();
    for kv in it {
        if kv == "thread-panicked" {
            panics.push("harness-thread-panicked".to_string());
            continue;
        }
        let (k, v) = kv.split_once('=')?;
        match k {
            "accepted" => accepted = v.parse().ok()?,
            "peak" => m.peak = v.parse().ok()?,
            "total" => m.total = v.parse().ok()?,
            "calls" => m.calls = v.parse().ok()?,
            "maxreq" => m.max_request = v.parse().ok()?,
            "stack" => m.stack_used = v.parse().ok()?,
            "cpu_ns" => m.cpu_ns = v.parse().ok()?,
            "followup_ns" => fu = v.parse().ok()?,
            "panics" => {
                if v != "-" {
                    panics = v.split(',').map(|s| s.to_string()).collect();
                }
            }
            _ => {}
        }
    }
    m.accepted = accepted > 0;
    Some((i, Reply::Done { accepted, m, followup_ns: fu, panics }))
}

/// Run requests in child processes of `exe` with the given thread stack; a child that dies is
/// restarted after the request that was in flight.  `timeout_s` is a wall-clock watchdog per child.
pub fn run_requests(exe: &std::path::Path, stack_bytes: usize, reqs: &[Req], timeout_s: u64) -> Vec<Reply> {
    use std::io::{BufRead, BufReader, Write};
    use std::os::unix::process::ExitStatusExt;
    use std::process::{Command, Stdio};
    let mut replies: Vec<Reply> = vec![Reply::NotRun; reqs.len()];
    let mut start = 0usize;
    let mut guard_rounds = 0;
    while start < reqs.len() && guard_rounds < reqs.len() + 2 {
        guard_rounds += 1;
        let mut child = match Command::new(exe).arg("oneshot").arg("--stack").arg(stack_bytes.to_string()).stdin(Stdio::piped()).stdout(Stdio::piped()).stderr(Stdio::piped()).spawn() {
            Ok(c) => c,
            Err(e) => {
                replies[start] = Reply::Crashed { how: format!("spawn failed: {}", e), stderr_tail: String::new() };
                return replies;
            }
        };
        let pid = child.id();
        let done = std::sync::Arc::new(std::sync::atomic::AtomicBool::new(false));
        let fired = std::sync::Arc::new(std::sync::atomic::AtomicBool::new(false));
        let (d2, f2) = (done.clone(), fired.clone());
        let wd = std::thread::spawn(move || {
            let t0 = std::time::Instant::now();
            while !d2.load(std::sync::atomic::Ordering::Relaxed) {
                if t0.elapsed().as_secs() >= timeout_s {
                    f2.store(true, std::sync::atomic::Ordering::Relaxed);
                    let _ = Command::new("kill").arg("-9").arg(pid.to_string()).status();
                    return;
                }
                std::thread::sleep(std::time::Duration::from_millis(50));
            }
        });
        let mut stdin = child.stdin.take().unwrap();
        let batch: Vec<String> = reqs[start..].iter().map(|r| r.line()).collect();
        let writer = std::thread::spawn(move || {
            for l in batch {
                if stdin.write_all(l.as_bytes()).is_err() {
                    break;
                }
            }
        });
        let stdout = BufReader::new(child.stdout.take().unwrap());
        let mut in_flight: Option<usize> = None;
        let mut completed = 0usize;
        for line in stdout.lines() {
            let line = match line {
                Ok(l) => l,
                Err(_) => break,
            };
            if let Some(rest) = line.strip_prefix("BEGIN ") {
                in_flight = rest.trim().parse::<usize>().ok();
            } else if let Some((i, r)) = parse_end(&line) {
                if start + i < replies.len() {
                    replies[start + i] = r;
                }
                in_flight = None;
                completed = i + 1;
            }
        }
        let _ = writer.join();
        let mut err = String::new();
        if let Some(mut e) = child.stderr.take() {
            use std::io::Read;
            let mut buf = Vec::new();
            let _ = e.read_to_end(&mut buf);
            let s = String::from_utf8_lossy(&buf);
            let tail: Vec<&str> = s.lines().rev().take(3).collect();
            err = tail.into_iter().rev().collect::<Vec<_>>().join(" | ");
        }
        let status = child.wait();
        done.store(true, std::sync::atomic::Ordering::Relaxed);
        let _ = wd.join();
        let timed_out = fired.load(std::sync::atomic::Ordering::Relaxed);
        match in_flight {
            Some(i) => {
                let how = match &status {
                    Ok(st) => match st.signal() {
                        Some(sig) => format!("killed by signal {}", sig),
                        None => format!("exit status {:?}", st.code()),
                    },
                    Err(e) => format!("wait failed: {}", e),
                };
                replies[start + i] = if timed_out { Reply::TimedOut } else { Reply::Crashed { how, stderr_tail: err } };
                start += i + 1;
            }
            None => {
                if completed == 0 && start < reqs.len() {
                    // the child ended without doing anything: do not loop forever
                    replies[start] = Reply::Crashed { how: format!("child ended early ({:?})", status.map(|s| s.code())), stderr_tail: err };
                    start += 1;
                } else {
                    start += completed;
                }
            }
        }
    }
    replies
}

/// see `cosetmon miniwork`
pub fn miniwork(ops: u64, seed: u64) -> Vec<String> {
    use crate::gen::{self, GenOpts};
    use crate::rng::Rng;
    crate::mon::install_panic_hook();
    crate::capi::probe_orders();
    let mut bad = Vec::new();
    let mut r = Rng::new(seed);
    let corpus: Vec<Vec<u8>> = include_str!("../../corpus/repo-test-vectors.txt").lines().filter_map(rcbor::unhex).collect();
    for i in 0..ops {
        let ty = STRUCT_TYPES[(i % 16) as usize];
        let bytes = match i % 4 {
            0 => {
                let v = gen::gen_mval(&mut r, ty, &GenOpts::wire());
                rcbor::encode(&crate::model::encode(&v), &mut rcbor::Style::wild(r.next()))
            }
            1 => {
                // float-bearing claims / extras (the f16 paths of the `half` crate)
                let mut c = gen::gen_claims(&mut r);
                c.exp = Some(crate::model::MTime::Float(Item::Float(gen::pal_float(&mut r))));
                c.rest.push((crate::model::MLabel::Int(-70000), Item::Float(gen::pal_float(&mut r))));
                rcbor::encode(&crate::model::enc_claims(&c), &mut rcbor::Style::wild(r.next()))
            }
            2 => {
                let base = corpus[r.below(corpus.len())].clone();
                gen::mutate_bytes(&mut r, &base, &[0xa0])
            }
            _ => b1_header(1 + r.below(12), (i % 3) as u8),
        };
        for (t, tagged) in entry_points() {
            let res = if tagged { capi::from_tagged_slice(t, &bytes) } else { capi::from_slice(t, &bytes) };
            match res {
                Ok(v) => {
                    for (op, site) in follow_ups(&v, &[1], &[2], false) {
                        bad.push(format!("panic in {} at {} on {}", op, site, rcbor::hex(&bytes)));
                    }
                    if let Err((class, detail)) = crate::checks::common::fixed_point(t, &bytes, tagged) {
                        if crate::rcbor::neutralise_bignum_indefinite(&bytes).map(|x| x.1) != Some(true) {
                            bad.push(format!("fixed point {}: {}", class, detail));
                        }
                    }
                }
                Err(EK::Panic(s)) => bad.push(format!("panic in decode at {} on {}", s, rcbor::hex(&bytes))),
                Err(_) => {}
            }
        }
    }
    bad
}

/// One libFuzzer input (see /verif/fuzz): returns descriptions of the problems found.
pub fn fuzz_one(bytes: &[u8]) -> Vec<String> {
    use std::sync::Once;
    static INIT: Once = Once::new();
    INIT.call_once(|| {
        crate::mon::install_panic_hook();
        crate::capi::probe_orders();
    });
    let mut bad = Vec::new();
    for (t, tagged) in entry_points() {
        let res = if tagged { capi::from_tagged_slice(t, bytes) } else { capi::from_slice(t, bytes) };
        // C13: byte-level decoding == parse then convert
        if !tagged {
            let via_value = match capi::ciborium_parse_exact(bytes) {
                Ok(v) => capi::from_value(t, v).is_ok(),
                Err(_) => false,
            };
            if via_value != res.is_ok() {
                bad.push(format!("C13 api layers disagree for {} on {}", t.name(), rcbor::hex(bytes)));
            }
        }
        match res {
            Ok(v) => {
                for (op, site) in follow_ups(&v, &bytes[..bytes.len().min(5)], &[2], false) {
                    bad.push(format!("C01 panic in {} at {} on {}", op, site, rcbor::hex(bytes)));
                }
                if let Err((class, detail)) = crate::checks::common::fixed_point(t, bytes, tagged) {
                    let known = matches!(crate::rcbor::neutralise_bignum_indefinite(bytes), Some((nb, true)) if matches!(crate::checks::common::fixed_point(t, &nb, tagged), Ok(Some(_))));
                    if !known {
                        bad.push(format!("C07 {} for {}: {}", class, t.name(), detail));
                    }
                }
                // C13: any suffix makes it extraneous data
                let mut x = bytes.to_vec();
                x.push(0x00);
                let r2 = if tagged { capi::from_tagged_slice(t, &x) } else { capi::from_slice(t, &x) };
                if !matches!(r2, Err(EK::Extraneous)) {
                    bad.push(format!("C13 suffixed input not rejected with ExtraneousData for {} on {}", t.name(), rcbor::hex(bytes)));
                }
            }
            Err(EK::Panic(s)) => bad.push(format!("C01 panic in decode of {} at {} on {}", t.name(), s, rcbor::hex(bytes))),
            Err(_) => {}
        }
    }
    bad
}
