//! Frozen transcription of the IANA registries that coset cites (COSE, CBOR tags, CoAP content
//! formats, CWT claims), as of the registry snapshot the crate documents in `src/iana/mod.rs`.
//! This is data owned by the verifier: a constant changed in /repo disagrees with it.
//!
//! Each entry binds the crate's variant (so `to_i64` of that *name* is checked) to the integer IANA
//! registered for the name.

use coset::iana;
use coset::iana::EnumI64;

#[derive(Clone, Copy, Debug, PartialEq, Eq, Hash, PartialOrd, Ord)]
pub enum Reg {
    HeaderParameter,
    HeaderAlgorithmParameter,
    Algorithm,
    KeyParameter,
    OkpKeyParameter,
    Ec2KeyParameter,
    RsaKeyParameter,
    SymmetricKeyParameter,
    HssLmsKeyParameter,
    WalnutDsaKeyParameter,
    KeyType,
    EllipticCurve,
    KeyOperation,
    CborTag,
    CoapContentFormat,
    CwtClaimName,
}

pub const ALL_REGS: [Reg; 16] = [
    Reg::HeaderParameter,
    Reg::HeaderAlgorithmParameter,
    Reg::Algorithm,
    Reg::KeyParameter,
    Reg::OkpKeyParameter,
    Reg::Ec2KeyParameter,
    Reg::RsaKeyParameter,
    Reg::SymmetricKeyParameter,
    Reg::HssLmsKeyParameter,
    Reg::WalnutDsaKeyParameter,
    Reg::KeyType,
    Reg::EllipticCurve,
    Reg::KeyOperation,
    Reg::CborTag,
    Reg::CoapContentFormat,
    Reg::CwtClaimName,
];

/// One registry entry: the IANA name (as spelled by the crate), the IANA integer, and what the
/// crate says for that name.
pub struct Entry {
    pub name: &'static str,
    pub iana: i64,
    /// `Name.to_i64()` as computed by the crate
    pub crate_to_i64: i64,
    /// `Name as i64`
    pub crate_discriminant: i64,
    /// does `from_i64(iana)` give back this very name?
    pub from_iana_is_name: bool,
    /// `from_i64(Name.to_i64()) == Some(Name)`
    pub roundtrip: bool,
}

macro_rules! table {
    ($ty:ident : $( $name:ident = $val:expr ),* $(,)?) => {
        vec![ $( Entry {
            name: stringify!($name),
            iana: $val,
            crate_to_i64: iana::$ty::$name.to_i64(),
            crate_discriminant: iana::$ty::$name as i64,
            from_iana_is_name: iana::$ty::from_i64($val) == Some(iana::$ty::$name),
            roundtrip: iana::$ty::from_i64(iana::$ty::$name.to_i64()) == Some(iana::$ty::$name),
        } ),* ]
    };
}

pub fn entries(r: Reg) -> Vec<Entry> {
    match r {
        Reg::HeaderParameter => table!(HeaderParameter:
            Reserved = 0, Alg = 1, Crit = 2, ContentType = 3, Kid = 4, Iv = 5, PartialIv = 6,
            CounterSignature = 7, CounterSignature0 = 9, KidContext = 10, X5Bag = 32, X5Chain = 33,
            X5T = 34, X5U = 35, CuphNonce = 256, CuphOwnerPubKey = 257),
        Reg::HeaderAlgorithmParameter => table!(HeaderAlgorithmParameter:
            PartyVOther = -26, PartyVNonce = -25, PartyVIdentity = -24, PartyUOther = -23,
            PartyUNonce = -22, PartyUIdentity = -21, Salt = -20, StaticKeyId = -3, StaticKey = -2,
            EphemeralKey = -1),
        Reg::Algorithm => table!(Algorithm:
            RS1 = -65535, WalnutDSA = -260, RS512 = -259, RS384 = -258, RS256 = -257, ES256K = -47,
            HSS_LMS = -46, SHAKE256 = -45, SHA_512 = -44, SHA_384 = -43, RSAES_OAEP_SHA_512 = -42,
            RSAES_OAEP_SHA_256 = -41, RSAES_OAEP_RFC_8017_default = -40, PS512 = -39, PS384 = -38,
            PS256 = -37, ES512 = -36, ES384 = -35, ECDH_SS_A256KW = -34, ECDH_SS_A192KW = -33,
            ECDH_SS_A128KW = -32, ECDH_ES_A256KW = -31, ECDH_ES_A192KW = -30, ECDH_ES_A128KW = -29,
            ECDH_SS_HKDF_512 = -28, ECDH_SS_HKDF_256 = -27, ECDH_ES_HKDF_512 = -26,
            ECDH_ES_HKDF_256 = -25, SHAKE128 = -18, SHA_512_256 = -17, SHA_256 = -16,
            SHA_256_64 = -15, SHA_1 = -14, Direct_HKDF_AES_256 = -13, Direct_HKDF_AES_128 = -12,
            Direct_HKDF_SHA_512 = -11, Direct_HKDF_SHA_256 = -10, EdDSA = -8, ES256 = -7,
            Direct = -6, A256KW = -5, A192KW = -4, A128KW = -3, Reserved = 0, A128GCM = 1,
            A192GCM = 2, A256GCM = 3, HMAC_256_64 = 4, HMAC_256_256 = 5, HMAC_384_384 = 6,
            HMAC_512_512 = 7, AES_CCM_16_64_128 = 10, AES_CCM_16_64_256 = 11,
            AES_CCM_64_64_128 = 12, AES_CCM_64_64_256 = 13, AES_MAC_128_64 = 14,
            AES_MAC_256_64 = 15, ChaCha20Poly1305 = 24, AES_MAC_128_128 = 25, AES_MAC_256_128 = 26,
            AES_CCM_16_128_128 = 30, AES_CCM_16_128_256 = 31, AES_CCM_64_128_128 = 32,
            AES_CCM_64_128_256 = 33, IV_GENERATION = 34),
        Reg::KeyParameter => table!(KeyParameter:
            Reserved = 0, Kty = 1, Kid = 2, Alg = 3, KeyOps = 4, BaseIv = 5),
        Reg::OkpKeyParameter => table!(OkpKeyParameter: Crv = -1, X = -2, D = -4),
        Reg::Ec2KeyParameter => table!(Ec2KeyParameter: Crv = -1, X = -2, Y = -3, D = -4),
        Reg::RsaKeyParameter => table!(RsaKeyParameter:
            N = -1, E = -2, D = -3, P = -4, Q = -5, DP = -6, DQ = -7, QInv = -8, Other = -9,
            RI = -10, DI = -11, TI = -12),
        Reg::SymmetricKeyParameter => table!(SymmetricKeyParameter: K = -1),
        Reg::HssLmsKeyParameter => table!(HssLmsKeyParameter: Pub = -1),
        Reg::WalnutDsaKeyParameter => table!(WalnutDsaKeyParameter:
            N = -1, Q = -2, TValues = -3, Matrix1 = -4, Permutation1 = -5, Matrix2 = -6),
        Reg::KeyType => table!(KeyType:
            Reserved = 0, OKP = 1, EC2 = 2, RSA = 3, Symmetric = 4, HSS_LMS = 5, WalnutDSA = 6),
        Reg::EllipticCurve => table!(EllipticCurve:
            Reserved = 0, P_256 = 1, P_384 = 2, P_521 = 3, X25519 = 4, X448 = 5, Ed25519 = 6,
            Ed448 = 7, Secp256k1 = 8),
        Reg::KeyOperation => table!(KeyOperation:
            Sign = 1, Verify = 2, Encrypt = 3, Decrypt = 4, WrapKey = 5, UnwrapKey = 6,
            DeriveKey = 7, DeriveBits = 8, MacCreate = 9, MacVerify = 10),
        Reg::CborTag => table!(CborTag:
            CoseEncrypt0 = 16, CoseMac0 = 17, CoseSign1 = 18, Cwt = 61, CoseEncrypt = 96,
            CoseMac = 97, CoseSign = 98),
        Reg::CoapContentFormat => table!(CoapContentFormat:
            TextPlainUtf8 = 0, CoseEncrypt0 = 16, CoseMac0 = 17, CoseSign1 = 18, LinkFormat = 40,
            Xml = 41, OctetStream = 42, Exi = 47, Json = 50, JsonPatchJson = 51,
            MergePatchJson = 52, Cbor = 60, Cwt = 61, MultipartCore = 62, CborSeq = 63,
            CoseEncrypt = 96, CoseMac = 97, CoseSign = 98, CoseKey = 101, CoseKeySet = 102,
            SenmlJson = 110, SensmlJson = 111, SenmlCbor = 112, SensmlCbor = 113, SenmlExi = 114,
            SensmlExi = 115, CoapGroupJson = 256, DotsCbor = 271,
            Pkcs7MimeSmimeTypeServerGeneratedKey = 280, Pkcs7MimeSmimeTypeCertsOnly = 281,
            Pkcs7MimeSmimeTypeCmcRequest = 282, Pkcs7MimeSmimeTypeCmcResponse = 283, Pkcs8 = 284,
            Csrattrs = 285, Pkcs10 = 286, PkixCert = 287, SenmlXml = 310, SensmlXml = 311,
            SenmlEtchJson = 320, SenmlEtchCbor = 322, TdJson = 432, VndOcfCbor = 10000,
            Oscore = 10001, JsonDeflate = 11050, CborDeflate = 11060, VndOmaLwm2mTlv = 11542,
            VndOmaLwm2mJson = 11543, VndOmaLwm2mCbor = 11544),
        Reg::CwtClaimName => table!(CwtClaimName:
            Hcert = -260, EuphNonce = -259, EatMaroePrefix = -258, EatFido = -257, Reserved = 0,
            Iss = 1, Sub = 2, Aud = 3, Exp = 4, Nbf = 5, Iat = 6, Cti = 7, Cnf = 8, Scope = 9,
            AceProfile = 38, CNonce = 39, Exi = 40),
    }
}

/// The IANA integers of a registry (sorted), from the frozen table only.
pub fn values(r: Reg) -> Vec<i64> {
    let mut v: Vec<i64> = entries(r).iter().map(|e| e.iana).collect();
    v.sort();
    v
}

pub fn is_registered(r: Reg, i: i64) -> bool {
    // small tables; linear scan over a cached copy
    thread_local! {
        static CACHE: std::cell::RefCell<std::collections::HashMap<Reg, std::collections::BTreeSet<i64>>> =
            std::cell::RefCell::new(std::collections::HashMap::new());
    }
    CACHE.with(|c| {
        let mut c = c.borrow_mut();
        c.entry(r)
            .or_insert_with(|| values(r).into_iter().collect())
            .contains(&i)
    })
}

/// Does the registry have a private-use range (integers below -65536)?
pub fn has_private(r: Reg) -> bool {
    matches!(
        r,
        Reg::HeaderParameter | Reg::Algorithm | Reg::EllipticCurve | Reg::CwtClaimName
    )
}

pub const PRIVATE_MAX: i64 = -65536; // private use: i < -65536

/// `from_i64` of the crate for registry `r`: Some(to_i64 of the variant it returned).
pub fn crate_from_i64(r: Reg, i: i64) -> Option<i64> {
    macro_rules! f {
        ($ty:ident) => {
            iana::$ty::from_i64(i).map(|v| v.to_i64())
        };
    }
    match r {
        Reg::HeaderParameter => f!(HeaderParameter),
        Reg::HeaderAlgorithmParameter => f!(HeaderAlgorithmParameter),
        Reg::Algorithm => f!(Algorithm),
        Reg::KeyParameter => f!(KeyParameter),
        Reg::OkpKeyParameter => f!(OkpKeyParameter),
        Reg::Ec2KeyParameter => f!(Ec2KeyParameter),
        Reg::RsaKeyParameter => f!(RsaKeyParameter),
        Reg::SymmetricKeyParameter => f!(SymmetricKeyParameter),
        Reg::HssLmsKeyParameter => f!(HssLmsKeyParameter),
        Reg::WalnutDsaKeyParameter => f!(WalnutDsaKeyParameter),
        Reg::KeyType => f!(KeyType),
        Reg::EllipticCurve => f!(EllipticCurve),
        Reg::KeyOperation => f!(KeyOperation),
        Reg::CborTag => f!(CborTag),
        Reg::CoapContentFormat => f!(CoapContentFormat),
        Reg::CwtClaimName => f!(CwtClaimName),
    }
}

/// The crate's `is_private` for the four registries that have one.
pub fn crate_is_private(r: Reg, i: i64) -> Option<bool> {
    use coset::iana::WithPrivateRange;
    match r {
        Reg::HeaderParameter => Some(iana::HeaderParameter::is_private(i)),
        Reg::Algorithm => Some(iana::Algorithm::is_private(i)),
        Reg::EllipticCurve => Some(iana::EllipticCurve::is_private(i)),
        Reg::CwtClaimName => Some(iana::CwtClaimName::is_private(i)),
        _ => None,
    }
}

/// RFC 8152 Table 1: tag numbers of the six taggable structures.
pub const TAG_SIGN: u64 = 98;
pub const TAG_SIGN1: u64 = 18;
pub const TAG_ENCRYPT: u64 = 96;
pub const TAG_ENCRYPT0: u64 = 16;
pub const TAG_MAC: u64 = 97;
pub const TAG_MAC0: u64 = 17;

/// `RegisteredLabel<T>::from_slice` of the integer `i` for registry `r`: Some(value it decoded to), None if rejected.
pub fn crate_decode_reg_label(r: Reg, i: i64) -> Option<i64> {
    use coset::CborSerializable;
    let b = crate::rcbor::det(&crate::rcbor::Item::int(i));
    macro_rules! f {
        ($ty:ident) => {
            match crate::mon::guard(|| coset::RegisteredLabel::<iana::$ty>::from_slice(&b)) {
                Ok(Ok(coset::RegisteredLabel::Assigned(v))) => Some(v.to_i64()),
                _ => None,
            }
        };
    }
    match r {
        Reg::HeaderParameter => f!(HeaderParameter),
        Reg::HeaderAlgorithmParameter => f!(HeaderAlgorithmParameter),
        Reg::Algorithm => f!(Algorithm),
        Reg::KeyParameter => f!(KeyParameter),
        Reg::OkpKeyParameter => f!(OkpKeyParameter),
        Reg::Ec2KeyParameter => f!(Ec2KeyParameter),
        Reg::RsaKeyParameter => f!(RsaKeyParameter),
        Reg::SymmetricKeyParameter => f!(SymmetricKeyParameter),
        Reg::HssLmsKeyParameter => f!(HssLmsKeyParameter),
        Reg::WalnutDsaKeyParameter => f!(WalnutDsaKeyParameter),
        Reg::KeyType => f!(KeyType),
        Reg::EllipticCurve => f!(EllipticCurve),
        Reg::KeyOperation => f!(KeyOperation),
        Reg::CborTag => f!(CborTag),
        Reg::CoapContentFormat => f!(CoapContentFormat),
        Reg::CwtClaimName => f!(CwtClaimName),
    }
}
