//! Independent CBOR (RFC 8949) codec used on the reference side of every oracle.
//! It shares no code with ciborium: a strict decoder to an `Item` tree, a deterministic encoder
//! and a "styled" encoder that exercises every serialisation choice RFC 8949 section 3 leaves open.

use crate::rng::Rng;

#[derive(Clone, Debug)]
pub enum Item {
    /// any integer in [-2^64, 2^64-1]
    Int(i128),
    Bytes(Vec<u8>),
    Text(String),
    Array(Vec<Item>),
    Map(Vec<(Item, Item)>),
    Tag(u64, Box<Item>),
    Bool(bool),
    Null,
    Undefined,
    /// simple values other than false/true/null/undefined
    Simple(u8),
    Float(f64),
}

fn fbits(f: f64) -> u64 {
    if f.is_nan() {
        0x7ff8_0000_0000_0000
    } else {
        f.to_bits()
    }
}

impl PartialEq for Item {
    fn eq(&self, o: &Item) -> bool {
        use Item::*;
        match (self, o) {
            (Int(a), Int(b)) => a == b,
            (Bytes(a), Bytes(b)) => a == b,
            (Text(a), Text(b)) => a == b,
            (Array(a), Array(b)) => a == b,
            (Map(a), Map(b)) => a == b,
            (Tag(t, a), Tag(u, b)) => t == u && a == b,
            (Bool(a), Bool(b)) => a == b,
            (Null, Null) => true,
            (Undefined, Undefined) => true,
            (Simple(a), Simple(b)) => a == b,
            (Float(a), Float(b)) => fbits(*a) == fbits(*b),
            _ => false,
        }
    }
}
impl Eq for Item {}

impl Item {
    pub fn int(i: i64) -> Item {
        Item::Int(i as i128)
    }
    pub fn uint(u: u64) -> Item {
        Item::Int(u as i128)
    }
    pub fn bytes(b: &[u8]) -> Item {
        Item::Bytes(b.to_vec())
    }
    pub fn text(s: &str) -> Item {
        Item::Text(s.to_string())
    }
    pub fn kind(&self) -> &'static str {
        match self {
            Item::Int(i) if *i >= 0 => "uint",
            Item::Int(_) => "nint",
            Item::Bytes(_) => "bstr",
            Item::Text(_) => "tstr",
            Item::Array(_) => "array",
            Item::Map(_) => "map",
            Item::Tag(..) => "tag",
            Item::Bool(_) => "bool",
            Item::Null => "null",
            Item::Undefined => "undefined",
            Item::Simple(_) => "simple",
            Item::Float(_) => "float",
        }
    }
    /// number of nodes
    pub fn size(&self) -> usize {
        match self {
            Item::Array(a) => 1 + a.iter().map(|x| x.size()).sum::<usize>(),
            Item::Map(m) => 1 + m.iter().map(|(k, v)| k.size() + v.size()).sum::<usize>(),
            Item::Tag(_, b) => 1 + b.size(),
            _ => 1,
        }
    }
    /// Does the tree contain `undefined` or an unassigned simple value (outside the verdict alphabet)?
    pub fn has_undefined(&self) -> bool {
        match self {
            Item::Undefined | Item::Simple(_) => true,
            Item::Array(a) => a.iter().any(|x| x.has_undefined()),
            Item::Map(m) => m.iter().any(|(k, v)| k.has_undefined() || v.has_undefined()),
            Item::Tag(_, b) => b.has_undefined(),
            _ => false,
        }
    }
    /// N1: the data-model normalisation the CBOR layer applies: tag 2/3 over a byte string of at
    /// most 16 bytes whose value is in [-2^64, 2^64-1] is that integer.  Applied bottom-up.
    pub fn normalize(&self) -> Item {
        match self {
            Item::Array(a) => Item::Array(a.iter().map(|x| x.normalize()).collect()),
            Item::Map(m) => Item::Map(
                m.iter()
                    .map(|(k, v)| (k.normalize(), v.normalize()))
                    .collect(),
            ),
            Item::Tag(t, b) => {
                if (*t == 2 || *t == 3) && matches!(**b, Item::Bytes(_)) {
                    if let Item::Bytes(bs) = &**b {
                        if bs.len() <= 16 {
                            let mut v: u128 = 0;
                            for x in bs {
                                v = (v << 8) | (*x as u128);
                            }
                            if v <= u64::MAX as u128 {
                                return Item::Int(if *t == 2 {
                                    v as i128
                                } else {
                                    -1 - (v as i128)
                                });
                            }
                        }
                    }
                }
                Item::Tag(*t, Box::new(b.normalize()))
            }
            x => x.clone(),
        }
    }
    /// A tag 2/3 over a byte string of <= 16 bytes whose value lies outside [-2^64, 2^64-1]: the CBOR
    /// layer re-writes such a value (strips leading zero bytes) or refuses it (negative bignums with
    /// the top bit of 16 bytes set).  Neither is the crate's doing and no property speaks about it,
    /// so items containing one are outside the verdict alphabet.
    pub fn has_quirky_bignum(&self) -> bool {
        match self {
            Item::Tag(t, b) => {
                if *t == 2 || *t == 3 {
                    if let Item::Bytes(bs) = &**b {
                        if bs.len() <= 16 {
                            let mut v: u128 = 0;
                            for x in bs {
                                v = (v << 8) | (*x as u128);
                            }
                            if v > u64::MAX as u128 {
                                return true;
                            }
                        }
                    }
                }
                b.has_quirky_bignum()
            }
            Item::Array(a) => a.iter().any(|x| x.has_quirky_bignum()),
            Item::Map(m) => m.iter().any(|(k, v)| k.has_quirky_bignum() || v.has_quirky_bignum()),
            _ => false,
        }
    }
    /// Is there a tag 2/3 node anywhere (whose treatment by the CBOR layer is quirky)?
    pub fn has_bignum_tag(&self) -> bool {
        match self {
            Item::Tag(t, b) => *t == 2 || *t == 3 || b.has_bignum_tag(),
            Item::Array(a) => a.iter().any(|x| x.has_bignum_tag()),
            Item::Map(m) => m.iter().any(|(k, v)| k.has_bignum_tag() || v.has_bignum_tag()),
            _ => false,
        }
    }
}

// ---------------------------------------------------------------------------------------------
// f16 helpers

pub fn f16_to_f64(h: u16) -> f64 {
    let sign = if h & 0x8000 != 0 { -1.0 } else { 1.0 };
    let exp = ((h >> 10) & 0x1f) as i32;
    let man = (h & 0x3ff) as f64;
    if exp == 0 {
        sign * man * (2.0f64).powi(-24)
    } else if exp == 31 {
        if man == 0.0 {
            sign * f64::INFINITY
        } else {
            f64::NAN
        }
    } else {
        sign * (1.0 + man / 1024.0) * (2.0f64).powi(exp - 15)
    }
}

pub fn f64_to_f16_exact(v: f64) -> Option<u16> {
    let bits = v.to_bits();
    let sign = ((bits >> 63) as u16) << 15;
    let exp = ((bits >> 52) & 0x7ff) as i32;
    let man = bits & ((1u64 << 52) - 1);
    if exp == 0x7ff {
        return if man == 0 {
            Some(sign | 0x7c00)
        } else {
            Some(0x7e00)
        };
    }
    if exp == 0 {
        return if man == 0 { Some(sign) } else { None };
    }
    let e = exp - 1023;
    if e > 15 {
        return None;
    }
    if e >= -14 {
        if man & ((1u64 << 42) - 1) != 0 {
            return None;
        }
        return Some(sign | (((e + 15) as u16) << 10) | ((man >> 42) as u16));
    }
    if e < -24 {
        return None;
    }
    let full = (1u64 << 52) | man;
    let shift = (28 - e) as u32;
    if full & ((1u64 << shift) - 1) != 0 {
        return None;
    }
    Some(sign | (full >> shift) as u16)
}

// ---------------------------------------------------------------------------------------------
// Decoder

#[derive(Clone, Debug, PartialEq, Eq)]
pub enum DecErr {
    /// input ended inside an item
    Truncated,
    /// not well-formed CBOR (reserved additional info, stray break, bad chunk, bad UTF-8, ...)
    Malformed(&'static str),
    TooDeep,
    /// decode_exact only: a complete item followed by more bytes
    Trailing(usize),
}

#[derive(Clone, Debug, Default, PartialEq, Eq)]
pub struct EncInfo {
    pub indefinite: u32,
    pub nonminimal_heads: u32,
    pub wide_floats: u32,
    pub max_depth: u32,
    pub items: u32,
}

struct Dec<'a> {
    b: &'a [u8],
    p: usize,
    info: EncInfo,
}

const MAX_DEPTH: u32 = 1000;

impl<'a> Dec<'a> {
    fn byte(&mut self) -> Result<u8, DecErr> {
        if self.p >= self.b.len() {
            return Err(DecErr::Truncated);
        }
        let x = self.b[self.p];
        self.p += 1;
        Ok(x)
    }
    fn take(&mut self, n: u64) -> Result<&'a [u8], DecErr> {
        let rem = (self.b.len() - self.p) as u64;
        if n > rem {
            return Err(DecErr::Truncated);
        }
        let s = &self.b[self.p..self.p + n as usize];
        self.p += n as usize;
        Ok(s)
    }
    /// returns (major, additional info, argument); argument is None for ai == 31
    fn head(&mut self) -> Result<(u8, u8, Option<u64>), DecErr> {
        let ib = self.byte()?;
        let major = ib >> 5;
        let ai = ib & 0x1f;
        let arg = match ai {
            0..=23 => Some(ai as u64),
            24 => {
                let v = self.byte()? as u64;
                if v < 24 && major != 7 {
                    self.info.nonminimal_heads += 1;
                }
                Some(v)
            }
            25 => {
                let s = self.take(2)?;
                let v = u16::from_be_bytes([s[0], s[1]]) as u64;
                if v < 256 && major != 7 {
                    self.info.nonminimal_heads += 1;
                }
                Some(v)
            }
            26 => {
                let s = self.take(4)?;
                let v = u32::from_be_bytes([s[0], s[1], s[2], s[3]]) as u64;
                if v < 65536 && major != 7 {
                    self.info.nonminimal_heads += 1;
                }
                Some(v)
            }
            27 => {
                let s = self.take(8)?;
                let mut a = [0u8; 8];
                a.copy_from_slice(s);
                let v = u64::from_be_bytes(a);
                if v < (1u64 << 32) && major != 7 {
                    self.info.nonminimal_heads += 1;
                }
                Some(v)
            }
            28..=30 => return Err(DecErr::Malformed("reserved additional information")),
            _ => None,
        };
        Ok((major, ai, arg))
    }

    fn item(&mut self, depth: u32) -> Result<Item, DecErr> {
        if depth > MAX_DEPTH {
            return Err(DecErr::TooDeep);
        }
        if depth > self.info.max_depth {
            self.info.max_depth = depth;
        }
        self.info.items += 1;
        let (major, ai, arg) = self.head()?;
        match major {
            0 => match arg {
                Some(v) => Ok(Item::Int(v as i128)),
                None => Err(DecErr::Malformed("indefinite integer")),
            },
            1 => match arg {
                Some(v) => Ok(Item::Int(-1 - (v as i128))),
                None => Err(DecErr::Malformed("indefinite integer")),
            },
            2 | 3 => {
                let mut buf: Vec<u8> = Vec::new();
                match arg {
                    Some(n) => {
                        buf.extend_from_slice(self.take(n)?);
                        if major == 3 && std::str::from_utf8(&buf).is_err() {
                            return Err(DecErr::Malformed("invalid UTF-8"));
                        }
                    }
                    None => {
                        self.info.indefinite += 1;
                        loop {
                            if self.p < self.b.len() && self.b[self.p] == 0xff {
                                self.p += 1;
                                break;
                            }
                            let (m2, _ai2, arg2) = self.head()?;
                            if m2 != major {
                                return Err(DecErr::Malformed("chunk of wrong type"));
                            }
                            let n = match arg2 {
                                Some(n) => n,
                                None => return Err(DecErr::Malformed("nested indefinite chunk")),
                            };
                            let s = self.take(n)?;
                            if major == 3 && std::str::from_utf8(s).is_err() {
                                return Err(DecErr::Malformed("invalid UTF-8 in chunk"));
                            }
                            buf.extend_from_slice(s);
                        }
                    }
                }
                if major == 2 {
                    Ok(Item::Bytes(buf))
                } else {
                    Ok(Item::Text(String::from_utf8(buf).map_err(|_| {
                        DecErr::Malformed("invalid UTF-8")
                    })?))
                }
            }
            4 => {
                let mut v = Vec::new();
                match arg {
                    Some(n) => {
                        // never allocate from a declared length
                        for _ in 0..n {
                            if self.p >= self.b.len() {
                                return Err(DecErr::Truncated);
                            }
                            v.push(self.item(depth + 1)?);
                        }
                    }
                    None => {
                        self.info.indefinite += 1;
                        loop {
                            if self.p >= self.b.len() {
                                return Err(DecErr::Truncated);
                            }
                            if self.b[self.p] == 0xff {
                                self.p += 1;
                                break;
                            }
                            v.push(self.item(depth + 1)?);
                        }
                    }
                }
                Ok(Item::Array(v))
            }
            5 => {
                let mut v = Vec::new();
                match arg {
                    Some(n) => {
                        for _ in 0..n {
                            if self.p >= self.b.len() {
                                return Err(DecErr::Truncated);
                            }
                            let k = self.item(depth + 1)?;
                            let val = self.item(depth + 1)?;
                            v.push((k, val));
                        }
                    }
                    None => {
                        self.info.indefinite += 1;
                        loop {
                            if self.p >= self.b.len() {
                                return Err(DecErr::Truncated);
                            }
                            if self.b[self.p] == 0xff {
                                self.p += 1;
                                break;
                            }
                            let k = self.item(depth + 1)?;
                            if self.p < self.b.len() && self.b[self.p] == 0xff {
                                return Err(DecErr::Malformed("break between key and value"));
                            }
                            let val = self.item(depth + 1)?;
                            v.push((k, val));
                        }
                    }
                }
                Ok(Item::Map(v))
            }
            6 => match arg {
                Some(t) => Ok(Item::Tag(t, Box::new(self.item(depth + 1)?))),
                None => Err(DecErr::Malformed("indefinite tag")),
            },
            _ => match ai {
                0..=19 => Ok(Item::Simple(ai)),
                20 => Ok(Item::Bool(false)),
                21 => Ok(Item::Bool(true)),
                22 => Ok(Item::Null),
                23 => Ok(Item::Undefined),
                24 => {
                    let v = arg.unwrap() as u8;
                    if v < 32 {
                        Err(DecErr::Malformed("two-byte simple value below 32"))
                    } else {
                        Ok(Item::Simple(v))
                    }
                }
                25 => {
                    let f = f16_to_f64(arg.unwrap() as u16);
                    Ok(Item::Float(f))
                }
                26 => {
                    let f = f32::from_bits(arg.unwrap() as u32) as f64;
                    if f64_to_f16_exact(f).is_some() {
                        self.info.wide_floats += 1;
                    }
                    Ok(Item::Float(f))
                }
                27 => {
                    let f = f64::from_bits(arg.unwrap());
                    if f.is_nan() || (f as f32 as f64).to_bits() == f.to_bits() {
                        self.info.wide_floats += 1;
                    }
                    Ok(Item::Float(f))
                }
                _ => Err(DecErr::Malformed("stray break")),
            },
        }
    }
}

/// Decode one item from the front of `b`; returns the item, the number of bytes it occupied and
/// what encoding liberties it took.
pub fn decode_prefix(b: &[u8]) -> Result<(Item, usize, EncInfo), DecErr> {
    let mut d = Dec {
        b,
        p: 0,
        info: EncInfo::default(),
    };
    let it = d.item(0)?;
    Ok((it, d.p, d.info))
}

/// Decode exactly one item occupying all of `b`.
pub fn decode_exact(b: &[u8]) -> Result<(Item, EncInfo), DecErr> {
    let (it, n, info) = decode_prefix(b)?;
    if n != b.len() {
        return Err(DecErr::Trailing(n));
    }
    Ok((it, info))
}

pub fn decode(b: &[u8]) -> Result<Item, DecErr> {
    decode_exact(b).map(|x| x.0)
}

// ---------------------------------------------------------------------------------------------
// Encoders

/// Source of serialisation choices.  `Style::canonical()` makes the deterministic choice everywhere
/// (RFC 8949 section 4.2.1 except that map entries stay in the given order).
pub struct Style {
    rng: Option<Rng>,
    /// probabilities in 1/256
    pub p_wide: u32,
    pub p_indef: u32,
    pub p_bignum: u32,
    pub p_floatwide: u32,
    /// counters of liberties actually taken (so callers can tell whether an encoding is non-trivial)
    pub taken: u32,
}

impl Style {
    pub fn canonical() -> Style {
        Style {
            rng: None,
            p_wide: 0,
            p_indef: 0,
            p_bignum: 0,
            p_floatwide: 0,
            taken: 0,
        }
    }
    pub fn random(seed: u64) -> Style {
        Style {
            rng: Some(Rng::new(seed)),
            p_wide: 48,
            p_indef: 48,
            p_bignum: 24,
            p_floatwide: 64,
            taken: 0,
        }
    }
    /// every choice taken whenever possible
    pub fn wild(seed: u64) -> Style {
        Style {
            rng: Some(Rng::new(seed)),
            p_wide: 160,
            p_indef: 160,
            p_bignum: 96,
            p_floatwide: 160,
            taken: 0,
        }
    }
    fn roll(&mut self, p: u32) -> bool {
        match &mut self.rng {
            None => false,
            Some(r) => {
                let hit = (r.next() & 0xff) < p as u64;
                if hit {
                    self.taken += 1;
                }
                hit
            }
        }
    }
    fn below(&mut self, n: usize) -> usize {
        match &mut self.rng {
            None => 0,
            Some(r) => r.below(n),
        }
    }
}

fn min_width(v: u64) -> u8 {
    if v < 24 {
        0
    } else if v < 256 {
        1
    } else if v < 65536 {
        2
    } else if v < (1 << 32) {
        4
    } else {
        8
    }
}

fn put_head_w(out: &mut Vec<u8>, major: u8, v: u64, width: u8) {
    let m = major << 5;
    match width {
        0 => out.push(m | v as u8),
        1 => {
            out.push(m | 24);
            out.push(v as u8)
        }
        2 => {
            out.push(m | 25);
            out.extend_from_slice(&(v as u16).to_be_bytes())
        }
        4 => {
            out.push(m | 26);
            out.extend_from_slice(&(v as u32).to_be_bytes())
        }
        _ => {
            out.push(m | 27);
            out.extend_from_slice(&v.to_be_bytes())
        }
    }
}

pub fn put_head(out: &mut Vec<u8>, major: u8, v: u64, st: &mut Style) {
    let mut w = min_width(v);
    if w < 8 && st.roll(st.p_wide) {
        let steps = 1 + st.below(3);
        for _ in 0..steps {
            w = match w {
                0 => 1,
                1 => 2,
                2 => 4,
                _ => 8,
            };
        }
    }
    put_head_w(out, major, v, w);
}

fn put_string(out: &mut Vec<u8>, major: u8, data: &[u8], is_text: bool, st: &mut Style) {
    if st.roll(st.p_indef) {
        out.push((major << 5) | 31);
        // split at (char) boundaries into 0..4 chunks, some possibly empty
        let nchunks = st.below(4);
        let mut cuts: Vec<usize> = (0..nchunks).map(|_| st.below(data.len() + 1)).collect();
        if is_text {
            let s = std::str::from_utf8(data).unwrap();
            for c in cuts.iter_mut() {
                while !s.is_char_boundary(*c) {
                    *c -= 1;
                }
            }
        }
        cuts.sort();
        let mut prev = 0;
        for c in cuts.into_iter().chain(std::iter::once(data.len())) {
            let chunk = &data[prev..c];
            // the final chunk may be omitted when empty
            if c == data.len() && chunk.is_empty() && st.below(2) == 0 {
                break;
            }
            put_head(out, major, chunk.len() as u64, st);
            out.extend_from_slice(chunk);
            prev = c;
        }
        out.push(0xff);
    } else {
        put_head(out, major, data.len() as u64, st);
        out.extend_from_slice(data);
    }
}

pub fn encode_into(it: &Item, out: &mut Vec<u8>, st: &mut Style) {
    match it {
        Item::Int(v) => {
            let (neg, mag): (bool, u64) = if *v >= 0 {
                (false, *v as u64)
            } else {
                (true, (-1 - *v) as u64)
            };
            if st.roll(st.p_bignum) {
                // tag 2/3 over a definite byte string, 0-3 leading zero bytes
                out.push(if neg { 0xc3 } else { 0xc2 });
                let raw = mag.to_be_bytes();
                let first = raw.iter().position(|b| *b != 0).unwrap_or(8);
                let mut bs = vec![0u8; st.below(4)];
                bs.extend_from_slice(&raw[first..]);
                put_head(out, 2, bs.len() as u64, st);
                out.extend_from_slice(&bs);
            } else {
                put_head(out, if neg { 1 } else { 0 }, mag, st);
            }
        }
        Item::Bytes(b) => put_string(out, 2, b, false, st),
        Item::Text(s) => put_string(out, 3, s.as_bytes(), true, st),
        Item::Array(a) => {
            if st.roll(st.p_indef) {
                out.push(0x9f);
                for x in a {
                    encode_into(x, out, st);
                }
                out.push(0xff);
            } else {
                put_head(out, 4, a.len() as u64, st);
                for x in a {
                    encode_into(x, out, st);
                }
            }
        }
        Item::Map(m) => {
            if st.roll(st.p_indef) {
                out.push(0xbf);
                for (k, v) in m {
                    encode_into(k, out, st);
                    encode_into(v, out, st);
                }
                out.push(0xff);
            } else {
                put_head(out, 5, m.len() as u64, st);
                for (k, v) in m {
                    encode_into(k, out, st);
                    encode_into(v, out, st);
                }
            }
        }
        Item::Tag(t, b) => {
            put_head(out, 6, *t, st);
            match (&**b, *t) {
                // a bignum's byte string stays definite: whether the CBOR layer folds the tag into an
                // integer depends on that (DESIGN.md section 1 N1, finding P4), and an indefinite one
                // is outside the verdict alphabet
                (Item::Bytes(x), 2 | 3) => {
                    put_head(out, 2, x.len() as u64, st);
                    out.extend_from_slice(x);
                }
                _ => encode_into(b, out, st),
            }
        }
        Item::Bool(false) => out.push(0xf4),
        Item::Bool(true) => out.push(0xf5),
        Item::Null => out.push(0xf6),
        Item::Undefined => out.push(0xf7),
        Item::Simple(v) => {
            if *v < 24 {
                out.push(0xe0 | v)
            } else {
                out.push(0xf8);
                out.push(*v)
            }
        }
        Item::Float(f) => {
            let mut w = if f.is_nan() || f64_to_f16_exact(*f).is_some() {
                2
            } else if (*f as f32 as f64).to_bits() == f.to_bits() {
                4
            } else {
                8
            };
            if w < 8 && st.roll(st.p_floatwide) {
                w = if w == 2 && st.below(2) == 0 { 4 } else { 8 };
            }
            match w {
                2 => {
                    out.push(0xf9);
                    let h = if f.is_nan() {
                        0x7e00
                    } else {
                        f64_to_f16_exact(*f).unwrap()
                    };
                    out.extend_from_slice(&h.to_be_bytes());
                }
                4 => {
                    out.push(0xfa);
                    let x = if f.is_nan() { f32::NAN } else { *f as f32 };
                    out.extend_from_slice(&x.to_bits().to_be_bytes());
                }
                _ => {
                    out.push(0xfb);
                    out.extend_from_slice(&f.to_bits().to_be_bytes());
                }
            }
        }
    }
}

pub fn encode(it: &Item, st: &mut Style) -> Vec<u8> {
    let mut out = Vec::new();
    encode_into(it, &mut out, st);
    out
}

/// Deterministic encoding (shortest heads, definite lengths, shortest floats; map order as given).
pub fn det(it: &Item) -> Vec<u8> {
    encode(it, &mut Style::canonical())
}

pub fn hex(b: &[u8]) -> String {
    let mut s = String::with_capacity(b.len() * 2);
    for x in b {
        s.push_str(&format!("{:02x}", x));
    }
    s
}

pub fn unhex(s: &str) -> Option<Vec<u8>> {
    let s: Vec<u8> = s.bytes().filter(|c| !c.is_ascii_whitespace()).collect();
    if s.len() % 2 != 0 {
        return None;
    }
    let mut out = Vec::new();
    for i in (0..s.len()).step_by(2) {
        let h = (s[i] as char).to_digit(16)?;
        let l = (s[i + 1] as char).to_digit(16)?;
        out.push((h * 16 + l) as u8);
    }
    Some(out)
}

/// RFC 8949 Appendix A examples (hex, diagnostic-ish expectation) used by the codec self test.
pub fn selftest() -> Result<usize, String> {
    let cases: &[(&str, Item)] = &[
        ("00", Item::Int(0)),
        ("17", Item::Int(23)),
        ("1818", Item::Int(24)),
        ("1903e8", Item::Int(1000)),
        ("1b000000e8d4a51000", Item::Int(1000000000000)),
        ("1bffffffffffffffff", Item::Int(18446744073709551615)),
        ("3bffffffffffffffff", Item::Int(-18446744073709551616)),
        ("20", Item::Int(-1)),
        ("3863", Item::Int(-100)),
        ("f90000", Item::Float(0.0)),
        ("f98000", Item::Float(-0.0)),
        ("f93c00", Item::Float(1.0)),
        ("fb3ff199999999999a", Item::Float(1.1)),
        ("f93e00", Item::Float(1.5)),
        ("f97bff", Item::Float(65504.0)),
        ("fa47c35000", Item::Float(100000.0)),
        ("fa7f7fffff", Item::Float(3.4028234663852886e+38)),
        ("fb7e37e43c8800759c", Item::Float(1.0e+300)),
        ("f90001", Item::Float(5.960464477539063e-8)),
        ("f90400", Item::Float(0.00006103515625)),
        ("f9c400", Item::Float(-4.0)),
        ("fbc010666666666666", Item::Float(-4.1)),
        ("f97c00", Item::Float(f64::INFINITY)),
        ("f97e00", Item::Float(f64::NAN)),
        ("f9fc00", Item::Float(f64::NEG_INFINITY)),
        ("f4", Item::Bool(false)),
        ("f5", Item::Bool(true)),
        ("f6", Item::Null),
        ("f7", Item::Undefined),
        ("f0", Item::Simple(16)),
        ("f8ff", Item::Simple(255)),
        (
            "c074323031332d30332d32315432303a30343a30305a",
            Item::Tag(0, Box::new(Item::text("2013-03-21T20:04:00Z"))),
        ),
        ("c11a514b67b0", Item::Tag(1, Box::new(Item::Int(1363896240)))),
        ("d74401020304", Item::Tag(23, Box::new(Item::bytes(&[1, 2, 3, 4])))),
        ("40", Item::bytes(&[])),
        ("4401020304", Item::bytes(&[1, 2, 3, 4])),
        ("60", Item::text("")),
        ("6161", Item::text("a")),
        ("6449455446", Item::text("IETF")),
        ("62c3bc", Item::text("\u{fc}")),
        ("64f0908591", Item::text("\u{10151}")),
        ("80", Item::Array(vec![])),
        ("83010203", Item::Array(vec![Item::Int(1), Item::Int(2), Item::Int(3)])),
        (
            "8301820203820405",
            Item::Array(vec![
                Item::Int(1),
                Item::Array(vec![Item::Int(2), Item::Int(3)]),
                Item::Array(vec![Item::Int(4), Item::Int(5)]),
            ]),
        ),
        ("a0", Item::Map(vec![])),
        (
            "a201020304",
            Item::Map(vec![(Item::Int(1), Item::Int(2)), (Item::Int(3), Item::Int(4))]),
        ),
        (
            "a26161016162820203",
            Item::Map(vec![
                (Item::text("a"), Item::Int(1)),
                (
                    Item::text("b"),
                    Item::Array(vec![Item::Int(2), Item::Int(3)]),
                ),
            ]),
        ),
    ];
    let mut n = 0;
    for (h, want) in cases {
        let b = unhex(h).unwrap();
        let got = decode(&b).map_err(|e| format!("{}: {:?}", h, e))?;
        if &got != want {
            return Err(format!("{}: decoded {:?}, want {:?}", h, got, want));
        }
        let back = det(want);
        if back != b {
            return Err(format!("{:?}: encoded {}, want {}", want, hex(&back), h));
        }
        n += 1;
    }
    // indefinite examples (decode only)
    let indef: &[(&str, Item)] = &[
        ("5f42010243030405ff", Item::bytes(&[1, 2, 3, 4, 5])),
        ("7f657374726561646d696e67ff", Item::text("streaming")),
        ("9fff", Item::Array(vec![])),
        (
            "9f018202039f0405ffff",
            Item::Array(vec![
                Item::Int(1),
                Item::Array(vec![Item::Int(2), Item::Int(3)]),
                Item::Array(vec![Item::Int(4), Item::Int(5)]),
            ]),
        ),
        (
            "bf61610161629f0203ffff",
            Item::Map(vec![
                (Item::text("a"), Item::Int(1)),
                (
                    Item::text("b"),
                    Item::Array(vec![Item::Int(2), Item::Int(3)]),
                ),
            ]),
        ),
    ];
    for (h, want) in indef {
        let b = unhex(h).unwrap();
        let (got, info) = decode_exact(&b).map_err(|e| format!("{}: {:?}", h, e))?;
        if &got != want || info.indefinite == 0 {
            return Err(format!("{}: decoded {:?}, want {:?}", h, got, want));
        }
        n += 1;
    }
    // malformed examples (RFC 8949 Appendix F subset)
    for h in [
        "18", "19", "1a", "1b", "1901", "1a0102", "1b01020304050607", "38", "58", "78", "98",
        "9a01ff00", "b8", "d8", "f8", "f900", "fa0000", "fb000000", "41", "61", "5affffffff00",
        "5bffffffffffffffff010203", "7affffffff00", "7b7fffffffffffffff010203", "818181818181818181",
        "8200", "a1", "a20102", "a100", "a2000000", "c0", "5f4100", "7f6100", "9f", "9f0102",
        "bf", "bf01020102", "819f", "9f8000", "9f9f9f9f9fffffffff", "9f819f819f9fffffff",
    ] {
        let b = unhex(h).unwrap();
        match decode(&b) {
            Err(DecErr::Truncated) => {}
            other => return Err(format!("{}: expected Truncated, got {:?}", h, other)),
        }
        n += 1;
    }
    for h in [
        "1c", "1d", "1e", "3c", "3d", "3e", "5c", "5d", "5e", "7c", "7d", "7e", "9c", "9d", "9e", "bc",
        "bd", "be", "dc", "dd", "de", "fc", "fd", "fe", "f800", "f801", "f818", "f81f", "ff", "81ff",
        "8200ff", "a1ff", "a1ff00", "a100ff", "a20000ff", "9f81ff", "9f829f819f9fffffffff",
        "bf00ff", "bf000000ff", "1f", "3f", "df", "5f00ff", "5f21ff", "5f6100ff", "5f80ff", "5fa0ff",
        "5fc000ff", "5fe0ff", "7f4100ff", "5f5f4100ffff", "7f7f6100ffff", "62c328",
    ] {
        let b = unhex(h).unwrap();
        match decode(&b) {
            Err(DecErr::Malformed(_)) => {}
            other => return Err(format!("{}: expected Malformed, got {:?}", h, other)),
        }
        n += 1;
    }
    // styled encodings decode back to the same item
    let mut r = Rng::new(7);
    for i in 0..2000u64 {
        let it = crate::gen::random_item(&mut r, 4);
        let mut st = Style::wild(i);
        let b = encode(&it, &mut st);
        let back = decode(&b).map_err(|e| format!("styled {}: {:?}", hex(&b), e))?;
        if back.normalize() != it.normalize() {
            return Err(format!("styled round trip differs: {}", hex(&b)));
        }
        n += 1;
    }
    Ok(n)
}

// ---------------------------------------------------------------------------------------------
// byte-level walker used for known-finding attribution (C07)

/// Copy one well-formed item from `b[*p..]` to `out` verbatim, except that every tag 2/3 whose
/// content is an *indefinite-length* byte string gets that string rewritten as one definite string.
/// Byte strings whose content is itself one CBOR item (protected headers) are rewritten inside.
/// Returns None if the input is not well-formed.  `changed` reports whether anything was rewritten.
pub fn neutralise_bignum_indefinite(b: &[u8]) -> Option<(Vec<u8>, bool)> {
    fn head(b: &[u8], p: &mut usize) -> Option<(u8, u8, Option<u64>, usize)> {
        let start = *p;
        let ib = *b.get(*p)?;
        *p += 1;
        let ai = ib & 0x1f;
        let arg = match ai {
            0..=23 => Some(ai as u64),
            24 => {
                let v = *b.get(*p)? as u64;
                *p += 1;
                Some(v)
            }
            25 => {
                let s = b.get(*p..*p + 2)?;
                *p += 2;
                Some(u16::from_be_bytes([s[0], s[1]]) as u64)
            }
            26 => {
                let s = b.get(*p..*p + 4)?;
                *p += 4;
                Some(u32::from_be_bytes([s[0], s[1], s[2], s[3]]) as u64)
            }
            27 => {
                let s = b.get(*p..*p + 8)?;
                *p += 8;
                let mut a = [0u8; 8];
                a.copy_from_slice(s);
                Some(u64::from_be_bytes(a))
            }
            31 => None,
            _ => return None,
        };
        Some((ib >> 5, ai, arg, start))
    }
    fn item(b: &[u8], p: &mut usize, out: &mut Vec<u8>, changed: &mut bool, under_bignum: bool, depth: u32) -> Option<()> {
        if depth > 600 {
            return None;
        }
        let (major, _ai, arg, start) = head(b, p)?;
        match major {
            0 | 1 | 7 => {
                if major == 7 && arg.is_none() {
                    return None;
                }
                out.extend_from_slice(&b[start..*p]);
                Some(())
            }
            2 | 3 => match arg {
                Some(n) => {
                    let end = p.checked_add(usize::try_from(n).ok()?)?;
                    if end > b.len() {
                        return None;
                    }
                    let content = &b[*p..end];
                    *p = end;
                    if major == 2 && !content.is_empty() {
                        // a nested item (protected header)?
                        let mut q = 0usize;
                        let mut inner = Vec::new();
                        let mut ch = false;
                        if item(content, &mut q, &mut inner, &mut ch, false, depth + 1).is_some() && q == content.len() && ch {
                            *changed = true;
                            put_head(out, 2, inner.len() as u64, &mut Style::canonical());
                            out.extend_from_slice(&inner);
                            return Some(());
                        }
                    }
                    out.extend_from_slice(&b[start..end]);
                    Some(())
                }
                None => {
                    let mut buf = Vec::new();
                    loop {
                        if *b.get(*p)? == 0xff {
                            *p += 1;
                            break;
                        }
                        let (m2, _, a2, _) = head(b, p)?;
                        if m2 != major {
                            return None;
                        }
                        let n = usize::try_from(a2?).ok()?;
                        let end = p.checked_add(n)?;
                        buf.extend_from_slice(b.get(*p..end)?);
                        *p = end;
                    }
                    if under_bignum && major == 2 {
                        *changed = true;
                        put_head(out, 2, buf.len() as u64, &mut Style::canonical());
                        out.extend_from_slice(&buf);
                    } else {
                        out.extend_from_slice(&b[start..*p]);
                    }
                    Some(())
                }
            },
            4 | 5 => {
                out.extend_from_slice(&b[start..*p]);
                let mult = if major == 5 { 2 } else { 1 };
                match arg {
                    Some(n) => {
                        for _ in 0..n.checked_mul(mult)? {
                            item(b, p, out, changed, false, depth + 1)?;
                        }
                    }
                    None => {
                        let mut k = 0u64;
                        loop {
                            if *b.get(*p)? == 0xff {
                                if k % mult != 0 {
                                    return None;
                                }
                                out.push(0xff);
                                *p += 1;
                                break;
                            }
                            item(b, p, out, changed, false, depth + 1)?;
                            k += 1;
                        }
                    }
                }
                Some(())
            }
            _ => {
                let t = arg?;
                out.extend_from_slice(&b[start..*p]);
                item(b, p, out, changed, t == 2 || t == 3, depth + 1)
            }
        }
    }
    let mut p = 0;
    let mut out = Vec::new();
    let mut changed = false;
    item(b, &mut p, &mut out, &mut changed, false, 0)?;
    if p != b.len() {
        return None;
    }
    Some((out, changed))
}
